"""Shared machinery of the fastscapelib model-based verification framework.

build_harness   compiles /verif/harness against /repo's *current working tree* (content-hashed cache)
run_tlc         runs TLC on a module/config, parses states / transitions / coverage / errors
run_cases       executes case files through the harness (parallel chunks, each case in a child)
validate        validates recorded traces against a *Trace.tla specification (strict, then diagnosis)
Evidence        collects what a check run covered and writes /verif/evidence/<id>.json
"""
import hashlib
import json
import os
import re
import shutil
import subprocess
import sys
import time
import uuid
from concurrent.futures import ThreadPoolExecutor

VERIF = os.path.dirname(os.path.dirname(os.path.abspath(__file__)))
REPO = os.environ.get("VERIF_REPO", "/repo")
TLA = os.path.join(VERIF, "tla")
HARNESS = os.path.join(VERIF, "harness")
CACHE = os.path.join(VERIF, ".cache")
OUT = os.environ.get("VERIF_OUT") or os.path.join(VERIF, "out")   # (scratch output of regression runs elsewhere)
JAR = "/opt/veriftools/tla/tla2tools.jar:/opt/veriftools/tla/CommunityModules-deps.jar"
GUARD = "FASTSCAPELIB_VERIF_HOOKS"
NCPU = min(16, os.cpu_count() or 4)
ALL_CHECKS = ["C01", "C02", "C03", "C04", "C05", "C06", "C07", "C09", "C10", "C12", "C13", "C14", "C15", "C16", "C18",
              "C17", "C19", "C20"]


class MachineryError(Exception):
    """The framework itself failed (build error, TLC error, timeout): exit 2, never a verdict."""


def log(*a):
    print(*a, file=sys.stderr, flush=True)


# ------------------------------------------------------------------------------ harness build
def _tree_hash(paths, extra=""):
    h = hashlib.sha256()
    for root in paths:
        for dp, dn, fn in sorted(os.walk(root)):
            dn.sort()
            for f in sorted(fn):
                p = os.path.join(dp, f)
                h.update(p.encode())
                with open(p, "rb") as fh:
                    h.update(fh.read())
    h.update(extra.encode())
    return h.hexdigest()[:20]


FLAVORS = {
    "plain": dict(cxx="g++", flags=["-std=c++17", "-O1", "-D" + GUARD, "-pthread"]),
    "tsan": dict(cxx="clang++", flags=["-std=c++17", "-O1", "-g", "-fsanitize=thread", "-D" + GUARD,
                                       "-pthread"]),
}


def build_harness(flavor="plain", sources=None, name="fsl_harness"):
    """Builds (or reuses) the harness for the current content of /repo/include."""
    fl = FLAVORS[flavor]
    if sources is None:
        sources = sorted(f for f in os.listdir(HARNESS) if f.endswith(".cpp") and f != "stubs_flow.cpp")
    key = _tree_hash([os.path.join(REPO, "include"), HARNESS],
                     flavor + " ".join(fl["flags"]) + " ".join(sources) + name)
    d = os.path.join(CACHE, "h-" + key)
    exe = os.path.join(d, name)
    if os.path.exists(exe):
        return exe
    tmp = d + ".tmp%d" % os.getpid()
    os.makedirs(tmp, exist_ok=True)
    t0 = time.time()
    inc = ["-I" + os.path.join(REPO, "include"), "-I" + HARNESS]

    def cc(src):
        obj = os.path.join(tmp, src[:-4] + ".o")
        p = subprocess.run([fl["cxx"]] + fl["flags"] + inc + ["-c", os.path.join(HARNESS, src), "-o", obj],
                           capture_output=True, text=True)
        return src, p.returncode, p.stderr, obj

    with ThreadPoolExecutor(max_workers=NCPU) as ex:
        res = list(ex.map(cc, sources))
    bad = [r for r in res if r[1] != 0]
    if bad:
        msg = "\n".join("%s:\n%s" % (b[0], b[2][-3000:]) for b in bad)
        shutil.rmtree(tmp, ignore_errors=True)
        raise MachineryError("harness does not compile against the current tree:\n" + msg)
    p = subprocess.run([fl["cxx"]] + fl["flags"] + [r[3] for r in res] + ["-o", os.path.join(tmp, name)],
                       capture_output=True, text=True)
    if p.returncode != 0:
        shutil.rmtree(tmp, ignore_errors=True)
        raise MachineryError("harness link failed:\n" + p.stderr[-3000:])
    for r in res:
        os.remove(r[3])
    try:
        os.rename(tmp, d)
    except OSError:
        shutil.rmtree(tmp, ignore_errors=True)  # somebody else finished first
    log("[build] harness (%s) built in %.1fs -> %s" % (flavor, time.time() - t0, d))
    _prune_cache()
    return exe


def _prune_cache(keep=40):
    try:
        ds = [os.path.join(CACHE, x) for x in os.listdir(CACHE) if x.startswith("h-") and ".tmp" not in x]
        ds.sort(key=os.path.getmtime, reverse=True)
        for d in ds[keep:]:
            shutil.rmtree(d, ignore_errors=True)
    except OSError:
        pass


# ------------------------------------------------------------------------------ TLC
class TlcResult:
    def __init__(self):
        self.rc = None
        self.out = ""
        self.generated = 0
        self.distinct = 0
        self.depth = 0
        self.error = None          # None | 'invariant' | 'postcondition' | 'property' | 'deadlock' | 'other'
        self.error_text = ""
        self.failed = []           # diagnosis mode: list of (conjunct, line)
        self.rejected_line = None
        self.coverage = {}
        self.wall = 0.0
        self.timeout = False


def run_tlc(module, cfg, env=None, workers=1, timeout=900, cwd=TLA, extra=None, xmx="4g", metadir=None,
            simulate=None, coverage=False, deque=False, xss=None):
    r = _run_tlc_once(module, cfg, env, workers, timeout, cwd, extra, xmx, metadir, simulate, coverage, deque,
                      xss or os.environ.get("VERIF_XSS", "256m"))
    if "StackOverflowError" in r.out and xss is None:
        # deep recursion of a contract operator on a world of a thousand nodes: same run with a 1 GB thread stack (the JVM's maximum)
        r = _run_tlc_once(module, cfg, env, workers, timeout, cwd, extra, xmx, None, simulate, coverage, deque, "1g")
    return r


def _run_tlc_once(module, cfg, env, workers, timeout, cwd, extra, xmx, metadir, simulate, coverage, deque, xss):
    r = TlcResult()
    t0 = time.time()
    md = metadir or os.path.join(OUT, "tlc-md", "%s-%d-%s" % (os.path.basename(cfg), os.getpid(), uuid.uuid4().hex[:12]))
    os.makedirs(md, exist_ok=True)
    cmd = ["java", "-XX:+UseParallelGC", "-Xss" + xss, "-Xmx" + xmx]
    if deque:
        cmd.append("-Dtlc2.tool.queue.IStateQueue=StateDeque")
    cmd += ["-cp", JAR, "tlc2.TLC", "-noGenerateSpecTE", "-workers", str(workers), "-metadir", md, "-config", cfg]
    if coverage:
        cmd += ["-coverage", "1"]
    if simulate:
        cmd += ["-simulate", simulate]
    if extra:
        cmd += extra
    cmd.append(module)
    e = dict(os.environ)
    if env:
        e.update({k: str(v) for k, v in env.items()})
    try:
        p = subprocess.run(cmd, cwd=cwd, env=e, capture_output=True, text=True, timeout=timeout)
        r.rc = p.returncode
        r.out = p.stdout + p.stderr
    except subprocess.TimeoutExpired as ex:
        r.timeout = True
        r.out = (ex.stdout or b"").decode(errors="replace") if isinstance(ex.stdout, bytes) else (ex.stdout or "")
        r.rc = -1
    r.wall = time.time() - t0
    shutil.rmtree(md, ignore_errors=True)
    m = re.findall(r"(\d+) states generated, (\d+) distinct states found", r.out)
    if m:
        r.generated, r.distinct = int(m[-1][0]), int(m[-1][1])
    m = re.findall(r"The depth of the complete state graph search is (\d+)", r.out)
    if m:
        r.depth = int(m[-1])
    for mm in re.finditer(r'<<"FAILED", "([^"]+)", "line", (\d+)>>', r.out):
        r.failed.append((mm.group(1), int(mm.group(2))))
    mm = re.search(r'<<"REJECTED at line", (\d+)', r.out)
    if mm:
        r.rejected_line = int(mm.group(1))
    if r.timeout:
        r.error = "timeout"
    elif "Postcondition" in r.out and "is false" in r.out:
        r.error = "postcondition"
    elif re.search(r"Invariant \S+ is violated", r.out):
        r.error = "invariant"
        r.error_text = re.search(r"Invariant (\S+) is violated", r.out).group(1)
    elif re.search(r"Temporal propert(y|ies) .*violated", r.out):
        r.error = "property"
    elif "Deadlock reached" in r.out:
        r.error = "deadlock"
    elif r.rc != 0 or "Error:" in r.out:
        r.error = "other"
        mm = re.search(r"Error: (.*)", r.out)
        r.error_text = r.out[-2500:] if not mm else r.out[mm.start():mm.start() + 2500]
    if coverage:
        for mm in re.finditer(r"<(\w+) line \d+, col \d+ to line \d+, col \d+ of module (\w+)(?: \([\d ]+\))?>: (\d+):(\d+)", r.out):
            a, b = r.coverage.get(mm.group(1), (0, 0))
            r.coverage[mm.group(1)] = (a + int(mm.group(3)), b + int(mm.group(4)))
    return r


def sany_all():
    bad = []
    for f in sorted(os.listdir(TLA)):
        if f.endswith(".tla") and "_TTrace_" not in f:      # (error-trace modules TLC may leave behind are not ours)
            p = subprocess.run(["java", "-cp", JAR, "tla2sany.SANY", f], cwd=TLA, capture_output=True, text=True)
            if p.returncode != 0 or "*** Errors" in p.stdout or "Fatal" in p.stdout:
                bad.append((f, p.stdout[-1500:]))
    return bad


# ------------------------------------------------------------------------------ cases and traces
def write_cases(cases, path):
    with open(path, "w") as f:
        for c in cases:
            f.write(json.dumps(c, separators=(",", ":")) + "\n")


def run_cases(exe, cases, workdir, nproc=NCPU, timeout_ms=10000, tag="t", env=None):
    """Splits the cases in nproc chunks, runs one harness process per chunk.  Returns trace paths."""
    os.makedirs(workdir, exist_ok=True)
    cases = list(cases)
    nproc = max(1, min(nproc, len(cases)))
    chunks = [cases[i::nproc] for i in range(nproc)]
    jobs = []
    for i, ch in enumerate(chunks):
        cp = os.path.join(workdir, "%s-cases-%02d.ndjson" % (tag, i))
        tp = os.path.join(workdir, "%s-trace-%02d.ndjson" % (tag, i))
        write_cases(ch, cp)
        jobs.append((cp, tp))

    def go(j):
        e = dict(os.environ)
        if env:
            e.update(env)
        p = subprocess.run([exe, "--cases", j[0], "--out", j[1], "--timeout", str(timeout_ms)],
                           capture_output=True, text=True, env=e)
        if p.returncode != 0:
            raise MachineryError("harness failed on %s: %s" % (j[0], p.stderr[-2000:]))
        with open(j[1] + ".stderr", "w") as f:
            f.write(p.stderr[-200000:])
        return j[1]

    with ThreadPoolExecutor(max_workers=nproc) as ex:
        traces = list(ex.map(go, jobs))
    return traces, [j[0] for j in jobs]


def _case_of_line(trace_path, line_no):
    """Id of the case (Reset segment) that contains the 1-based line number."""
    cid = None
    with open(trace_path) as f:
        for i, ln in enumerate(f, 1):
            if ln.startswith('{"e":"Reset"'):
                try:
                    cid = json.loads(ln).get("case")
                except ValueError:
                    pass
            if i >= line_no:
                break
    return cid


class Violation:
    def __init__(self, prop, conjunct, case_id, case=None, trace=None, line=None):
        self.prop = prop
        self.conjunct = conjunct
        self.case_id = case_id
        self.case = case
        self.trace = trace
        self.line = line

    def __repr__(self):
        return "Violation(%s %s case=%s)" % (self.prop, self.conjunct, self.case_id)


def _segments(path):
    """[(start_line, end_line_exclusive, case_id)] of the Reset-delimited segments (1-based lines)."""
    segs = []
    with open(path) as f:
        lines = f.readlines()
    cur = None
    for i, ln in enumerate(lines, 1):
        if ln.startswith('{"e":"Reset"'):
            if cur:
                segs.append((cur[0], i, cur[1]))
            try:
                cid = json.loads(ln).get("case")
            except ValueError:
                cid = None
            cur = (i, cid)
    if cur:
        segs.append((cur[0], len(lines) + 1, cur[1]))
    return segs, lines


def _split_trace(tp, max_bytes):
    """Cuts a trace into parts of at most max_bytes (whole Reset segments; a single larger segment
    stays whole).  Returns the list of part paths (the trace itself when small enough)."""
    try:
        if os.path.getsize(tp) <= max_bytes:
            return [tp]
    except OSError:
        return [tp]
    parts, cur, size = [], [], 0

    def flush():
        nonlocal cur, size
        if cur:
            pp = "%s.part%03d" % (tp, len(parts))
            with open(pp, "w") as f:
                f.writelines(cur)
            parts.append(pp)
        cur, size = [], 0

    with open(tp) as f:
        for ln in f:
            if ln.startswith('{"e":"Reset"') and size >= max_bytes:
                flush()
            cur.append(ln)
            size += len(ln)
    flush()
    return parts


def validate(traces, checks, module="FlowTrace.tla", cfg="FlowTrace.cfg", timeout=2400, nproc=NCPU,
             xmx="3g", diag=True, max_cuts=25, max_bytes=1500000):
    """Validates traces against a trace specification.

    Returns (accepted_lines, failures): failures is a list of (trace_path, conjunct, line, case_id).
    Strict mode decides.  With diag (specifications built with Chk), a second run in diagnosis
    mode names every failing conjunct.  Without, the rejected segment is cut out and the rest of
    the trace is validated again, so that every remaining execution is still examined.
    """
    env0 = {("CHK_" + c): ("1" if c in checks else "0") for c in ALL_CHECKS}
    # traces of deep / wide worlds (one line = one world of 10^4..10^5 nodes) need a larger heap
    try:
        if traces and max(os.path.getsize(t) for t in traces) > 4000000:
            xmx = "12g"
    except OSError:
        pass

    def classify(r, tp):
        if r.error is None:
            return None
        if r.error == "postcondition":
            return ("Rejected", r.rejected_line)
        if r.error == "invariant":
            return ("Invariant:" + r.error_text, None)
        raise MachineryError("TLC failed on %s (%s):\n%s" % (tp, r.error, r.error_text or r.out[-2500:]))

    def one(tp):
        n = sum(1 for _ in open(tp))
        if n == 0:
            return tp, n, [], 0, 0
        env = dict(env0, TRACE=tp, DIAG="0")
        r = run_tlc(module, cfg, env=env, workers=1, timeout=timeout, xmx=xmx)
        if r.error == "other":
            # a JVM that could not start or was starved on an overloaded machine says nothing about the
            # trace: one more attempt before giving up (a genuine evaluation error repeats)
            time.sleep(2)
            r = run_tlc(module, cfg, env=env, workers=1, timeout=timeout, xmx=xmx)
        states, gen = r.distinct, r.generated
        c = classify(r, tp)
        if c is None:
            return tp, n, [], states, gen
        if diag:
            # rejected: re-run in diagnosis mode to name every failing conjunct (and confirm).  A line
            # that no action accepts even in diagnosis mode (the implementation did something the
            # specification has no transition for) is reported as such, its segment is cut out and
            # the rest of the trace is diagnosed again.
            fails = []
            cur = tp
            for k in range(max_cuts):
                env = dict(env0, TRACE=cur, DIAG="1")
                d = run_tlc(module, cfg, env=env, workers=1, timeout=timeout, xmx=xmx)
                if d.error not in (None, "postcondition"):
                    raise MachineryError("TLC diagnosis failed on %s (%s):\n%s" % (cur, d.error, d.error_text or d.out[-2500:]))
                fails += [(cur, cj, ln, _case_of_line(cur, ln)) for cj, ln in d.failed]
                if d.error is None:
                    break
                segs, lines = _segments(cur)
                line = d.rejected_line or 1
                seg = [sg for sg in segs if sg[0] <= line < sg[1]] or [segs[-1]]
                sg = seg[0]
                fails.append((cur, "NoSpecAction@%d" % (line - sg[0] + 1), line, sg[2]))
                rest = tp + ".drest%d" % k
                with open(rest, "w") as f:
                    f.writelines(lines[:sg[0] - 1] + lines[sg[1] - 1:])
                cur = rest
                if sum(1 for _ in open(cur)) == 0:
                    break
            if not fails:
                raise MachineryError("strict run rejected %s at line %s but diagnosis names no conjunct:\n%s"
                                     % (tp, r.rejected_line, d.out[-1500:]))
            return tp, n, fails, states, gen
        # cut-and-continue
        fails = []
        cur = tp
        for k in range(max_cuts):
            segs, lines = _segments(cur)
            what, line = c
            if line is None:
                # an invariant of the model failed in some state: find the line from the trace output
                mm = re.findall(r"/\\ l = (\d+)", r.out)
                line = int(mm[-1]) if mm else 1
            seg = [sg for sg in segs if sg[0] <= line < sg[1]]
            if not seg:
                seg = [segs[-1]]
            sg = seg[0]
            # confirm on the segment alone
            alone = tp + ".seg%d" % k
            with open(alone, "w") as f:
                f.writelines(lines[sg[0] - 1:sg[1] - 1])
            r2 = run_tlc(module, cfg, env=dict(env0, TRACE=alone, DIAG="0"), workers=1, timeout=timeout, xmx=xmx)
            c2 = classify(r2, alone)
            if c2 is not None:
                fails.append((alone, c2[0] + ("@%d" % (c2[1] or 0)), (c2[1] or 1), sg[2]))
            rest = tp + ".rest%d" % k
            with open(rest, "w") as f:
                f.writelines(lines[:sg[0] - 1] + lines[sg[1] - 1:])
            cur = rest
            if sum(1 for _ in open(cur)) == 0:
                break
            r = run_tlc(module, cfg, env=dict(env0, TRACE=cur, DIAG="0"), workers=1, timeout=timeout, xmx=xmx)
            states += r.distinct
            gen += r.generated
            c = classify(r, cur)
            if c is None:
                break
        return tp, n, fails, states, gen

    # large traces are cut at Reset boundaries (every execution starts from the specification's initial
    # state and has its own rank domain) so that no single TLC run grows with the size of the campaign
    parts = []
    for tp in traces:
        parts += _split_trace(tp, max_bytes)
    with ThreadPoolExecutor(max_workers=nproc) as ex:
        res = list(ex.map(one, parts))
    lines = sum(r[1] for r in res)
    failures = [f for r in res for f in r[2]]
    validate.last_states = sum(r[3] for r in res)
    validate.last_generated = sum(r[4] for r in res)
    return lines, failures


# ------------------------------------------------------------------------------ known findings
def load_known():
    """known_findings.txt: 'known: property=<id> <json>' and 'fixed: property=<id> <commit> <what>' lines."""
    p = os.path.join(VERIF, "known_findings.txt")
    out = []
    if os.path.exists(p):
        for ln in open(p):
            ln = ln.strip()
            m = re.match(r"known: property=(\S+) (\{.*\})$", ln)
            if m:
                k = json.loads(m.group(2))
                k["property"] = m.group(1)
                k["status"] = "known"
                out.append(k)
                continue
            m = re.match(r"fixed: property=(\S+) (\S+) (.*)$", ln)
            if m:
                out.append(dict(status="fixed", property=m.group(1), commit=m.group(2), what=m.group(3)))
    return out


# ------------------------------------------------------------------------------ evidence
class Evidence:
    def __init__(self, prop, tier, seed, level="model_checking"):
        self.prop = prop
        self.tier = tier
        self.seed = seed
        self.level = level
        self.t0 = time.time()
        self.cov = dict(states=0, transitions=0, traces_validated_against_impl=0, samples=[],
                        evaluations=0, distinct_nontrivial=0, rule="", models=[], trace_lines=0,
                        mc_states=0, mc_transitions=0, trace_spec_states=0)
        self.assumptions = []
        self.violations = 0
        self._distinct = set()

    def add_model(self, name, r, note=""):
        self.cov["states"] += r.distinct
        self.cov["transitions"] += r.generated
        self.cov["mc_states"] += r.distinct
        self.cov["mc_transitions"] += r.generated
        m = dict(model=name, distinct_states=r.distinct, states_generated=r.generated, depth=r.depth,
                 wall_s=round(r.wall, 2), result=r.error or "no error", note=note)
        if r.coverage:
            m["action_coverage"] = {k: list(v) for k, v in sorted(r.coverage.items())}
        self.cov["models"].append(m)

    def add_cases(self, cases, nontrivial=None):
        for c in cases:
            self.cov["evaluations"] += 1
            key = hashlib.md5(json.dumps({k: v for k, v in c.items() if k != "id"}, sort_keys=True).encode()).hexdigest()
            if nontrivial is None or nontrivial(c):
                self._distinct.add(key)

    def sample(self, s):
        if len(self.cov["samples"]) < 6:
            self.cov["samples"].append(s)

    def write(self):
        self.cov["distinct_nontrivial"] = len(self._distinct)
        ev = dict(property_id=self.prop, tier=self.tier, seed=self.seed, level=self.level, coverage=self.cov,
                  assumptions=self.assumptions, wall_s=round(time.time() - self.t0, 2), violations=self.violations)
        evdir = os.environ.get("VERIF_EVIDENCE") or os.path.join(VERIF, "evidence")
        os.makedirs(evdir, exist_ok=True)
        p = os.path.join(evdir, self.prop + ".json")
        with open(p + ".tmp", "w") as f:
            json.dump(ev, f, indent=1)
        os.replace(p + ".tmp", p)
        return p
