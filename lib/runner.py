"""Generic check runner: model checking parts + replay/trace-validation parts -> verdict + evidence."""
import json
import os
import shutil
import sys
import time

import vlib
from vlib import Evidence, MachineryError, log


def _noreturn_info(trace_path, cid):
    try:
        with open(trace_path) as f:
            for ln in f:
                if ln.startswith('{"e":"NoReturn"'):
                    r = json.loads(ln)
                    if cid is None or r.get("case") == cid:
                        return r
    except (OSError, ValueError):
        pass
    return None


def _segment_has_stall(trace_path, cid):
    """TRUE when the execution of case cid recorded in the trace ended on a scheduler stall."""
    try:
        inside = False
        with open(trace_path) as f:
            for ln in f:
                if ln.startswith('{"e":"Reset"'):
                    inside = ('"case":"%s"' % cid) in ln
                elif inside and "stall" in ln and ('"e":"Hang"' in ln or '"e":"NoReturn"' in ln):
                    return True
    except OSError:
        pass
    return False


class Check:
    """One property check run.  Subclass-free: a plan is a dict, see checks_*.py."""

    def __init__(self, prop, tier, seed):
        self.prop = prop
        self.tier = tier
        self.seed = seed
        self.ev = Evidence(prop, tier, seed)
        self.violations = []     # unlisted violations: list of dict(conjunct, case_id, replay)
        self.known_hits = {}     # known-finding id -> count
        self.workdir = os.path.join(vlib.OUT, prop, "run-%d" % os.getpid())
        self.outdir = os.path.join(vlib.OUT, prop)
        os.makedirs(self.workdir, exist_ok=True)
        self.known = [k for k in vlib.load_known() if k.get("property") == prop and k.get("status") == "known"]
        self._nviol = 0
        self._confirmed_timeouts = 0

    # ---- model checking part -------------------------------------------------------------
    def model(self, name, module, cfg, expect="ok", workers=None, timeout=1500, note="", xmx="8g", coverage=True,
              env=None, required_actions=()):
        """Runs TLC on an MC config.  expect = 'ok': any error is a violation of the property on the
        model (the model is the specification of what the code does, L2 refines L1)."""
        r = vlib.run_tlc(module, cfg, workers=workers or vlib.NCPU, timeout=timeout, xmx=xmx, coverage=coverage,
                         env=env)
        self.ev.add_model(name, r, note)
        log("[mc] %s: %d distinct / %d generated, depth %d, %.1fs, %s" % (name, r.distinct, r.generated, r.depth,
                                                                         r.wall, r.error or "no error"))
        if r.error in ("timeout", "other"):
            raise MachineryError("model %s: TLC %s\n%s" % (name, r.error, r.error_text or r.out[-2000:]))
        for a in required_actions:
            if a not in r.coverage:
                raise MachineryError("model %s: no coverage line for required action %s" % (name, a))
            if r.coverage[a][1] == 0:   # (distinct states found, states generated): generated = 0 means never enabled
                raise MachineryError("model %s: action %s never taken (vacuous model)" % (name, a))
        if expect == "violation":
            # negative control: the model with the defect switched on must be rejected by TLC,
            # otherwise the invariant is vacuous
            if r.error is None:
                raise MachineryError("negative control %s raised no violation: the model property is vacuous" % name)
            self.ev.cov["models"][-1]["result"] = "violation found, as expected (negative control)"
            return r
        if r.error is not None and expect == "ok":
            path = os.path.join(self.outdir, "mc-%s.txt" % name)
            with open(path, "w") as f:
                f.write(r.out)
            self.report(conjunct="model:" + name + ":" + (r.error_text or r.error), case_id="model:" + name, replay=path,
                        case=dict(kind="model", model=name))
        return r

    # ---- replay + trace validation part --------------------------------------------------
    def traces(self, cases, checks, tag="t", nontrivial=None, timeout_ms=10000, flavor="plain", spec=("FlowTrace.tla", "FlowTrace.cfg"),
               nproc=None, diag=True, sample_events=("Update", "Q"), build=None, env=None):
        cases = list(cases)
        if not cases:
            return
        exe = vlib.build_harness(flavor, **(build or {}))
        t0 = time.time()
        traces, case_files = vlib.run_cases(exe, cases, self.workdir, nproc=nproc or vlib.NCPU, timeout_ms=timeout_ms, tag=tag, env=env)
        t1 = time.time()
        lines, failures = vlib.validate(traces, checks, module=spec[0], cfg=spec[1], diag=diag)
        t2 = time.time()
        log("[trace] %s: %d cases, %d lines, run %.1fs, validate %.1fs, %d failing conjuncts"
            % (tag, len(cases), lines, t1 - t0, t2 - t1, len(failures)))
        self.ev.add_cases(cases, nontrivial)
        if not self.ev.cov["rule"]:
            self.ev.cov["rule"] = ("cases are generated by lib/checks_*.py / lib/gen.py from VERIF_SEED (or enumerated by TLC from the "
                                   "specification and written out with ndJsonSerialize), executed by the harness against /repo's working tree, "
                                   "and every recorded line is validated by TLC; evaluations = cases executed; distinct_nontrivial = number of "
                                   "cases with distinct content that satisfy the plan's non-triviality predicate (flow worlds: the field has a tie "
                                   "or the case sets a mask; other kinds: every case)")
        self.ev.cov["trace_lines"] += lines
        # states of the trace specification visited by TLC while validating (one per accepted line)
        self.ev.cov["trace_spec_states"] += vlib.validate.last_states
        self.ev.cov["states"] += vlib.validate.last_states
        self.ev.cov["transitions"] += vlib.validate.last_generated
        bad_cases = set(f[3] for f in failures)
        self.ev.cov["traces_validated_against_impl"] += len(cases) - len(bad_cases)
        # samples: first lines of the first trace
        try:
            with open(traces[0]) as f:
                for ln in f:
                    if any(ln.startswith('{"e":"%s' % se) for se in sample_events):
                        self.ev.sample(json.loads(ln) if len(ln) < 1500 else ln[:1500] + "...")
                        break
        except (OSError, ValueError):
            pass
        by_id = {c["id"]: c for c in cases}
        seen = set()
        # a call that did not return: name the reason; a timeout is only reported if it repeats when
        # the case is run alone (a loaded machine must not raise an alarm), a sanitizer report or a
        # crash is reported as is
        fixed = []
        stall_checked = {}
        for tp, conj, line, cid in failures:
            # a "stall" verdict of the controlled scheduler (a granted thread neither parked nor blocked
            # within the wall-clock allowance) depends on the machine's load: reported only if the case
            # stalls again when run alone
            if cid in by_id and _segment_has_stall(tp, cid):
                if cid not in stall_checked:
                    stall_checked[cid] = self._stall_repeats(exe, by_id[cid], timeout_ms, env)
                    if not stall_checked[cid]:
                        self.ev.cov["unconfirmed_stalls"] = self.ev.cov.get("unconfirmed_stalls", 0) + 1
                        log("[trace] scheduler stall of case %s did not repeat when run alone: not reported" % cid)
                if not stall_checked[cid]:
                    continue
            if conj.startswith(("NoReturn", "Rejected", "NoSpecAction")):
                info = _noreturn_info(tp, cid)
                if info is not None:
                    conj = "NoReturn(%s,%s,after %s steps)" % (info.get("why"), info.get("detail"), info.get("steps_done"))
                    if info.get("why") == "timeout" and cid in by_id and self._confirmed_timeouts < 2:
                        if self._timeout_repeats(exe, by_id[cid], timeout_ms, env):
                            self._confirmed_timeouts += 1   # once two hangs repeat alone, the others are reported as they are
                        else:
                            self.ev.cov["unconfirmed_timeouts"] = self.ev.cov.get("unconfirmed_timeouts", 0) + 1
                            log("[trace] timeout of case %s did not repeat when run alone: not reported" % cid)
                            continue
            if conj.startswith("NoReturn"):
                # keep what the harness printed (sanitizer reports, terminate messages)
                try:
                    os.makedirs(self.outdir, exist_ok=True)
                    shutil.copy(tp.split(".seg")[0].split(".part")[0].split(".drest")[0] + ".stderr", os.path.join(self.outdir, "stderr-%s.txt" % str(cid).replace("/", "_")))
                except OSError:
                    pass
            fixed.append((tp, conj, line, cid))
        failures = fixed
        for tp, conj, line, cid in failures:
            if (cid, conj) in seen:
                continue
            seen.add((cid, conj))
            self.report(conjunct=conj, case_id=cid, case=by_id.get(cid), trace=tp, line=line)

    def _stall_repeats(self, exe, case, timeout_ms, env):
        import subprocess
        cp = os.path.join(self.workdir, "retry-stall-case.ndjson")
        tp = os.path.join(self.workdir, "retry-stall-trace.ndjson")
        vlib.write_cases([case], cp)
        e = dict(os.environ)
        if env:
            e.update(env)
        subprocess.run([exe, "--cases", cp, "--out", tp, "--timeout", str(2 * timeout_ms)], capture_output=True, env=e)
        try:
            return "stall" in open(tp).read()
        except OSError:
            return True

    def _timeout_repeats(self, exe, case, timeout_ms, env):
        import subprocess
        cp = os.path.join(self.workdir, "retry-case.ndjson")
        tp = os.path.join(self.workdir, "retry-trace.ndjson")
        for attempt in range(1):
            vlib.write_cases([case], cp)
            e = dict(os.environ)
            if env:
                e.update(env)
            subprocess.run([exe, "--cases", cp, "--out", tp, "--timeout", str(2 * timeout_ms)], capture_output=True, env=e)
            if '"e":"NoReturn"' not in open(tp).read():
                return False
        return True

    # ---- verdicts ---------------------------------------------------------------------------
    def report(self, conjunct, case_id, case=None, replay=None, trace=None, line=None):
        ctx = context_of_line(trace, line) if (trace and line) else None
        for k in self.known:
            if known_matches(k, conjunct, case, ctx):
                self.known_hits[k["id"]] = self.known_hits.get(k["id"], 0) + 1
                return
        for v in self.violations:
            if v["case_id"] == case_id:
                if conjunct not in v["conjuncts"]:
                    v["conjuncts"].append(conjunct)
                return
        self._nviol += 1
        if replay is None and case is not None and self._nviol <= 50:
            os.makedirs(self.outdir, exist_ok=True)
            replay = os.path.join(self.outdir, "viol-%s-%d.ndjson" % (self.tier, self._nviol))
            with open(replay, "w") as f:
                f.write(json.dumps(case, separators=(",", ":")) + "\n")
        self.violations.append(dict(conjuncts=[conjunct], case_id=case_id, replay=replay))

    def finish(self):
        self.ev.violations = len(self.violations)
        self.ev.cov["known_findings_observed"] = self.known_hits
        if not getattr(self, "is_replay", False):    # a replay never rewrites the evidence of the check
            self.ev.write()
        shutil.rmtree(self.workdir, ignore_errors=True)
        for k in self.known:
            if self.known_hits.get(k["id"]):
                print("KNOWN-FINDING: property=%s %s (%s; observed %d times)" % (self.prop, k["id"], k["what"], self.known_hits[k["id"]]))
        if self.violations:
            counts = {}
            for v in self.violations:
                for c in v["conjuncts"]:
                    counts[c] = counts.get(c, 0) + 1
            print("%d violating cases; failing conjuncts: %s" % (len(self.violations), json.dumps(counts, sort_keys=True)))
            for v in self.violations[:20]:
                print("VIOLATION property=%s replay=%s" % (self.prop, v["replay"]))
                print("  failing conjuncts: %s (case %s)" % (", ".join(v["conjuncts"]), v["case_id"]))
            return 1
        print("OK property=%s tier=%s: held on everything explored (%d model states, %d implementation traces)"
              % (self.prop, self.tier, self.ev.cov["states"], self.ev.cov["traces_validated_against_impl"]))
        return 0


# ---------------------------------------------------------------------------------- known findings
# A known finding is identified by the failing conjunct AND a named predicate over the failing case
# (the specific input class / call site), so that any other violation is still reported.
def known_matches(k, conjunct, case, ctx=None):
    m = k.get("match", {})
    cj = m.get("conjunct")
    if cj and not conjunct.startswith(cj):
        return False
    pred = m.get("case_predicate")
    if pred:
        fn = CASE_PREDICATES.get(pred)
        if fn is None or case is None or not fn(case):
            return False
    pred = m.get("ctx_predicate")      # predicate over the call site: the operators of the failing graph
    if pred:
        fn = CASE_PREDICATES.get(pred)
        if fn is None or not ctx or not fn(ctx):
            return False
    return True


def context_of_line(trace_path, line):
    """The call site of a failing trace line: the operator sequence of the graph it belongs to."""
    try:
        with open(trace_path) as f:
            lines = f.readlines()
        r = json.loads(lines[line - 1])
        g = r.get("g")
        for k in range(line - 1, -1, -1):
            e = json.loads(lines[k])
            if e.get("e") == "Reset":
                break
            if e.get("e") == "New" and e.get("g") == g:
                return dict(ops=e.get("ops"), event=r.get("e"))
    except (OSError, ValueError, IndexError):
        pass
    return None


CASE_PREDICATES = {}


def _mst_basic_before_last_router(ctx):
    """the failing graph's sequence has a spanning-tree resolver with the basic method followed,
    later, by the router that produced the final graph, with no other elevation-updating operator
    in between"""
    ops = ctx.get("ops") or []
    upd = [i for i, o in enumerate(ops) if o.get("k") in ("single", "multi", "mst")]
    if not upd or ops[upd[-1]].get("k") == "mst":
        return False
    elev = [i for i, o in enumerate(ops[:upd[-1]]) if o.get("k") in ("pflood", "mst")]
    return bool(elev) and ops[elev[-1]].get("k") == "mst" and ops[elev[-1]].get("r") == "basic"


CASE_PREDICATES["mst_basic_before_last_router"] = _mst_basic_before_last_router


def _field_holds_lowest_double(case):
    """some update of the case gives a field in which at least two nodes hold numeric_limits<double>::lowest()"""
    for st in case.get("steps", []):
        z = st.get("z") if st.get("op") == "update" else None
        if isinstance(z, dict) and z.get("k") == "lit" and sum(1 for v in z.get("v", []) if v == "-1.7976931348623157e308") >= 2:
            return True
    return False


def _graph_has_mst_or_basin_graph(ctx):
    ops = ctx.get("ops") or []
    return any(o.get("k") == "mst" for o in ops) or ctx.get("event") == "BasinGraph"


CASE_PREDICATES["field_holds_lowest_double"] = _field_holds_lowest_double
CASE_PREDICATES["graph_has_mst_or_basin_graph"] = _graph_has_mst_or_basin_graph


def case_predicate(fn):
    CASE_PREDICATES[fn.__name__] = fn
    return fn
