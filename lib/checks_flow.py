"""Plans of the flow-graph properties decided on FlowGraph/FlowTrace (C01 C02 C04 C05 C06 C19 ...)."""
import json
import copy
import random

import gen
from gen import flow_case


def _world(rng, max_side, kinds=("raster", "raster", "profile", "mesh"), family=None, spacings=(1,)):
    g = gen.rand_grid(rng, max_side=max_side, kinds=kinds, spacings=spacings)
    z = gen.rand_field(rng, g, family)
    mask, bl = gen.rand_mask_bl(rng, g)
    return g, z, mask, bl


def steps_for_graph(gid, ops, mask, bl, z, extra=()):
    st = [dict(op="new", g=gid, ops=copy.deepcopy(ops))]
    if any(mask):
        st.append(dict(op="mask", g=gid, m=mask))
    st.append(dict(op="bl", g=gid, bl=bl))
    st.append(dict(op="update", g=gid, z=z))
    st.extend(extra)
    return st


def same_size_base_levels(rng, g, mask, bl):
    """another base-level set of the same size (disjoint from the mask) when one exists"""
    n = gen.grid_size(g)
    free = [i for i in range(n) if not mask[i]]
    if len(free) <= len(bl):
        return list(bl)
    for _ in range(10):
        cand = rng.sample(free, len(bl))
        if set(cand) != set(bl):
            return cand
    return list(bl)


def resolver_cases(seed, count, max_side, tag, seqs=None, families=None):
    """One case = one world x every resolver variant (one rank domain: variants are comparable)."""
    rng = random.Random(seed)
    seqs = seqs or gen.RESOLVER_SEQS
    for i in range(count):
        g, z, mask, bl = _world(rng, max_side, family=rng.choice(families) if families else None, spacings=(1, 1, 2, 3, 30))
        if g["t"] in ("raster", "profile") and rng.random() < 0.2:
            g["sc"] = rng.choice([-6, 5, 10])
        # the same objects then live on: other fields, other base levels / masks, the first field again
        z2 = gen.rand_field(rng, g, rng.choice(["tied", "bowl", "distinct", "tied3"]))
        mask2, bl2 = gen.rand_mask_bl(rng, g)
        if rng.random() < 0.5:
            mask2 = mask
            bl2 = same_size_base_levels(rng, g, mask, bl)
        steps = []
        for k, ops in enumerate(seqs):
            steps += steps_for_graph(k, ops, mask, bl, z)
            steps.append(dict(op="update", g=k, z=z2))
            steps.append(dict(op="mask", g=k, m=mask2))
            steps.append(dict(op="bl", g=k, bl=bl2))
            steps.append(dict(op="update", g=k, z=z2))
            steps.append(dict(op="update", g=k, z=z))
            steps.append(dict(op="drop", g=k))
        yield flow_case("%s-%d-%d" % (tag, seed, i), g, steps)


def nontrivial_world(c):
    """Non-trivial: the field has a tie or a strict interior minimum, or a mask / chosen base levels."""
    for s in c["steps"]:
        if s["op"] == "update":
            m = s["z"]["m"]
            return len(set(m)) < len(m) or any(c2["op"] == "mask" for c2 in c["steps"])
    return False


ALL_FINAL_SEQS = gen.RESOLVER_SEQS + gen.PLAIN_SEQS + [
    [gen.op_single(), gen.op_pflood()],
    [gen.op_multi(4), gen.op_pflood(), gen.op_single()],
    [gen.op_single(), gen.op_mst("kruskal", "basic"), gen.op_multi(4)],
    [gen.op_pflood(), gen.op_single(), gen.op_mst("boruvka", "basic"), gen.op_multi(8)],
    # very large slope exponents (64, 150): weights of gentle receivers underflow to exactly zero
    [gen.op_multi(256)],
    [gen.op_pflood(), gen.op_multi(600)],
]


def router_cases(seed, count, max_side, tag, multi=False):
    """Routers on raw integer fields (exact slope arithmetic): anisotropic integer spacings,
    scaled fields, wrap-around borders, meshes with integer coordinates."""
    rng = random.Random(seed)
    for i in range(count):
        g = gen.rand_grid(rng, max_side=max_side, kinds=("raster", "raster", "raster", "profile", "mesh"),
                          spacings=(1, 1, 2, 3, 5))
        n = gen.grid_size(g)
        fam = rng.choice(["tied", "tied3", "distinct", "wide", "bowl", "sub", "huge", "neg", "flat"] + (["cliff"] if multi else []))
        if multi and g["t"] in ("raster", "profile") and rng.random() < 0.35:
            g["sc"] = rng.choice([-10, -7, 9, 12])      # spacings of 1/1024 .. 4096 (times the integer spacing)
        if fam == "wide":
            z = dict(k="int", m=[rng.randint(0, 16 if multi else 4000) for _ in range(n)], e=rng.choice([0, -20, 30]))
        else:
            z = gen.rand_field(rng, g, fam)
        mask, bl = gen.rand_mask_bl(rng, g)
        steps = []
        if multi:
            seqs = [[gen.op_multi(rng.choice([0, 4, 8, 256, 600, 10000]))], [gen.op_pflood(), gen.op_multi(rng.choice([4, 4, 600]))],
                    [gen.op_single(), gen.op_mst("kruskal", "carve"), gen.op_multi(rng.choice([0, 4, 8, 120]))]]
        else:
            seqs = [[gen.op_single()], [gen.op_pflood(), gen.op_single()]]
        bl2 = same_size_base_levels(rng, g, mask, bl)
        mask2, bl3 = gen.rand_mask_bl(rng, g)
        for k, ops in enumerate(seqs):
            steps += steps_for_graph(k, ops, mask, bl, z)
            # the object lives on: base levels moved (same number), then another mask
            steps += [dict(op="bl", g=k, bl=bl2), dict(op="update", g=k, z=z),
                      dict(op="mask", g=k, m=mask2), dict(op="bl", g=k, bl=bl3), dict(op="update", g=k, z=z),
                      dict(op="mask", g=k, m=mask), dict(op="bl", g=k, bl=bl)]
            if multi:
                # the exponent is changed between successive updates on the same graph object
                midx = [j for j, o in enumerate(ops) if o["k"] == "multi"][0]
                for p in rng.sample([0, 4, 8, 6, 120, 600, 10000], 2):
                    steps.append(dict(op="param", g=k, i=midx, p=p))
                    steps.append(dict(op="update", g=k, z=z))
            steps.append(dict(op="drop", g=k))
        yield flow_case("%s-%d-%d" % (tag, seed, i), g, steps)


def state_cases(seed, count, max_side, tag, extra="none"):
    """Every kind of final state (all operator sequences), repeated updates on one object,
    followed by accumulate / basins calls when asked."""
    rng = random.Random(seed)
    for i in range(count):
        g, z, mask, bl = _world(rng, max_side)
        n = gen.grid_size(g)
        z2 = gen.rand_field(rng, g)
        seqs = rng.sample(ALL_FINAL_SEQS, 6)
        big_units = extra == "acc" and g["t"] == "raster" and rng.random() < 0.5
        if big_units:
            g["sc"] = -6
        if rng.random() < 0.2:
            # plateau-and-cliff relief under very large slope exponents: receivers with zero weight
            z = gen.rand_field(rng, g, "cliff")
            seqs = seqs[:4] + [[gen.op_multi(rng.choice([256, 600]))], [gen.op_pflood(), gen.op_multi(600)]]
        steps = []
        for k, ops in enumerate(seqs):
            single = all(o["k"] != "multi" for o in ops)
            ex = []
            if extra == "basins" and single:
                ex = [dict(op="basins", g=k)]
            if extra == "acc":
                if single:
                    srcs = [[rng.randint(0, 5) for _ in range(n)], [rng.randint(-3, 3) for _ in range(n)],
                            [rng.choice([0, 2])] * n]
                    u = rng.randrange(n)
                    srcs.append([1 if j == u else 0 for j in range(n)])
                else:
                    srcs = [[rng.randint(0, 3) for _ in range(n)], [1] * n]
                ex = [dict(op="acc", g=k, src=s, K=0 if single else 12) for s in srcs]
                if big_units:
                    # the same kind of source in other units: finite values near the top of the range on cells
                    # far smaller than one (the sum of the bare source over a catchment is not representable,
                    # the accumulated value is); and the opposite corner of the range
                    ex.append(dict(op="acc", g=k, src=[rng.randint(1, 5) for _ in range(n)], K=0 if single else 12, E=1020))
                    ex.append(dict(op="acc", g=k, src=[rng.randint(-5, 5) for _ in range(n)], K=0 if single else 12, E=1018))
                    ex.append(dict(op="acc", g=k, src=[rng.randint(0, 5) for _ in range(n)], K=0 if single else 12, E=-1000))
            steps += steps_for_graph(k, ops, mask, bl, z, ex)
            # second update of the same object with another field, then the same calls again
            steps.append(dict(op="update", g=k, z=z2))
            steps += ex
            steps.append(dict(op="drop", g=k))
        yield flow_case("%s-%d-%d" % (tag, seed, i), g, steps)


def history_cases(seed, count, max_side, tag, thr=None):
    """C09: one object lives through a history that revisits earlier inputs after perturbations
    (other fields, masks, base levels given in other insertion orders, parameter changes,
    accumulate / basins calls); a fresh object then gets the same inputs.  The specification has
    no hidden state, so TLC rejects any trace in which equal inputs give different observations."""
    rng = random.Random(seed)
    for i in range(count):
        g = gen.rand_grid(rng, max_side=max_side, kinds=("raster", "raster", "raster", "profile", "mesh"))
        n = gen.grid_size(g)
        ops = copy.deepcopy(rng.choice(ALL_FINAL_SEQS))
        if thr:
            for o in ops:
                if o["k"] == "single":
                    o["thr"] = rng.choice(thr)
        single = all(o["k"] != "multi" for o in ops)
        midx = [j for j, o in enumerate(ops) if o["k"] == "multi"]
        sidx = [j for j, o in enumerate(ops) if o["k"] == "mst"]
        configs = []
        for _ in range(rng.randint(2, 3)):
            z = gen.rand_field(rng, g, rng.choice(["tied", "tied", "tied3", "flat", "bowl", "ulp", "sub"]))
            mask, bl = gen.rand_mask_bl(rng, g, p_bl=0.25)
            configs.append(dict(z=z, mask=mask, bl=bl, p=rng.choice([0, 4, 8]),
                                mm=rng.choice(["kruskal", "boruvka"]), mr=rng.choice(["basic", "carve"])))
        if rng.random() < 0.5:   # same field under different base levels / masks
            configs[1]["z"] = configs[0]["z"]

        def visit(gid, c, full):
            st = [dict(op="mask", g=gid, m=c["mask"])]
            if rng.random() < 0.25:
                st.append(dict(op="mask_bad", g=gid))     # a refused call in between changes nothing
            bl = list(c["bl"])
            rng.shuffle(bl)
            st.append(dict(op="bl", g=gid, bl=bl))
            if midx:
                st.append(dict(op="param", g=gid, i=midx[-1], p=c["p"]))
            if sidx:
                # both members of the spanning-tree operator are public (read-write in the bindings);
                # a later multi router makes "basic" undefined for C01 but not for purity
                st.append(dict(op="param", g=gid, i=sidx[-1], m=c["mm"], r=c["mr"]))
            st.append(dict(op="update", g=gid, z=c["z"]))
            if full or rng.random() < 0.5:
                st.append(dict(op="acc", g=gid, src=[1] * n))
                if single:
                    st.append(dict(op="basins", g=gid))
            return st

        steps = [dict(op="new", g=0, ops=copy.deepcopy(ops))]
        order = [rng.randrange(len(configs)) for _ in range(rng.randint(3, 6))]
        for ci in order:
            steps += visit(0, configs[ci], False)
            if rng.random() < 0.3:   # repeat the very same call
                steps.append(dict(op="update", g=0, z=configs[ci]["z"]))
        # fresh objects, each built directly with the parameters of one configuration
        for fi, c in enumerate(configs, 1):
            fops = copy.deepcopy(ops)
            for j in midx:
                fops[j]["p"] = c["p"] if j == midx[-1] else fops[j]["p"]
            if sidx:
                fops[sidx[-1]]["m"] = c["mm"]
                fops[sidx[-1]]["r"] = c["mr"]
            steps.append(dict(op="new", g=fi, ops=fops))
            steps += [dict(op="mask", g=fi, m=c["mask"]), dict(op="bl", g=fi, bl=sorted(c["bl"])),
                      dict(op="update", g=fi, z=c["z"]), dict(op="acc", g=fi, src=[1] * n)]
            if single:
                steps.append(dict(op="basins", g=fi))
        for c in configs:
            steps += visit(0, c, True)
        if rng.random() < 0.5:
            # aliasing: the array returned by an update is given back as the next argument (the object itself,
            # "z = graph.update_routes(z)"), later a copy of the same values, and a copy on a fresh graph
            c = configs[0]
            steps += visit(0, c, False)
            steps += [dict(op="update", g=0, z=dict(k="prev", of=0, alias=1)), dict(op="acc", g=0, src=[1] * n)]
            steps += [dict(op="update", g=0, z=c["z"]), dict(op="update", g=0, z=dict(k="prev", of=0, alias=0)),
                      dict(op="acc", g=0, src=[1] * n)]
            steps += [dict(op="update", g=1, z=c["z"]), dict(op="update", g=1, z=dict(k="prev", of=1, alias=rng.choice([0, 1]))),
                      dict(op="acc", g=1, src=[1] * n)]
        steps += [dict(op="drop", g=gi) for gi in range(len(configs) + 1)]
        yield flow_case("%s-%d-%d" % (tag, seed, i), g, steps)


def lowest_probe_cases(seed, tag, count=8):
    """Known finding F16: fields in which several nodes hold numeric_limits<double>::lowest().  One fixed world on
    which it shows (three adjacent base levels at that value on a mesh) plus random ones."""
    rng = random.Random(seed)
    lo = "-1.7976931348623157e308"
    fixed = dict(t="mesh", pts=[[0, 0], [4, 0], [8, 0], [12, 0], [0, 4], [4, 4], [8, 4], [12, 4], [0, 8], [4, 8], [8, 8], [12, 8]],
                 tri=[[1, 0, 4], [1, 4, 5], [1, 5, 2], [2, 6, 5], [2, 3, 6], [3, 6, 7], [4, 5, 8], [5, 9, 8], [6, 9, 5], [10, 7, 6], [7, 10, 11]],
                 st="default")
    fz = dict(k="lit", v=[lo, "1", "3", "2", lo, lo, "0", lo, lo, "1", "3", "0"], m=[0] * 12, e=0)
    worlds = [(fixed, fz, [0] * 12, [8, 4, 0])]
    for _ in range(count - 1):
        g, z, mask, bl = _world(rng, 4, kinds=("raster", "raster", "mesh"), family="lowest")
        worlds.append((g, z, mask, bl))
    seqs = [[gen.op_single(), gen.op_mst("kruskal", "carve")], [gen.op_single(), gen.op_mst("kruskal", "basic")],
            [gen.op_single(), gen.op_mst("boruvka", "carve")], [gen.op_single(), gen.op_mst("kruskal", "carve"), gen.op_single()]]
    for i, (g, z, mask, bl) in enumerate(worlds):
        steps = []
        for k, ops in enumerate(seqs):
            steps += steps_for_graph(k, ops, mask, bl, z) + [dict(op="drop", g=k)]
        steps += [dict(op="new", g=9, ops=[gen.op_single()]), dict(op="mask", g=9, m=mask), dict(op="bl", g=9, bl=bl),
                  dict(op="update", g=9, z=z), dict(op="bgraph", g=9, m="kruskal"), dict(op="bgraph", g=9, m="boruvka"), dict(op="drop", g=9)]
        yield flow_case("%s-F16-%d" % (tag, i), g, steps)


def wrap_cases(seed, tag, widths=(8, 16), deltas=(-2, -1, 0, 1, 2)):
    """Long call histories on one object: a depression node stays masked during 2^w + delta consecutive
    update_routes calls (all but the first unlogged: 'burn'), is then unmasked, and the observation must be the
    one made before (no hidden state) and satisfy the contracts.  Reaches wrap-arounds of 8- and 16-bit
    call counters / visit stamps."""
    rng = random.Random(seed)
    k = 0
    for w in widths:
        for dl in deltas:
            for ops in ([gen.op_pflood(), gen.op_single()], [gen.op_single(), gen.op_mst("kruskal", "carve")],
                        [gen.op_single(), gen.op_mst("boruvka", "basic")], [gen.op_pflood(), gen.op_multi(4)]):
                nr, nc = rng.randint(3, 4), rng.randint(3, 5)
                g = gen.raster(nr, nc, rng.choice(["queen", "rook"]), [gen.FV] * 4)
                n = nr * nc
                interior = [r * nc + c for r in range(1, nr - 1) for c in range(1, nc - 1)]
                m = [5] * n
                for i in interior:
                    m[i] = rng.randint(0, 3)
                z = dict(k="int", m=m, e=0)
                z2 = dict(k="int", m=[rng.randint(0, 6) for _ in range(n)], e=0)
                masked = rng.sample(interior, min(len(interior), rng.randint(1, 2)))
                mask = [1 if i in masked else 0 for i in range(n)]
                none = [0] * n
                times = (1 << w) + dl - 1
                steps = [dict(op="new", g=0, ops=copy.deepcopy(ops)), dict(op="update", g=0, z=z), dict(op="update", g=0, z=z2),
                         dict(op="mask", g=0, m=mask), dict(op="update", g=0, z=z),
                         dict(op="burn", g=0, times=times, z=rng.choice([z, z2])),
                         dict(op="mask", g=0, m=none), dict(op="update", g=0, z=z), dict(op="acc", g=0, src=[1] * n),
                         dict(op="update", g=0, z=z2), dict(op="drop", g=0)]
                k += 1
                yield flow_case("%s-w%d-%d-%d" % (tag, w, dl, k), g, steps, timeout_ms=120000)


SNAP_SEQS = [
    # one name used at two places (the snapshot holds what the last of them saved), same and different directions
    [gen.op_single(), gen.op_snap("a"), gen.op_mst("kruskal", "carve"), gen.op_snap("a", 1, 1)],
    [gen.op_single(), gen.op_snap("d", 1, 0), gen.op_multi(4), gen.op_snap("d", 1, 1)],
    [gen.op_multi(4), gen.op_snap("d", 1, 1), gen.op_pflood(), gen.op_single(), gen.op_snap("d", 1, 0)],
    [gen.op_single(), gen.op_snap("a"), gen.op_mst("kruskal", "carve"), gen.op_snap("b", 1, 1)],
    [gen.op_pflood(), gen.op_snap("e", 0, 1), gen.op_single(), gen.op_snap("c", 1, 1)],
    [gen.op_multi(4), gen.op_snap("m", 1, 1)],
    [gen.op_single(), gen.op_mst("boruvka", "basic"), gen.op_snap("s", 1, 0), gen.op_multi(8), gen.op_snap("t", 1, 1)],
    [gen.op_single(), gen.op_snap("a", 1, 1), gen.op_pflood(), gen.op_snap("f", 0, 1), gen.op_multi(0)],
    [gen.op_pflood(), gen.op_single(), gen.op_snap("a"), gen.op_mst("kruskal", "basic"), gen.op_snap("b", 1, 1), gen.op_multi(4)],
    [gen.op_multi(4), gen.op_snap("m", 1, 0), gen.op_single(), gen.op_snap("n", 1, 1)],
]


def _prefix_ops(ops, i):
    p = [o for o in ops[:i]]
    if not any(o["k"] in ("single", "multi", "mst") for o in p):
        p = p + [gen.op_single()]
    return p


def snapshot_cases(seed, count, max_side, tag):
    """C16: every snapshot of a sequence is compared with a graph made of the operators before it."""
    rng = random.Random(seed)
    for i in range(count):
        g, z, mask, bl = _world(rng, max_side)
        n = gen.grid_size(g)
        z2 = gen.rand_field(rng, g)
        ops = copy.deepcopy(rng.choice(SNAP_SEQS))
        snaps = [(j, o) for j, o in enumerate(ops) if o["k"] == "snap"]
        steps = [dict(op="new", g=0, ops=ops)]
        pre = {}
        for k, (j, o) in enumerate(snaps, 1):
            pre[o["name"]] = k
            steps.append(dict(op="new", g=k, ops=[copy.deepcopy(x) for x in _prefix_ops(ops, j) if x["k"] != "snap"]))
        gids = [0] + list(pre.values())
        src = [rng.randint(0, 4) for _ in range(n)]
        for zz in (z, z2, z):
            for gid in gids:
                steps.append(dict(op="mask", g=gid, m=mask))
                steps.append(dict(op="bl", g=gid, bl=bl))
            for gid in reversed(gids):            # prefix graphs first: their state must be in the history
                steps.append(dict(op="update", g=gid, z=zz))
            for j, o in snaps:
                k = pre[o["name"]]
                if o.get("sg", 1):
                    psingle = all(x["k"] != "multi" for x in _prefix_ops(ops, j))
                    steps.append(dict(op="snap", g=0, name=o["name"]))
                    steps.append(dict(op="acc", g=k, src=src))
                    steps.append(dict(op="acc", g=0, snap=o["name"], src=src))
                    if psingle:
                        steps.append(dict(op="basins", g=k))
                        steps.append(dict(op="basins", g=0, snap=o["name"]))
                    # kernels applied on the snapshot graph, sequentially and through its own worker pool
                    steps.append(dict(op="kernel", g=0, snap=o["name"], dir="breadth", thr=rng.choice([1, 2, 3]),
                                      minblock=rng.choice([0, 1]), minlevel=rng.choice([0, 2]), init=rng.choice([0, 1])))
                    steps.append(dict(op="kernel", g=0, snap=o["name"], dir=rng.choice(["any", "depth"]), thr=1))
                    steps.append(dict(op="snapmut", g=0, name=o["name"], call=rng.choice(["update", "mask", "bl"])))
                if o.get("se", 0):
                    steps.append(dict(op="esnap", g=0, name=o["name"]))
            if rng.random() < 0.5:
                # the graph's mask / base levels are replaced AFTER the update: the snapshots keep the state of
                # that update until the next one (observed again before it)
                mask_l, bl_l = gen.rand_mask_bl(rng, g)
                steps += [dict(op="mask", g=0, m=mask_l), dict(op="bl", g=0, bl=bl_l)]
                for j, o in snaps:
                    if o.get("sg", 1):
                        steps.append(dict(op="snap", g=0, name=o["name"]))
                        steps.append(dict(op="acc", g=0, snap=o["name"], src=src))
                        if all(x["k"] != "multi" for x in _prefix_ops(ops, j)):
                            steps.append(dict(op="basins", g=0, snap=o["name"]))
                    if o.get("se", 0):
                        steps.append(dict(op="esnap", g=0, name=o["name"]))
            mask, bl = gen.rand_mask_bl(rng, g) if rng.random() < 0.5 else (mask, bl)
        steps += [dict(op="drop", g=gid) for gid in gids]
        yield flow_case("%s-%d-%d" % (tag, seed, i), g, steps)


def parallel_cases(seed, count, max_side, tag, kinds=None, big=False, par_kernels_on_seq=0.0):
    """C10: the same inputs go through a sequential graph and through graphs whose single router /
    kernels use 2..16 threads; repeated updates pause / resume / resize the worker pool.  The
    specification ignores thread counts and kernel thresholds: all observations must coincide."""
    rng = random.Random(seed)
    for i in range(count):
        k = rng.choice(kinds or ["raster", "raster_nc", "profile", "mesh"])
        if k == "raster_nc":
            side = max_side * (3 if big else 1)
            g = gen.raster(rng.randint(2, side), rng.randint(2, side), "queen", gen.rand_bounds_raster(rng), cache=0)
        elif k == "raster":
            side = max_side * (3 if big else 1)
            g = gen.raster(rng.randint(2, side), rng.randint(2, side), rng.choice(["queen", "rook", "bishop"]),
                           gen.rand_bounds_raster(rng))
        elif k == "profile":
            g = gen.profile(rng.randint(2, max_side * (8 if big else 3)), [rng.choice([0, 1, 2]), rng.choice([0, 1, 2])])
        else:
            c = max(1, (max_side - 1) * (2 if big else 1))
            g = gen.lattice_mesh(rng, rng.randint(1, c), rng.randint(1, c), holes=rng.choice([0, 0, 1]))
        n = gen.grid_size(g)
        mask, bl = gen.rand_mask_bl(rng, g)
        tail = rng.choice([[], [gen.op_mst("kruskal", "carve")], [gen.op_mst("boruvka", "basic")]])
        zs = [gen.rand_field(rng, g, rng.choice(["tied", "distinct", "bowl", "flat"])) for _ in range(2)]
        thrs = [1] + rng.sample([2, 3, 4, 5, 8, 16], 2)
        steps = []
        for gid, t in enumerate(thrs):
            ops = [gen.op_single(t if t > 1 else 0)] + copy.deepcopy(tail)
            steps.append(dict(op="new", g=gid, ops=ops))
            steps.append(dict(op="mask", g=gid, m=mask))
            steps.append(dict(op="bl", g=gid, bl=bl))
        for rep, z in enumerate(zs + [zs[0]]):
            for gid, t in enumerate(thrs):
                steps.append(dict(op="update", g=gid, z=z))
                steps.append(dict(op="acc", g=gid, src=[1] * n))
                steps.append(dict(op="basins", g=gid))
                for d in ("breadth", "any"):
                    kt = 1 if t == 1 else rng.choice([2, 3, 4, 7, t])
                    if t == 1 and rng.random() < par_kernels_on_seq:
                        kt = rng.choice([2, 3, 4])      # sequential router, parallel kernels (the kernel pool is the first to start)
                    steps.append(dict(op="kernel", g=gid, dir=d, thr=kt, minblock=rng.choice([0, 0, 1, 2, 5]),
                                      minlevel=rng.choice([0, 0, 1, 3, 6]), init=rng.choice([0, 1])))
                if t == 1:
                    steps.append(dict(op="kernel", g=gid, dir="depth", thr=1))
                elif rng.random() < 0.2:
                    steps.append(dict(op="kernel", g=gid, dir="depth", thr=2))
        steps += [dict(op="drop", g=gid) for gid in range(len(thrs))]
        yield flow_case("%s-%d-%d" % (tag, seed, i), g, steps, timeout_ms=30000)


def controlled(cases, seed):
    """The same cases executed under the harness' controlled scheduler (case field ctl): every pool
    point, every neighbour look-up made by a worker and every kernel call is a schedule point; the
    schedule is drawn from ctl.seed (pct < 0: uniform choice at every point, otherwise PCT priorities
    with pct change points in the first cp_range steps)."""
    rng = random.Random(seed)
    for c in cases:
        c["ctl"] = dict(seed=rng.randrange(1 << 30), pct=rng.choice([-1, -1, 2, 4]), cp_range=rng.choice([400, 3000]),
                        max_steps=3000000)
        c["id"] += "-ctl"
        yield c


def hub_cases(seed, tag, n_rook=0, n_queen=0, n_real=0, bgraph=True, routers=True):
    """Terrains on which SEVERAL basins keep more neighbours than Boruvka's low-degree bound after the first
    contraction round (gen.hub_world).  n_rook / n_queen worlds run with the bound lowered through the guarded
    knob (6 on rook rasters, 8 on queen rasters: 140..460 nodes), n_real worlds with the library value 16
    (1200..2200 nodes).  Every mst variant resolves the same world; the stand-alone basin graph is built
    with both algorithms."""
    rng = random.Random(seed)
    plan = [("rook", 6)] * n_rook + [("queen", 8)] * n_queen + [(None, 16)] * n_real
    for i, (conn, low) in enumerate(plan):
        g, z, low = gen.hub_world(rng, low_degree=low, conn=conn)
        steps = []
        seqs = [[gen.op_single(), gen.op_mst("boruvka", "basic")], [gen.op_single(), gen.op_mst("boruvka", "carve")],
                [gen.op_single(), gen.op_mst("kruskal", "carve")]]
        if routers:
            seqs += [[gen.op_single(), gen.op_mst("boruvka", "carve"), gen.op_multi(4)], [gen.op_pflood(), gen.op_single()]]
        for k, ops in enumerate(seqs):
            steps += [dict(op="new", g=k, ops=ops), dict(op="update", g=k, z=z), dict(op="drop", g=k)]
        if bgraph:
            steps += [dict(op="new", g=9, ops=[gen.op_single()]), dict(op="update", g=9, z=z),
                      dict(op="bgraph", g=9, m="kruskal"), dict(op="bgraph", g=9, m="boruvka"), dict(op="drop", g=9)]
        c = flow_case("%s-hub%d-%d-%d" % (tag, low, seed, i), g, steps, timeout_ms=120000)
        c["knobs"] = dict(low_degree=low)
        yield c


def basin_graph_cases(seed, count, max_side, tag, high_degree=0):
    """C15: stand-alone basin graphs (both tree algorithms) on single-router graphs; heavy ties; the
    same basin-graph object is updated again with other fields, masks and base levels."""
    rng = random.Random(seed)
    for i in range(count):
        g = gen.rand_grid(rng, max_side=max_side, kinds=("raster", "raster", "raster", "profile", "mesh"))
        n = gen.grid_size(g)
        steps = [dict(op="new", g=0, ops=[gen.op_single()])]
        for rep in range(3):
            z = gen.rand_field(rng, g, rng.choice(["tied", "tied", "tied3", "bowl", "distinct", "flat", "sub"]))
            mask, bl = gen.rand_mask_bl(rng, g, p_bl=0.1)
            steps += [dict(op="mask", g=0, m=mask), dict(op="bl", g=0, bl=bl), dict(op="update", g=0, z=z),
                      dict(op="bgraph", g=0, m="kruskal"), dict(op="bgraph", g=0, m="boruvka")]
        steps.append(dict(op="drop", g=0))
        yield flow_case("%s-%d-%d" % (tag, seed, i), g, steps)
    for i in range(high_degree):
        # one channel basin next to many small pits: basin degree far above Boruvka's low-degree bound
        ncols = rng.randint(24, 40)
        g = gen.raster(3, ncols, "rook", [gen.CORE] * 4)
        m = [0] * (3 * ncols)
        tied = rng.random() < 0.5
        for c in range(ncols):
            m[ncols + c] = 10 * c + 100
            for r in (0, 2):
                m[r * ncols + c] = 100000 if c % 2 else (10 * c + 99 - (0 if tied else rng.randint(0, 5)))
        steps = [dict(op="new", g=0, ops=[gen.op_single()]), dict(op="bl", g=0, bl=[ncols]),
                 dict(op="update", g=0, z=dict(k="int", m=m, e=0)),
                 dict(op="bgraph", g=0, m="kruskal"), dict(op="bgraph", g=0, m="boruvka"), dict(op="drop", g=0)]
        yield flow_case("%s-hd-%d-%d" % (tag, seed, i), g, steps, timeout_ms=30000)
    for i in range(high_degree):
        # several bowls side by side, separated by flat ridges, inside a border of base levels at a
        # constant level: every border node is an outer basin, every bowl an inner basin of degree
        # well above 16, and dozens of passes are tied (parallel equal-weight edges after collapse)
        nb_bowls = rng.choice([2, 3, 3])
        w = rng.randint(3, 5)
        nr = rng.randint(6, 9)
        nc = 2 + nb_bowls * w + (nb_bowls - 1)
        g = gen.raster(nr, nc, "queen", [gen.FV] * 4)
        B, R = rng.randint(0, 3), rng.randint(4, 7)
        steps = [dict(op="new", g=0, ops=[gen.op_single()])]
        for rep in range(3):
            m = [B] * (nr * nc)
            floors = [rng.randint(0, 3) for _ in range(nb_bowls)]
            if rng.random() < 0.5:
                floors = [floors[0]] * nb_bowls
            for r in range(1, nr - 1):
                for c in range(1, nc - 1):
                    k, off = divmod(c - 1, w + 1)
                    if off == w:                      # ridge column between two bowls
                        m[r * nc + c] = R if rng.random() < 0.8 else R + rng.randint(0, 1)
                    else:
                        rim = (r in (1, nr - 2)) or (k == 0 and off == 0) or (k == nb_bowls - 1 and off == w - 1)
                        m[r * nc + c] = (R - rng.choice([0, 0, 1])) if rim else floors[k] + rng.choice([0, 0, 0, 1])
            steps += [dict(op="update", g=0, z=dict(k="int", m=m, e=0)),
                      dict(op="bgraph", g=0, m="kruskal"), dict(op="bgraph", g=0, m="boruvka")]
        steps.append(dict(op="drop", g=0))
        yield flow_case("%s-bowls-%d-%d" % (tag, seed, i), g, steps, timeout_ms=30000)


def inject_cases(graphs, seed, tag, per_case=10, big=0, kthr=(1, 2, 3), kmin=(0, 1)):
    """B1 for the Orders / Sweeps models: every graph TLC enumerated (receiver lists + flow partition) is
    installed in a real flow graph by a user-defined router written against the library's extension point,
    the library's own traversal-order algorithms run on it, and accumulate / basins / kernels / a graph
    snapshot are observed.  Graphs no router can produce on a grid (long-range receivers, zero shares, a
    node draining to any other) are covered this way.  `big` further random DAGs on a 3x3 raster."""
    rng = random.Random(seed)
    items = []
    for gr in graphs:
        n = len(gr["rec"])
        grid = gen.raster(2, 2, "queen", [gen.CORE] * 4) if n <= 4 else gen.raster(2, 3, "queen", [gen.CORE] * 4)
        items.append((grid, gr))
    for _ in range(big):
        n = 9
        order = list(range(n))
        rng.shuffle(order)
        rec, w8 = [None] * n, [None] * n
        multi = rng.random() < 0.6
        for pos, i in enumerate(order):
            lower = order[:pos]
            k = 0 if not lower or rng.random() < 0.2 else rng.randint(1, min(len(lower), 4 if multi else 1))
            if k == 0:
                rec[i], w8[i] = [i], [256]
            else:
                rec[i] = sorted(rng.sample(lower, k))
                cuts = sorted(rng.choice([0, 32, 64, 128, 192, 256]) for _ in range(k - 1))
                w8[i] = [b - a for a, b in zip([0] + cuts, cuts + [256])]
        items.append((gen.raster(3, 3, "queen", [gen.CORE] * 4), dict(rec=rec, w8=w8)))
    by_grid = {}
    for grid, gr in items:
        by_grid.setdefault(json.dumps(grid, sort_keys=True), []).append(gr)
    cid = 0
    for gkey, lst in by_grid.items():
        grid = json.loads(gkey)
        n = gen.grid_size(grid)
        for c0 in range(0, len(lst), per_case):
            steps = []
            for k, gr in enumerate(lst[c0:c0 + per_case]):
                rec = [list(r) for r in gr["rec"]] + [[i] for i in range(len(gr["rec"]), n)]
                w8 = [list(w) for w in gr["w8"]] + [[256] for _ in range(len(gr["w8"]), n)]
                single = all(len(r) == 1 for r in rec)
                term = [i for i in range(n) if rec[i] == [i]]
                hasdon = {j for i in range(n) for j in rec[i] if j != i}
                bl = rng.sample(term, rng.randint(1, len(term)))
                lonely = [i for i in term if i not in hasdon and i not in bl]
                mask = [0] * n
                if single and lonely and rng.random() < 0.4:
                    for i in rng.sample(lonely, rng.randint(1, len(lonely))):
                        mask[i] = 1
                sd = [1 if (single and i in term and i not in bl and not mask[i] and rng.random() < 0.5) else 0 for i in range(n)]
                inj = dict(k="inject", d="single" if single else "multi", rec=rec, w8=w8, sd=sd)
                style = rng.choice(["plain", "plain", "snap", "after_router"])
                ops = [inj]
                if style == "snap":
                    ops = [inj, gen.op_snap("s", 1, 0)]
                elif style == "after_router":
                    ops = [gen.op_multi(4) if single else gen.op_single(), inj]
                z = dict(k="int", m=[rng.randrange(3) for _ in range(n)], e=0)
                ex = []
                if single:
                    u = rng.randrange(n)
                    srcs = [[rng.randint(0, 5) for _ in range(n)], [rng.randint(-3, 3) for _ in range(n)],
                            [1 if j == u else 0 for j in range(n)]]
                else:
                    srcs = [[rng.randint(0, 3) for _ in range(n)], [rng.randint(-2, 2) for _ in range(n)]]
                ex += [dict(op="acc", g=k, src=s, K=0 if single else 16) for s in srcs]
                if single:
                    ex.append(dict(op="basins", g=k))
                ex.append(dict(op="kernel", g=k, dir="breadth", thr=rng.choice(kthr), minblock=rng.choice(kmin),
                               minlevel=rng.choice([0, 2]), init=rng.choice([0, 1])))
                ex.append(dict(op="kernel", g=k, dir=rng.choice(["any", "depth"]), thr=1))
                if len(kthr) > 3:
                    ex.append(dict(op="kernel", g=k, dir="any", thr=rng.choice(kthr), minblock=rng.choice(kmin), minlevel=0, init=rng.choice([0, 1])))
                if style == "snap":
                    ex.append(dict(op="snap", g=k, name="s"))
                    ex.append(dict(op="acc", g=k, snap="s", src=srcs[0], K=0 if single else 16))
                    if single:
                        ex.append(dict(op="basins", g=k, snap="s"))
                    ex.append(dict(op="kernel", g=k, snap="s", dir="breadth", thr=rng.choice([1, 2])))
                steps += steps_for_graph(k, ops, mask, bl, z, ex)
                steps.append(dict(op="update", g=k, z=z))      # the same object once more
                steps += ex[:3]
                steps.append(dict(op="drop", g=k))
            yield flow_case("%s-%d-%d" % (tag, seed, cid), grid, steps)
            cid += 1


def deep_cases(tag, which, quick=True):
    """Worlds that are DEEP rather than wide: one flow path of more than 2^16 nodes (a monotonic profile),
    a trunk with thousands of consecutive confluences (a long narrow valley whose flanks drain sideways).
    Depth counters, level numbers, traversal stacks and recursion of the implementation are only stressed
    there; the order contracts are evaluated in their linear form (verified certificates)."""
    if "path" in which:
        n = 70001 if quick else 140003
        for j, ops in enumerate([[gen.op_single()], [gen.op_multi(4)]] if quick else
                                [[gen.op_single()], [gen.op_multi(4)], [gen.op_pflood(), gen.op_single()]]):
            g = gen.profile(n, [gen.FV, gen.CORE])
            z = dict(k="int", m=list(range(n)), e=0)
            steps = [dict(op="new", g=0, ops=ops, via=""), dict(op="bl", g=0, bl=[0]), dict(op="update", g=0, z=z)]
            if all(o["k"] != "multi" for o in ops):
                steps.append(dict(op="basins", g=0))
            steps.append(dict(op="drop", g=0))
            yield flow_case("%s-path-%d" % (tag, j), g, steps, timeout_ms=120000)
    if "valley" in which:
        nr, nc = (2600, 5) if quick else (5200, 5)
        g = gen.raster(nr, nc, "rook", [gen.CORE] * 4)
        m = [r + 10 * abs(c - 2) for r in range(nr) for c in range(nc)]
        mask = [0] * (nr * nc)
        mask[0] = 1
        z = dict(k="int", m=m, e=0)
        steps = [dict(op="new", g=0, ops=[gen.op_single()], via=""), dict(op="mask", g=0, m=mask, form=""),
                 dict(op="bl", g=0, bl=[2, nr * nc - 1]),
                 dict(op="update", g=0, z=z), dict(op="basins", g=0), dict(op="update", g=0, z=z), dict(op="basins", g=0),
                 dict(op="drop", g=0)]
        yield flow_case("%s-valley" % tag, g, steps, timeout_ms=120000)


def long_lake_cases(seed, count, tag, bgraph=True):
    """One inner basin with 70..200 distinct neighbour basins (a long valley between two rows of base levels,
    every border node its own outer basin), followed along the row by ridges and further inner basins that touch
    the same late outer basins: per-basin scratch lists of the basin-graph construction far beyond any small
    capacity.  The object is updated twice (the second field moves the ridges)."""
    rng = random.Random(seed)
    for i in range(count):
        nc = rng.randint(60, 110)
        conn = rng.choice(["queen", "queen", "queen", "rook"])
        g = gen.raster(3, nc, conn, [gen.CORE, gen.CORE, gen.FV, gen.FV])
        steps = [dict(op="new", g=0, ops=[gen.op_single()] if bgraph else [gen.op_single(), gen.op_mst(rng.choice(["kruskal", "boruvka"]), "carve")])]
        for rep in range(2):
            ridges = sorted(rng.sample(range(nc * 2 // 3, nc - 2), rng.randint(1, 3)))
            m = [0] * (3 * nc)
            tied = rng.random() < 0.5
            for c in range(nc):
                for r in (0, 2):
                    m[r * nc + c] = 1000 if tied else 1000 + (c * 7 + r) % 5
            start = 0
            for rg in ridges + [nc]:
                centre = rng.choice([start, max(start, rg - 1), (start + rg - 1) // 2, rng.randint(start, max(start, rg - 1))])   # the pit: at an end, in the middle, anywhere
                for c in range(start, rg):
                    m[nc + c] = 1 + abs(c - centre)
                if rg < nc:
                    m[nc + rg] = 5000
                start = rg + 1
            steps.append(dict(op="update", g=0, z=dict(k="int", m=m, e=0)))
            if bgraph:
                steps += [dict(op="bgraph", g=0, m="kruskal"), dict(op="bgraph", g=0, m="boruvka")]
        steps.append(dict(op="drop", g=0))
        yield flow_case("%s-%d-%d" % (tag, seed, i), g, steps, timeout_ms=60000)


def wide_history_cases(seed, tag, count=1, side=180):
    """One object updated with several surfaces of tens of thousands of nodes and thousands of basins (a size no
    whole-world contract evaluation affords, but equality of observations is linear): then a fresh object with
    the last surface.  Scratch tables that are only partially reset between calls show here."""
    rng = random.Random(seed)
    for i in range(count):
        g = gen.raster(side, side + rng.randint(0, 9), "rook", [gen.FV] * 4)
        n = gen.grid_size(g)
        ops = [gen.op_single(), gen.op_mst(rng.choice(["kruskal", "boruvka"]), rng.choice(["carve", "basic"]))]
        zs = [dict(k="int", m=[rng.randrange(1000) for _ in range(n)], e=0) for _ in range(3)]
        steps = [dict(op="new", g=0, ops=ops, via="")]
        for z in zs:
            steps.append(dict(op="update", g=0, z=z))
        steps += [dict(op="new", g=1, ops=copy.deepcopy(ops), via=""), dict(op="update", g=1, z=zs[-1]),
                  dict(op="update", g=0, z=zs[0]), dict(op="new", g=2, ops=copy.deepcopy(ops), via=""), dict(op="update", g=2, z=zs[0]),
                  dict(op="drop", g=0), dict(op="drop", g=1), dict(op="drop", g=2)]
        yield flow_case("%s-%d-%d" % (tag, seed, i), g, steps, timeout_ms=240000)
