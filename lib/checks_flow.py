"""Plans of the flow-graph properties decided on FlowGraph/FlowTrace (C01 C02 C04 C05 C06 C19 ...)."""
import copy
import random

import gen
from gen import flow_case


def _world(rng, max_side, kinds=("raster", "raster", "profile", "mesh"), family=None, spacings=(1,)):
    g = gen.rand_grid(rng, max_side=max_side, kinds=kinds, spacings=spacings)
    z = gen.rand_field(rng, g, family)
    mask, bl = gen.rand_mask_bl(rng, g)
    return g, z, mask, bl


def steps_for_graph(gid, ops, mask, bl, z, extra=()):
    st = [dict(op="new", g=gid, ops=copy.deepcopy(ops))]
    if any(mask):
        st.append(dict(op="mask", g=gid, m=mask))
    st.append(dict(op="bl", g=gid, bl=bl))
    st.append(dict(op="update", g=gid, z=z))
    st.extend(extra)
    return st


def resolver_cases(seed, count, max_side, tag, seqs=None, families=None):
    """One case = one world x every resolver variant (one rank domain: variants are comparable)."""
    rng = random.Random(seed)
    seqs = seqs or gen.RESOLVER_SEQS
    for i in range(count):
        g, z, mask, bl = _world(rng, max_side, family=rng.choice(families) if families else None)
        steps = []
        for k, ops in enumerate(seqs):
            steps += steps_for_graph(k, ops, mask, bl, z)
            steps.append(dict(op="drop", g=k))
        yield flow_case("%s-%d-%d" % (tag, seed, i), g, steps)


def nontrivial_world(c):
    """Non-trivial: the field has a tie or a strict interior minimum, or a mask / chosen base levels."""
    for s in c["steps"]:
        if s["op"] == "update":
            m = s["z"]["m"]
            return len(set(m)) < len(m) or any(c2["op"] == "mask" for c2 in c["steps"])
    return False
