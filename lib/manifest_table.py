"""Source of truth for MANIFEST.json."""
import json
import os

HOOK_COMMITS = ["b71293f", "23e6bda", "0c7fa88", "a3d5066", "761a9c4"]

CHECKS = {
    "C01": dict(
        technique="TLA+ contract (FlowContract!C01) checked by TLC on traces recorded from the real flow_graph; L2 models PFlood (priority flood, all queue tie-breaks) and BasinGraph (spanning-tree resolver, all tie orders and pass choices) model-checked against the same contract",
        text="Every recorded update_routes of every resolver variant is validated by TLC against the L1 contract: terminals are self receivers, every receiver edge of a node connected to a base level strictly descends in returned elevation (exact on ulp-ranks), and following receivers reaches a base level. Seeded random worlds (profile, rook/queen/bishop rasters with looped borders, meshes; ties, plateaus, zero/negative/subnormal/huge levels, masks, interior base levels) plus small exhaustive scopes; 'hub' worlds (140..460 nodes with the degree bound of the Boruvka work lists lowered through the guarded knob; 1100..2200 nodes with the library's bound in the thorough tier) keep several basins in Boruvka's large-degree list; a quarter of the graphs receive their operator sequence through the public move assignment.",
        note="Trusted: the harness logs projections only (ulp-ranks are a monotone re-encoding of the bit patterns); TLC evaluates the contract; neighbourhoods come from the Grid specification, itself bound to the real grids by C07. Bounded by world size (<= 8x8) and the sampled worlds.",
        ref="5-C01"),
    "C02": dict(
        technique="TLA+ contract (FlowContract!C02, spill level as a least fixpoint; on recorded traces TLC verifies a logged certificate of that fixpoint in one pass - fixpoint of the same step operator + witnessed by a descending parent chain - and computes it itself when the certificate fails or the world is small); PFlood and BasinGraph L2 models refine it exhaustively on small grids",
        text="For every recorded update of every resolver variant TLC recomputes the spill level (min over neighbour paths of the max input elevation) as a least fixpoint on ulp-ranks and checks in <= out, bit-identity at base levels / masked nodes, and Spill <= out <= Spill + N ulps exactly (gap-compressed ranks keep small ulp distances exact). Hub worlds as in C01 (Boruvka's large-degree list with several live hubs).",
        note="Trusted: rank encoding (order and ulp gaps < 1000 exact), Grid specification for neighbourhoods. The spill certificate is untrusted input: it is used only after TLC has verified both inequalities, and compared with the computed fixpoint on worlds of <= 30 nodes. Bounded by world size and samples.",
        ref="5-C02"),
    "C03": dict(
        technique="TLA+ balance equation (FlowContract!AccBalance/AccConserves/AccIndicator) evaluated by TLC in exact integer arithmetic on recorded accumulate calls",
        text="Every recorded accumulate call (4 overloads) on every kind of routed graph is validated by TLC: overloads bit-identical (ranks); where all quantities are exact integers (single direction: unit weights; multiple direction: weights that are multiples of 2^-8, results scaled by 2^K) the local balance acc = area*src + sum(donor acc * weight), conservation over terminal nodes and the local lower bound hold exactly; indicator sources reconstruct the whole linear operator on meshes (acc is bit-exactly 0 or area[u], non-zero exactly downstream of u). On EVERY graph whose values are in range (integer areas, |acc| < 4096) the same balance is checked in fixed point (acc 2^-5, weights 2^-9) with a tolerance equal to the quantisation alone.",
        note="Trusted: integer/dyadic encodings (exact by construction of the generated inputs); outside the exact domain the balance is an enclosure (relative 2^-9 per donor term): a lost or doubled donor contribution is visible, rounding-size deviations on non-dyadic weights are not.",
        ref="5-C03"),
    "C04": dict(
        technique="TLA+ steepest-descent contract (FlowContract!C04) with exact integer slope comparison, TLC on recorded traces; Router L2 model refines it on every field of a small anisotropic raster",
        text="Every recorded single-router state: terminals are self receivers, a node is its own receiver exactly when no unmasked neighbour entry of the Grid specification is strictly lower, otherwise nrec = 1, weight bit-equal 1, stored distance equal to the grid distance of that entry, and drop_r^2 * dsq_j >= drop_j^2 * dsq_r for every lower neighbour j (exact integers: fields m*2^k, integer anisotropic spacings, wrap-around neighbours, integer-coordinate meshes). Grids of 260 000 .. 400 000 nodes (BigGridTrace): the same predicate at sampled nodes (2^16 / 2^17 / 2^18 apart, row starts, ends) after a sequential and a multi-threaded update, elevation given by an integer formula of (row, column) that TLC evaluates itself.",
        note="Maximality asserted only for fields given as integers times 2^k with k >= -900 (exact and floating orders provably agree there); existence asserted everywhere including subnormal scale and epsilon-filled terrain.",
        ref="5-C04"),
    "C05": dict(
        technique="TLA+ partition contract (FlowContract!C05*) on recorded traces: receiver bag equality against Grid!NeighSeq, weights in Q(20) with interval slack",
        text="Every recorded multi-router state (exponent changed between successive updates on the same object; raw, pflood-filled and mst-tilted terrain): receiver entries with distances equal, as a bag, the strictly lower unmasked neighbour entries of the Grid specification; weights finite, non-negative, summing to one within nrec units of 2^-20; proportionality to slope^p checked by integer cross-multiplication for p in {0, 1, 2} on exact inputs.",
        note="Proportionality is an enclosure check (Q(16) with slack), asserted only on integer inputs at ordinary scale and for p in {0,1,2}; finiteness/sum/receiver set asserted everywhere (p = 1.5, 30, 64, 150, 2500; subnormal and 2^1000 scale; grid spacings scaled by 2^-10 .. 2^12; plateau-and-cliff relief whose gentle receivers get weight exactly zero).",
        ref="5-C05"),
    "C06": dict(
        technique="TLA+ discrete invariants (FlowContract!C06Donors/C06Dfs/C06Bfs) evaluated by TLC on every recorded graph state; Orders L2 model (the three traversal algorithms, step by step) checked against them on every forest / DAG with 4-5 nodes",
        text="Every recorded state of every operator sequence (single/multi, pflood, mst basic/carve, repeated updates, masks, looped borders, meshes): donor table is the inverse of the receiver table as bags over distinct nodes, counts within table widths and indices in range, dfs order is a permutation with every receiver before its donors, bfs order is a permutation cut into non-empty strictly increasing levels with every receiver in a strictly earlier level.",
        note="Pure discrete check, exact. Bounded by the sampled worlds (<= 8x8); includes multiple-direction graphs under slope exponents 64 and 150 on plateau-and-cliff relief (receivers of weight zero stay listed on both sides).",
        ref="5-C06"),
    "C07": dict(
        technique="TLA+ Grid specification (NeighSeq from geometry: one step under the connectivity, wrap-around only on looped axes) vs every accessor, validated by TLC on recorded query histories (GridTrace); spec-level symmetry and degree table checked by TLC",
        text="Complete over raster shapes 2..4 x 2..4 (2..5 thorough) x rook/queen/bishop x 4 looping combinations x spacings {1x1, 2x3, 5x1} x power-of-two scales, and profiles 2..6 looped or not: every node is queried through count / indices / indices-into-buffer / distances / neighbor structs / (row, col) overloads on a cached and a cache-less instance, in shuffled order with repeated single-accessor queries; TLC compares every answer, as a bag of (index, squared distance, status) entries, with the specification's geometric answer, checks that the accessors agree position by position, that the relation is symmetric (as bags: size-2 looped axes list a node twice) and that the degree follows the node's position. Every raster width 6..256 is queried through every accessor around its row starts; 30 % of the grids are built by the from_length factories; scales 2^-20 .. 2^14; grids of 260 000 .. 400 000 nodes are queried at sampled nodes (BigGridTrace: the answer is computed from the descriptor for the queried node only).",
        note="Distances are compared through round(d^2 / 4^sc) (exact for integer spacings times a power of two). The specification has no hidden state, so cache on = cache off and order independence follow from every single answer being the geometric one.",
        ref="5-C07"),
    "C09": dict(
        technique="TLA+ FlowGraph specification without hidden state: memo variable makes UpdateRoutes/Accumulate/Basins functional in their inputs; TLC validates recorded call histories; PFloodTwice model checks tie-break independence",
        text="Recorded histories (<= ~40 calls: update_routes, set_mask, set_base_levels in permuted insertion orders, exponent changes, accumulate, basins, repeated calls, revisits of earlier inputs, then a fresh object with the same inputs) are validated by TLC against a specification in which the observation (returned elevation, receivers, counts, distance/weight bit patterns as ranks, donors, dfs/bfs/levels, accumulation, basins) is a function of (operators+parameters, elevation, mask, base-level set): any two observations with equal inputs inside one history must be identical, and the argument array must be bit-identical after the call.",
        note="Bit-for-bit equality is decided on ulp-ranks (injective on bit patterns up to the sign of zero). Histories are sampled; the PFloodTwice model covers all tie-break choices of the flood on a 2x3 raster.",
        ref="5-C09"),
    "C10": dict(
        technique="TLA+ ParDispatch L2 model checked over all interleavings + FlowGraph memo (thread counts are not part of the specification's inputs) validated by TLC on recorded parallel/sequential histories + kernel call logs + ThreadSanitizer observer",
        text="MC: ParDispatch (per-node fill/read/write of the neighbour scratch over Blocks-partitioned ranges, level loop with barrier) keeps result = sequential result in every interleaving; negative controls (shared scratch, no barrier) are rejected. Binding: the same inputs go through a sequential graph and graphs using 2..16 threads (cached and cache-less rasters, profiles, meshes, up to 15x15; repeated updates pausing/resuming/resizing the pool); TLC rejects any difference in receivers, distance/weight bit patterns, traversal orders, accumulation, basins. Kernels log every call with a global sequence counter: exactly once per node, every receiver's call ended before the node's began, output equal to the value TLC computes from the recorded graph and to the sequential run, unsupported parallel order refused. A further stage runs the same kind of cases under the harness' controlled scheduler (the pool that starts workers inside a flow case is adopted; every pool point, every grid.neighbors() call of a worker - between the fill and the read of the neighbour storage - and every kernel call is a schedule point; PCT priorities or uniform random choices from the case's seed). The tsan flavour of the same driver observes the happens-before relation on cache-less rasters and meshes.",
        note="Three kinds of schedules: free-running (OS), controlled (40 quick / 1200 thorough executions; with the thread-local neighbour storage made shared again on a scratch copy the controlled stage alone rejects - bin/vselftest), ThreadSanitizer as the trusted observer for data races. Grids <= 15x15, thread counts 2..16.",
        ref="5-C10"),
    "C11": dict(
        technique="TLA+ ThreadPool L2 model (one action per atomic access / mutex / condvar operation / spin iteration, happens-before version ghosts) model-checked exhaustively incl. liveness; Blocks specification enumerated and replayed; real pool run under a controlled scheduler through guarded hooks and every recorded schedule validated by TLC against the model (PoolTrace); ThreadSanitizer observer",
        text="MC: ExactlyOnce, NoDataRace, MutexOK, TypeOK and Termination (weak fairness per thread) hold on all interleavings of caller programs in the library's call grammar (2 workers quick; 3-4 workers, resizes, several runs per cycle thorough); the models with relaxed flag accesses / unlocked notify are rejected (negative controls: data race, lost wake-up). Blocks: PartitionOK on every (first,last,n,min) tuple up to (16,6,6) quick / (40,12,12) thorough, each replayed through the real blocks class. Binding: 150+ (3000 thorough) random programs x PCT schedules executed by the real pool with one thread running between two hook points; TLC accepts the trace only if every granted step is the model action at that program point (lock acquisitions, flag stores/loads with the scanned index, waits, notifies, joins), callbacks run exactly the Blocks-specification ranges once, run_blocks returns only when the model is back at idle, and no schedule hangs (steered lost-wake-up schedules included).",
        note="The C++ memory model is represented by release/acquire version ghosts (no stale reads of relaxed atomics, no out-of-thin-air); under the controlled scheduler executions are sequentially consistent, so the data-race clause on the real code is observed by ThreadSanitizer on free-running executions of the same programs (trusted observer). Spurious condition-variable wake-ups are outside the model and make a run inconclusive. Pool sizes <= 4.",
        ref="5-C11"),
    "C12": dict(
        technique="TLA+ erosion contract (FlowContract!Spl*) on ulp-ranks, validated by TLC on recorded spl_eroder steps over every kind of routed graph, with eroder objects reused while the graph changes; SPLSweep L2 model (bottom-up sweep with the solver abstracted to any outcome) refines the contract on every small DAG",
        text="Every recorded erode() call (single/multi graphs, resolved or not, masks, moved base levels, K scalar/array incl. 0, m in {0,0.4,0.5,1}, n in {0.5,0.8,1,1.5,2,3}, dt over 9 decades, elevation = returned or input field; one eroder object serving several steps while nodes become terminal / masked / lakes): constructor refuses exactly n != 1 on a multiple-direction graph, and so does every request of a history of set_slope_exp calls on one eroder (repeats of a refused value included); erosion finite; bit-zero at terminals, masked nodes and lakes (h <= lowest post-erosion receiver elevation, the comparison the property states, on ranks); new elevation not above the old one beyond 2 + 2 nrec ulps (one product and two additions per receiver in the linear update); an eroded node is not lowered below its lowest receiver (up to two ulps of its own magnitude, the rounding of the returned erosion).",
        note="Products K dt A^m are kept finite (< 1e150: beyond that the Newton loop of the library does not terminate, recorded in DESIGN.md as outside the documented domain).",
        ref="5-C12"),
    "C13": dict(
        technique="exact cases: the post-erosion surface is chosen first (integers), TLC verifies in integer arithmetic that it solves the implicit equation for the derived input, then that the erosion returned by the real eroder encloses it (Q(20), slack from the Newton tolerance accumulated along the receiver path)",
        text="Chains (profiles, spacing 1 or 4) and trees (2x2..3x4 rook rasters): h'_i integers without ties, receivers from routing on h', input h_i = h'_i + f_i (h'_i - h'_r)^n with f_i = K_i dt A_i^m / d^n an integer, n in {1/2, 1, 2, 3}, m in {0,1,2}, per-node K and drainage area, tolerances 1e-1, 1e-2, 1e-3 and 1e-6. For every node not at the limiter's value TLC checks |e_i - (h_i - h'_i)| <= (depth+1)(tol + 4 units of 2^-20) and, for n = 1 and n = 2, the residual of the implicit equation itself given the receiver's returned elevation, eps_i + F((d+u)^n - d^n), against tol plus the quantisation of eps.",
        note="Bounded by design (DESIGN.md section 7): structural errors (exponent classification, exit tests, distance/area/weight placement, old vs new receiver elevation) are detected; accuracy for arbitrary real exponents is not claimed. Nodes at the limiter's value are excluded, as in the property.",
        ref="5-C13"),
    "C14": dict(
        technique="TLA+ ADI specification: the two tridiagonal systems in residual form with integer coefficients; both half steps of the real eroder (intermediate field through a guarded hook) validated by TLC in Q(S) interval arithmetic; identities (borders, scalar vs array, linearity, status independence)",
        text="Shapes 3..6 x 3..6 (8 thorough), spacings {1,2,3}^2, dt = p/q (p up to 1000: stiff), scalar or per-node integer diffusivity, optionally expressed in other units (K x 2^-ksc, dt x 2^ksc, exact: SI-like magnitudes 1e-9 .. 1e-14 with huge steps, and the opposite): for every interior node TLC checks the first (implicit along columns) and second (implicit along rows) half-step equations multiplied by D = 8 q dy^2 dx^2 - exact integer coefficients, residual within the quantisation of the logged Q(S) values; the systems are diagonally dominant M-matrices so the residual bounds the solution error. Borders: bit-zero erosion and untouched half step. Scalar K vs uniform array within 2 units of 2^-20; E(ax+by) = aE(x)+bE(y) within |a|+|b|+2 units of 2^-16; bit-identical under other border statuses.",
        note="Quantisation S chosen per case so that products stay below 2^30 (coarser for stiff steps). Non-integer diffusivities are covered only through the identities.",
        ref="5-C14"),
    "C15": dict(
        technique="L2 models checked by TLC - Boruvka (compute_tree_boruvka transcribed: work lists, collapse, bucket clean-up, in-place compaction of the large-degree list; all weight assignments on graph families that keep two hubs large; three seeded variants and the degree assumption as negative controls), UnionFind (parent/rank forest refines a partition; every transition of the state graph replayed through the real class, UFTrace), BasinGraph (Kruskal, re-routing, tilting) - and the TLA+ basin-graph contract (FlowContract!Bg*): edges = lowest passes recomputed by TLC from the recorded labels and elevation ranks, tree = spanning forest satisfying the cycle property, orientation by in-degree; validated on recorded basin_graph objects (both algorithms, repeated updates)",
        text="Stand-alone basin_graph objects (Kruskal and Boruvka) on single-router graphs over random worlds with heavy ties, masks, interior base levels, looped borders, meshes, updated three times each, plus constructed 3 x N rasters whose channel basin has degree > 16, bowl terrains with tied parallel passes, and hub worlds that keep SEVERAL basins in Boruvka's large-degree list (degree bound lowered to 6 / 8 through the guarded knob, 140..460 nodes; library bound 16 on 1100..2200 nodes in the thorough tier): exactly one edge per adjacent basin pair with an inner basin, joining neighbouring nodes of the two basins at the minimum over all such pairs of the higher elevation; virtual edges from one root to every other outer basin; tree = spanning forest (same components, nb - #components edges); every non-tree edge's ends are joined by tree edges not heavier than it (cycle property, comparisons on ranks only); Kruskal and Boruvka weight multisets equal; after orientation every basin has at most one incoming tree edge and each component one root, an outer basin where there is one.",
        note="Worlds <= 7x7 plus constructed cases. Comparisons only (exact on ranks). The lowered degree bound changes a constant of the algorithm, not its code path; 6 (rook) and 8 (queen) keep the algorithm's assumption (some live node has at most that many neighbours) true on these worlds.",
        ref="5-C15"),
    "C16": dict(
        technique="TLA+ FlowGraph!SnapGraph/SnapElev/SnapMutate actions: snapshot state looked up in the memo of the prefix graph; TLC validates recorded histories",
        text="For sequences with graph/elevation snapshots at several positions (single and multiple direction states), the harness also runs the prefix graphs on the same inputs; TLC checks that each snapshot's receivers, counts, distance and weight bit patterns and donors equal the prefix graph's, that its own dfs/bfs/levels/donor tables satisfy C06, that accumulate and basins on the snapshot equal those on the prefix graph, that elevation snapshots equal the elevation at that point, that a later update with another input replaces (and only replaces) the snapshot, and that update_routes/set_mask/set_base_levels on a snapshot are refused.",
        note="Kernels are also applied on snapshot graphs and compared with the value TLC computes from the snapshot's recorded tables. Sampled sequences (7 shapes of snapshot placement) and worlds.",
        ref="5-C16"),
    "C17": dict(
        technique="TLA+ Grid!StatusArray / GridAccepted / FilteredSeq vs the real constructors and iterators, complete enumeration validated by TLC (GridTrace); default base levels through FlowGraph!NewGraph",
        text="Complete over the 4^4 raster border combinations x shapes {2x2, 3x3} (5 shapes thorough) and 4^2 profile combinations x n 2..5, each with no override, single-node overrides with each of the 4 statuses (sampled in quick, all in thorough), out-of-range and looped entries and pairs; meshes with default / map / array statuses: construction fails exactly when the specification says (asymmetric looped borders, looped or out-of-range override, override over a looped node), the status array equals StatusArray (corner precedence, overrides), on cached and cache-less instances; forward and reverse iteration for no filter and each of the 4 statuses equal the specification's sequences; a new flow graph's base levels are exactly the fixed-value nodes.",
        note="Only error vs no error is compared for refusals (not the exception type).",
        ref="5-C17"),
    "C18": dict(
        technique="TLA+ mesh specification in exact rationals (edges from triangles, boundary = edges of exactly one triangle, circumcentric vertex shares) vs the real trimesh, validated by TLC (GridTrace)",
        text="Lattice meshes of 1x1..3x3 cells, either diagonal per cell, random vertex order and orientation per triangle, up to 2 triangles removed, interior points jittered (obtuse triangles), an isolated node, power-of-two scales from 2^-30 to 2^20: neighbours are exactly the nodes sharing a triangle edge (bag equality on every accessor: symmetric, no duplicates, squared distance exact), default statuses fixed-value exactly on boundary nodes, node areas equal the sum of circumcentric shares within one unit of 2^-12 per incident triangle, areas sum to the triangles' total area.",
        note="Integer coordinates (exact squared lengths and areas); degenerate triangles are outside the domain.",
        ref="5-C18"),
    "C19": dict(
        technique="TLA+ label contract (FlowContract!C19) evaluated by TLC on recorded basins() calls",
        text="Every recorded basins() call on single-direction graphs (all resolver variants, masks, repeated updates): masked nodes carry the reserved label, every unmasked node has its receiver's label, outlets are labelled 0..k-1 in bottom-up order, number of labels = number of unmasked outlets, outlets()/pits() are exactly the outlets / the outlets that are not base levels.",
        note="Pure discrete check, exact.",
        ref="5-C19"),
    "C20": dict(
        technique="TLA+ OperatorSeq: TLC checks incremental Add == declarative Valid on every bounded sequence and writes the enumeration out; every sequence replayed through the real constructor (B1) and validated (B2)",
        text="All sequences of length <= 3 (584; <= 4: 4680 thorough, <= 5 model-checked only) over {single, single with 2 threads, multi, pflood, mst, graph snapshot, elevation snapshot, both} on a profile, a raster and a mesh: the constructor throws exactly when the specification's Valid is false; for accepted sequences single_flow(), operator names, snapshot key lists, receiver table width (single column iff every graph-updating operator is single-direction) and, after one update, 'returns the caller's own array iff no operator edits elevation'.",
        note="Complete for the stated bound.",
        ref="5-C20"),
}

NOT_APPLICABLE = [
    dict(property_id="C08", reason="Memory safety / undefined behaviour is a property of the C++ abstract machine, not of any state a TLA+ specification can observe; it needs sanitizers as the deciding technique, which is outside the model-based family studied here (DESIGN.md section 7). Index-range and table-width preconditions are kept as proxies inside C06."),
]


def manifest():
    checks = []
    for pid in sorted(CHECKS):
        c = CHECKS[pid]
        checks.append(dict(
            property_id=pid,
            quick_cmd="bin/vcheck %s --tier quick" % pid,
            thorough_cmd="bin/vcheck %s --tier thorough" % pid,
            evidence_file="evidence/%s.json" % pid,
            replay_cmd_template="bin/vcheck %s --replay {path}" % pid,
            engine="tlc-trace-validation",
            level_claimed=dict(category="model_checking", text=c["text"], design_ref="DESIGN.md " + c["ref"]),
            level_note=c["note"],
            technique=c["technique"]))
    claimed = set(CHECKS)
    na = list(NOT_APPLICABLE)
    props = [json.loads(l)["id"] for l in open(os.path.join(os.path.dirname(__file__), "..", "properties.jsonl"))]
    for p in props:
        if p not in claimed and p not in [n["property_id"] for n in na]:
            na.append(dict(property_id=p, reason="check not built yet in this round (planned, see DESIGN.md section 5); not claimed until its TLA+ contract and binding exist"))
    return dict(
        version=1,
        setup_cmd="bin/vsetup",
        hooks=dict(guard="FASTSCAPELIB_VERIF_HOOKS",
                   enable="the harness is compiled with -DFASTSCAPELIB_VERIF_HOOKS against /repo/include (header-only library); hooks expand to nothing without it",
                   baseline_off_cmd="cmake --build /repo/_build && ctest --test-dir /repo/_build -j8 --timeout 900",
                   source_commits=HOOK_COMMITS,
                   add_only=True),
        engines=[dict(name="tlc-trace-validation", path="bin/vcheck", serves_properties=sorted(CHECKS),
                      kind_free_text="TLA+ specification in tla/ checked by TLC 1.8: exhaustive model checking of L2 algorithm models against L1 contracts, plus validation of traces recorded from the real library (harness/) against the same specification")],
        checks=checks,
        notes="One explicit TLA+ specification (tla/): L1 contracts + L2 algorithm models; bound to the code by replaying generated cases into the real library and validating the recorded traces with TLC. See DESIGN.md.",
        not_applicable=na)
