"""Source of truth for MANIFEST.json."""
import json
import os

HOOK_COMMITS = []

CHECKS = {
    "C01": dict(
        technique="TLA+ contract (FlowContract!C01) checked by TLC on traces recorded from the real flow_graph; L2 models PFlood/BasinGraph model-checked against the same contract",
        text="Every recorded update_routes of every resolver variant is validated by TLC against the L1 contract: terminals are self receivers, every receiver edge of a node connected to a base level strictly descends in returned elevation (exact on ulp-ranks), and following receivers reaches a base level. Seeded random worlds (profile, rook/queen/bishop rasters with looped borders, meshes; ties, plateaus, zero/negative/subnormal/huge levels, masks, interior base levels) plus small exhaustive scopes.",
        note="Trusted: the harness logs projections only (ulp-ranks are a monotone re-encoding of the bit patterns); TLC evaluates the contract; neighbourhoods come from the Grid specification, itself bound to the real grids by C07. Bounded by world size (<= 8x8) and the sampled worlds.",
        ref="5-C01"),
    "C02": dict(
        technique="TLA+ contract (FlowContract!C02, spill level as a least fixpoint evaluated by TLC) on recorded traces; PFlood L2 model refines it exhaustively on small rasters",
        text="For every recorded update of every resolver variant TLC recomputes the spill level (min over neighbour paths of the max input elevation) as a least fixpoint on ulp-ranks and checks in <= out, bit-identity at base levels / masked nodes, and Spill <= out <= Spill + N ulps exactly (gap-compressed ranks keep small ulp distances exact).",
        note="Trusted: rank encoding (order and ulp gaps < 1000 exact), Grid specification for neighbourhoods. Bounded by world size and samples.",
        ref="5-C02"),
    "C03": dict(
        technique="TLA+ balance equation (FlowContract!AccBalance/AccConserves/AccIndicator) evaluated by TLC in exact integer arithmetic on recorded accumulate calls",
        text="Every recorded accumulate call (4 overloads) on every kind of routed graph is validated by TLC: overloads bit-identical (ranks); where all quantities are exact integers (single direction: unit weights; multiple direction: weights that are multiples of 2^-8, results scaled by 2^K) the local balance acc = area*src + sum(donor acc * weight), conservation over terminal nodes and the local lower bound hold exactly; indicator sources reconstruct the whole linear operator on meshes (acc is bit-exactly 0 or area[u], non-zero exactly downstream of u).",
        note="Trusted: integer/dyadic encodings (exact by construction of the generated inputs); cases outside the exact domain are only checked for overload agreement and memo consistency. Rounding-size deviations on non-dyadic weights are invisible.",
        ref="5-C03"),
    "C04": dict(
        technique="TLA+ steepest-descent contract (FlowContract!C04) with exact integer slope comparison, TLC on recorded traces",
        text="Every recorded single-router state: terminals are self receivers, a node is its own receiver exactly when no unmasked neighbour entry of the Grid specification is strictly lower, otherwise nrec = 1, weight bit-equal 1, stored distance equal to the grid distance of that entry, and drop_r^2 * dsq_j >= drop_j^2 * dsq_r for every lower neighbour j (exact integers: fields m*2^k, integer anisotropic spacings, wrap-around neighbours, integer-coordinate meshes).",
        note="Maximality asserted only for fields given as integers times 2^k with k >= -900 (exact and floating orders provably agree there); existence asserted everywhere including subnormal scale and epsilon-filled terrain.",
        ref="5-C04"),
    "C05": dict(
        technique="TLA+ partition contract (FlowContract!C05*) on recorded traces: receiver bag equality against Grid!NeighSeq, weights in Q(20) with interval slack",
        text="Every recorded multi-router state (exponent changed between successive updates on the same object; raw, pflood-filled and mst-tilted terrain): receiver entries with distances equal, as a bag, the strictly lower unmasked neighbour entries of the Grid specification; weights finite, non-negative, summing to one within nrec units of 2^-20; proportionality to slope^p checked by integer cross-multiplication for p in {0, 1, 2} on exact inputs.",
        note="Proportionality is an enclosure check (Q(16) with slack), asserted only on integer inputs at ordinary scale and for p in {0,1,2}; finiteness/sum/receiver set asserted everywhere (p = 1.5, 30; subnormal and 2^1000 scale).",
        ref="5-C05"),
    "C06": dict(
        technique="TLA+ discrete invariants (FlowContract!C06Donors/C06Dfs/C06Bfs) evaluated by TLC on every recorded graph state",
        text="Every recorded state of every operator sequence (single/multi, pflood, mst basic/carve, repeated updates, masks, looped borders, meshes): donor table is the inverse of the receiver table as bags over distinct nodes, counts within table widths and indices in range, dfs order is a permutation with every receiver before its donors, bfs order is a permutation cut into non-empty strictly increasing levels with every receiver in a strictly earlier level.",
        note="Pure discrete check, exact. Bounded by the sampled worlds (<= 8x8).",
        ref="5-C06"),
    "C09": dict(
        technique="TLA+ FlowGraph specification without hidden state: memo variable makes UpdateRoutes/Accumulate/Basins functional in their inputs; TLC validates recorded call histories; PFloodTwice model checks tie-break independence",
        text="Recorded histories (<= ~40 calls: update_routes, set_mask, set_base_levels in permuted insertion orders, exponent changes, accumulate, basins, repeated calls, revisits of earlier inputs, then a fresh object with the same inputs) are validated by TLC against a specification in which the observation (returned elevation, receivers, counts, distance/weight bit patterns as ranks, donors, dfs/bfs/levels, accumulation, basins) is a function of (operators+parameters, elevation, mask, base-level set): any two observations with equal inputs inside one history must be identical, and the argument array must be bit-identical after the call.",
        note="Bit-for-bit equality is decided on ulp-ranks (injective on bit patterns up to the sign of zero). Histories are sampled; the PFloodTwice model covers all tie-break choices of the flood on a 2x3 raster.",
        ref="5-C09"),
    "C10": dict(
        technique="TLA+ ParDispatch L2 model checked over all interleavings + FlowGraph memo (thread counts are not part of the specification's inputs) validated by TLC on recorded parallel/sequential histories + kernel call logs + ThreadSanitizer observer",
        text="MC: ParDispatch (per-node fill/read/write of the neighbour scratch over Blocks-partitioned ranges, level loop with barrier) keeps result = sequential result in every interleaving; negative controls (shared scratch, no barrier) are rejected. Binding: the same inputs go through a sequential graph and graphs using 2..16 threads (cached and cache-less rasters, profiles, meshes, up to 15x15; repeated updates pausing/resuming/resizing the pool); TLC rejects any difference in receivers, distance/weight bit patterns, traversal orders, accumulation, basins. Kernels log every call with a global sequence counter: exactly once per node, every receiver's call ended before the node's began, output equal to the value TLC computes from the recorded graph and to the sequential run, unsupported parallel order refused. The tsan flavour of the same driver observes the happens-before relation on cache-less rasters and meshes.",
        note="Schedules of the real threads are whatever the OS produces (free-running) in this check; steered schedules of the pool are in C11. ThreadSanitizer is the trusted observer for data races. Grids <= 15x15, thread counts 2..16.",
        ref="5-C10"),
    "C11": dict(
        technique="TLA+ ThreadPool L2 model (one action per atomic access / mutex / condvar operation / spin iteration, happens-before version ghosts) model-checked exhaustively incl. liveness; Blocks specification enumerated and replayed; real pool run under a controlled scheduler through guarded hooks and every recorded schedule validated by TLC against the model (PoolTrace); ThreadSanitizer observer",
        text="MC: ExactlyOnce, NoDataRace, MutexOK, TypeOK and Termination (weak fairness per thread) hold on all interleavings of caller programs in the library's call grammar (2 workers quick; 3-4 workers, resizes, several runs per cycle thorough); the models with relaxed flag accesses / unlocked notify are rejected (negative controls: data race, lost wake-up). Blocks: PartitionOK on every (first,last,n,min) tuple up to (16,6,6) quick / (40,12,12) thorough, each replayed through the real blocks class. Binding: 150+ (3000 thorough) random programs x PCT schedules executed by the real pool with one thread running between two hook points; TLC accepts the trace only if every granted step is the model action at that program point (lock acquisitions, flag stores/loads with the scanned index, waits, notifies, joins), callbacks run exactly the Blocks-specification ranges once, run_blocks returns only when the model is back at idle, and no schedule hangs (steered lost-wake-up schedules included).",
        note="The C++ memory model is represented by release/acquire version ghosts (no stale reads of relaxed atomics, no out-of-thin-air); under the controlled scheduler executions are sequentially consistent, so the data-race clause on the real code is observed by ThreadSanitizer on free-running executions of the same programs (trusted observer). Spurious condition-variable wake-ups are outside the model and make a run inconclusive. Pool sizes <= 4.",
        ref="5-C11"),
    "C16": dict(
        technique="TLA+ FlowGraph!SnapGraph/SnapElev/SnapMutate actions: snapshot state looked up in the memo of the prefix graph; TLC validates recorded histories",
        text="For sequences with graph/elevation snapshots at several positions (single and multiple direction states), the harness also runs the prefix graphs on the same inputs; TLC checks that each snapshot's receivers, counts, distance and weight bit patterns and donors equal the prefix graph's, that its own dfs/bfs/levels/donor tables satisfy C06, that accumulate and basins on the snapshot equal those on the prefix graph, that elevation snapshots equal the elevation at that point, that a later update with another input replaces (and only replaces) the snapshot, and that update_routes/set_mask/set_base_levels on a snapshot are refused.",
        note="Kernel application on snapshots is covered through the traversal-order validity (C06 conjuncts on the snapshot's own tables), not by running kernels. Sampled sequences (7 shapes of snapshot placement) and worlds.",
        ref="5-C16"),
    "C19": dict(
        technique="TLA+ label contract (FlowContract!C19) evaluated by TLC on recorded basins() calls",
        text="Every recorded basins() call on single-direction graphs (all resolver variants, masks, repeated updates): masked nodes carry the reserved label, every unmasked node has its receiver's label, outlets are labelled 0..k-1 in bottom-up order, number of labels = number of unmasked outlets, outlets()/pits() are exactly the outlets / the outlets that are not base levels.",
        note="Pure discrete check, exact.",
        ref="5-C19"),
}

NOT_APPLICABLE = [
    dict(property_id="C08", reason="Memory safety / undefined behaviour is a property of the C++ abstract machine, not of any state a TLA+ specification can observe; it needs sanitizers as the deciding technique, which is outside the model-based family studied here (DESIGN.md section 7). Index-range and table-width preconditions are kept as proxies inside C06."),
]


def manifest():
    checks = []
    for pid in sorted(CHECKS):
        c = CHECKS[pid]
        checks.append(dict(
            property_id=pid,
            quick_cmd="bin/vcheck %s --tier quick" % pid,
            thorough_cmd="bin/vcheck %s --tier thorough" % pid,
            evidence_file="evidence/%s.json" % pid,
            replay_cmd_template="bin/vcheck %s --replay {path}" % pid,
            engine="tlc-trace-validation",
            level_claimed=dict(category="model_checking", text=c["text"], design_ref="DESIGN.md " + c["ref"]),
            level_note=c["note"],
            technique=c["technique"]))
    claimed = set(CHECKS)
    na = list(NOT_APPLICABLE)
    props = [json.loads(l)["id"] for l in open(os.path.join(os.path.dirname(__file__), "..", "properties.jsonl"))]
    for p in props:
        if p not in claimed and p not in [n["property_id"] for n in na]:
            na.append(dict(property_id=p, reason="check not built yet in this round (planned, see DESIGN.md section 5); not claimed until its TLA+ contract and binding exist"))
    return dict(
        version=1,
        setup_cmd="bin/vsetup",
        hooks=dict(guard="FASTSCAPELIB_VERIF_HOOKS",
                   enable="the harness is compiled with -DFASTSCAPELIB_VERIF_HOOKS against /repo/include (header-only library); hooks expand to nothing without it",
                   baseline_off_cmd="cmake --build /repo/_build && ctest --test-dir /repo/_build -j8 --timeout 900",
                   source_commits=HOOK_COMMITS,
                   add_only=True),
        engines=[dict(name="tlc-trace-validation", path="bin/vcheck", serves_properties=sorted(CHECKS),
                      kind_free_text="TLA+ specification in tla/ checked by TLC 1.8: exhaustive model checking of L2 algorithm models against L1 contracts, plus validation of traces recorded from the real library (harness/) against the same specification")],
        checks=checks,
        notes="One explicit TLA+ specification (tla/): L1 contracts + L2 algorithm models; bound to the code by replaying generated cases into the real library and validating the recorded traces with TLC. See DESIGN.md.",
        not_applicable=na)
