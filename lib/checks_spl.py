"""Stream-power eroder cases: C12 (sign / lake / no-reversal rules on every kind of routed graph) and
C13 (exact cases: the answer is chosen first, the input derived from it)."""
import copy
import random

import gen
import checks_flow as cf
from gen import flow_case


def spl_contract_cases(seed, count, max_side, tag):
    rng = random.Random(seed)
    for i in range(count):
        g, z, mask, bl = cf._world(rng, max_side, family=rng.choice(["tied", "distinct", "bowl", "tied3", "neg", "flat"]))
        n = gen.grid_size(g)
        seqs = rng.sample(cf.ALL_FINAL_SEQS, 4)
        steps = []
        for k, ops in enumerate(seqs):
            steps += cf.steps_for_graph(k, ops, mask, bl, z)
            for _ in range(3):
                nn = rng.choice(["1", "1", "0.5", "0.8", "1.5", "2", "3"])
                sp = dict(op="spl", g=k, m=rng.choice(["0", "0.4", "0.5", "1"]), n=nn,
                          tol=rng.choice(["1e-3", "1e-6", "1e-9"]),
                          dt=rng.choice(["0", "1", "1e3", "1e-3", "1e6"]),
                          elev=rng.choice(["out", "out", "in"]))
                if rng.random() < 0.5:
                    sp["Ks"] = rng.choice(["0", "1e-5", "1", "7e-3", "1e4"])
                else:
                    sp["Ka"] = [rng.choice(["0", "1e-4", "1", "3", "1e3"]) for _ in range(n)]
                if rng.random() < 0.3:
                    sp["A"] = [str(rng.randint(1, 50)) for _ in range(n)]
                if rng.random() < 0.3:
                    sp["setters"] = 1
                if "Ka" in sp and rng.random() < 0.4:
                    sp["kform"] = rng.choice(["col", "expr", "flip_own"])
                if rng.random() < 0.5:
                    # a history of slope-exponent requests on one separate eroder, with repeats
                    vals = [rng.choice(["1", "1.5", "2", "0.5", "1.00000001", "0.99999999", "1.000000000001"]) for _ in range(rng.randint(2, 4))]
                    sp["probe"] = [v for v in vals for _ in range(rng.choice([1, 1, 2, 3]))]
                steps.append(sp)
            # one eroder object serves several steps while the graph changes under it (mask, base
            # levels, other fields): nodes become terminal / masked / lakes between two calls
            nn = rng.choice(["1", "1", "2", "0.5"])
            if any(o["k"] == "multi" for o in ops):
                nn = "1"
            base = dict(op="spl", g=k, eid=7, m=rng.choice(["0.4", "0.5", "1"]), n=nn, tol="1e-6",
                        dt=rng.choice(["1", "10", "1e3"]), Ks=rng.choice(["1", "1e-2", "5"]), elev="out")
            steps.append(dict(base))
            for _ in range(3):
                mask2, bl2 = gen.rand_mask_bl(rng, g, p_mask=0.25, p_bl=0.25)
                z2 = gen.rand_field(rng, g, rng.choice(["tied", "bowl", "distinct"]))
                steps += [dict(op="mask", g=k, m=mask2), dict(op="bl", g=k, bl=bl2),
                          dict(op="update", g=k, z=rng.choice([z, z2])), dict(base)]
            steps.append(dict(op="drop", g=k))
        yield flow_case("%s-%d-%d" % (tag, seed, i), g, steps)


def _route_targets(g, hp, bl):
    """Receivers of the single router on the (tie-free) target field hp: steepest descent with unit
    spacing; only used to derive the input, the real graph is logged and checked by TLC."""
    nb = gen.neighbors(g)
    n = len(hp)
    rec = list(range(n))
    for i in range(n):
        if i in bl:
            continue
        best, bs = i, 0.0
        if g["t"] == "raster":
            nc = g["nc"]
        for j in nb[i]:
            if hp[j] < hp[i]:
                if g["t"] == "raster":
                    ri, ci = divmod(i, nc)
                    rj, cj = divmod(j, nc)
                    d = ((ri - rj) ** 2 * g["dy"] ** 2 + (ci - cj) ** 2 * g["dx"] ** 2) ** 0.5
                else:
                    d = g["dx"]
                sl = (hp[i] - hp[j]) / d
                if sl > bs:
                    best, bs = j, sl
        rec[i] = best
    return rec


def spl_exact_cases(seed, count, tag):
    """C13: choose the post-erosion elevations h' (integers, tie-free), route on them, then derive the
    pre-erosion elevations h_i = h'_i + f_i (h'_i - h'_r)^n so that h' is the exact solution of the
    implicit equation; n in {1/2, 1, 2, 3}, f_i = K_i dt A_i^m / d^n an integer."""
    rng = random.Random(seed)
    made = 0
    attempts = 0
    while made < count and attempts < 50 * count:
        attempts += 1
        if rng.random() < 0.5:
            d = rng.choice([1, 1, 4])
            g = gen.profile(rng.randint(3, 8), [gen.FV, rng.choice([gen.CORE, gen.FV])], dx=d)
        else:
            d = 1
            g = gen.raster(rng.randint(2, 3), rng.randint(2, 4), "rook", [gen.FV, gen.CORE, gen.CORE, gen.CORE], dy=d, dx=d)
        n = gen.grid_size(g)
        st = gen.status_array(g)
        bl = [i for i in range(n) if st[i] == gen.FV]
        ncode = rng.choice([1, 2, 2, 4, 6])             # n = ncode / 2
        if ncode == 1:
            hp = [0] * n
            base = sorted(rng.sample(range(0, 7), min(n, 6)) + [rng.randint(0, 6) for _ in range(max(0, n - 6))])
            hp = [b * b for b in base]                   # differences of squares are not squares in general:
        else:
            hp = rng.sample(range(0, 40), n)
        rng.shuffle(hp)
        for b in bl:
            pass
        if len(set(hp)) < n:
            continue
        rec = _route_targets(g, hp, bl)
        # drops must be perfect squares for n = 1/2
        ok = True
        for i in range(n):
            if rec[i] != i and ncode == 1:
                dl = hp[i] - hp[rec[i]]
                if int(round(dl ** 0.5)) ** 2 != dl:
                    ok = False
        if not ok:
            continue
        # every non-base-level node must have a receiver (no pits) for a clean case
        if any(rec[i] == i and i not in bl for i in range(n)):
            continue
        m = rng.choice([0, 1, 2])
        order = sorted(range(n), key=lambda i: hp[i])
        h = [0] * n
        K = [1] * n
        A = [1] * n
        f = [[0] for _ in range(n)]
        dn = {1: int(round(d ** 0.5)), 2: d, 4: d * d, 6: d * d * d}[ncode]
        if ncode == 1 and dn * dn != d:
            continue
        good = True
        for i in order:
            r = rec[i]
            if r == i:
                h[i] = hp[i]
                continue
            dl = hp[i] - hp[r]
            pw = {1: int(round(dl ** 0.5)), 2: dl, 4: dl * dl, 6: dl ** 3}[ncode]
            a = rng.randint(1, 3)
            need = max(0, h[r] - hp[i])                  # keeps the receiver's old elevation <= the node's
            fmin = -(-need // pw) if pw > 0 else 0
            k = max(rng.randint(0, 3), -(-fmin // (a ** m)))
            fi = k * a ** m
            A[i], K[i] = a, k * dn
            f[i] = [fi]
            h[i] = hp[i] + fi * pw
            if h[i] - hp[i] > 1900 or h[i] > 100000:
                good = False
        if not good:
            continue
        made += 1
        steps = [dict(op="new", g=0, ops=[gen.op_single()]), dict(op="bl", g=0, bl=bl),
                 dict(op="update", g=0, z=dict(k="int", m=hp, e=0))]
        for tol in ("1e-3", "1e-6", "1e-1", "1e-2"):
            sp = dict(op="spl", g=0, m=str(m), n={1: "0.5", 2: "1", 4: "2", 6: "3"}[ncode], tol=tol, dt="1",
                      Ka=[str(x) for x in K], A=[str(x) for x in A], h=[str(x) for x in h],
                      expect=hp, f=f, ncode=ncode, setters=1 if (tol == "1e-6" and rng.random() < 0.5) else 0)
            if rng.random() < 0.4:
                sp["kform"] = rng.choice(["col", "expr", "flip_own"])
            if ncode == 2 and tol == "1e-6":
                sp["near"] = 1      # the same case with the exponent 1 + 2^-27 on a second eroder
            steps.append(sp)
        # scalar erodibility when it happens to be uniform
        steps.append(dict(op="drop", g=0))
        yield flow_case("%s-%d-%d" % (tag, seed, made), g, steps)
