"""Grid cases: C07 (neighbourhoods on every accessor, query histories, cache on/off), C17 (status
rules, filtered iteration), C18 (triangular meshes)."""
import itertools
import random

import gen
from gen import CORE, FV, FG, LOOPED

ACCESSORS = ["count", "indices", "indices_buf", "distances", "neighbors", "neighbors_buf"]
RC_ACCESSORS = ["rc_indices", "rc_neighbors"]


def _queries(rng, n, raster, extra):
    qs = []
    for inst in (0, 1):
        order = list(range(n))
        rng.shuffle(order)
        for i in order:
            qs.append(["all", inst, i])
    accs = ACCESSORS + (RC_ACCESSORS if raster else [])
    for _ in range(extra):
        qs.append([rng.choice(accs), rng.randrange(2), rng.randrange(n)])
    rng.shuffle(qs)
    return qs


def neighbourhood_cases(seed, tier, tag):
    """Complete: all raster shapes 2..5 x 2..5 (quick: 2..4), 3 connectivities, 4 looping
    combinations, 3 spacings; profiles 2..6, looped or not; every node through every accessor on
    a cached and a cache-less instance, in shuffled order with repeated single-accessor queries."""
    rng = random.Random(seed)
    top = 4 if tier == "quick" else 5
    k = 0
    for nr in range(2, top + 1):
        for nc in range(2, top + 1):
            for conn in ("rook", "queen", "bishop"):
                for hl, vl in itertools.product((0, 1), repeat=2):
                    for dy, dx in ((1, 1), (2, 3), (5, 1)):
                        if tier == "quick" and (dy, dx) != (1, 1) and rng.random() < 0.6:
                            continue
                        lr = [LOOPED, LOOPED] if hl else [rng.choice([CORE, FV, FG]), rng.choice([CORE, FV, FG])]
                        tb = [LOOPED, LOOPED] if vl else [rng.choice([CORE, FV, FG]), rng.choice([CORE, FV, FG])]
                        g = gen.raster(nr, nc, conn, lr + tb, dy=dy, dx=dx, sc=rng.choice([0, 0, -3, 7, -20, 14]))
                        if rng.random() < 0.3:
                            g["via"] = "from_length"          # built by the factory that takes the total length
                        k += 1
                        c = dict(kind="grid", id="%s-r%d" % (tag, k), grid=g, queries=_queries(rng, nr * nc, True, 2 * nr * nc))
                        if rng.random() < 0.5:
                            # a second cache-less grid of the same type, other shape / looping, queried in
                            # between at the same node indices
                            nr2, nc2 = rng.randint(2, top), rng.randint(2, top)
                            lr2 = [LOOPED, LOOPED] if rng.random() < 0.5 else [CORE, FV]
                            tb2 = [LOOPED, LOOPED] if rng.random() < 0.5 else [FG, CORE]
                            c["grid2"] = gen.raster(nr2, nc2, conn, lr2 + tb2, dy=rng.choice([1, 2]), dx=rng.choice([1, 3]))
                            n2 = nr2 * nc2
                            mixed = []
                            for q in c["queries"]:
                                mixed.append(q)
                                if q[2] < n2 and rng.random() < 0.7:
                                    mixed.append([rng.choice(["all", "indices", "neighbors", "rc_indices"]), 2, q[2]])
                                    if rng.random() < 0.5:
                                        mixed.append([q[0], 1, q[2]])
                            c["queries"] = mixed
                        yield c
    # wide rasters: every number of columns from 6 to 256 (index <-> (row, col) arithmetic), queried through
    # every accessor around the row starts and at both ends
    for nc in range(6, 257):
        nr = 2 + (nc % 2)
        conn = ("rook", "queen", "bishop")[nc % 3]
        hl = rng.random() < 0.5
        vl = rng.random() < 0.3
        lr = [LOOPED, LOOPED] if hl else [rng.choice([CORE, FV, FG]), rng.choice([CORE, FV, FG])]
        tb = [LOOPED, LOOPED] if vl else [rng.choice([CORE, FV, FG]), rng.choice([CORE, FV, FG])]
        g = gen.raster(nr, nc, conn, lr + tb, cache=1)
        nodes = sorted(set([0, 1, nc - 2, nc - 1, nr * nc - 1, nr * nc - 2] +
                           [kk * nc + o for kk in range(1, nr) for o in (-1, 0, 1)] + [rng.randrange(nr * nc) for _ in range(3)]))
        k += 1
        yield dict(kind="grid", id="%s-w%d" % (tag, nc), grid=g,
                   queries=[["all", rng.choice([0, 1]), i] for i in nodes if 0 <= i < nr * nc])
    for n in range(2, 7):
        for loop in (0, 1):
            for dx in (1, 3):
                bs = [LOOPED, LOOPED] if loop else [rng.choice([CORE, FV, FG]), rng.choice([CORE, FV, FG])]
                g = gen.profile(n, bs, dx=dx, sc=rng.choice([0, 5]))
                if rng.random() < 0.3:
                    g["via"] = "from_length"
                k += 1
                c = dict(kind="grid", id="%s-p%d" % (tag, k), grid=g, queries=_queries(rng, n, False, 3 * n))
                n2 = rng.randint(2, 7)
                c["grid2"] = gen.profile(n2, [CORE, CORE] if loop else [LOOPED, LOOPED], dx=2)
                mixed = []
                for q in c["queries"]:
                    mixed.append(q)
                    if q[2] < n2 and rng.random() < 0.7:
                        mixed.append([rng.choice(["all", "indices", "neighbors"]), 2, q[2]])
                        mixed.append([q[0], 1, q[2]])
                c["queries"] = mixed
                yield c


def status_cases(seed, tier, tag):
    """Complete over the 4^4 (raster) / 4^2 (profile) border combinations; override maps with
    in-range, out-of-range and looped entries; iteration with every filter."""
    rng = random.Random(seed)
    shapes = [(2, 2), (3, 3)] if tier == "quick" else [(2, 2), (2, 3), (3, 2), (3, 3), (3, 4)]
    k = 0
    for bs in itertools.product((CORE, FV, FG, LOOPED), repeat=4):
        for nr, nc in shapes:
            ovs = [[]]
            nodes = [(r, c) for r in range(nr) for c in range(nc)]
            if tier == "quick":
                for _ in range(3):
                    r, c = rng.choice(nodes)
                    ovs.append([[r, c, rng.choice([CORE, FV, FG, LOOPED])]])
                ovs.append([[rng.choice([nr, nr + 3, 0]), rng.choice([nc, nc + 1]), rng.choice([CORE, FV, FG])]])
                ovs.append([[rng.randrange(nr), rng.randrange(nc), rng.choice([CORE, FV, FG]), 1]])      # row 2^63 + r
                a, b = rng.sample(nodes, 2)
                ovs.append([[a[0], a[1], rng.choice([CORE, FV, FG])], [b[0], b[1], rng.choice([CORE, FV, FG, LOOPED])]])
            else:
                for (r, c) in nodes:
                    for st in (CORE, FV, FG, LOOPED):
                        ovs.append([[r, c, st]])
                ovs.append([[nr, 0, FV]])
                ovs.append([[0, nc, FG]])
                ovs.append([[nr + 2, nc + 2, LOOPED]])
                for r in range(nr):
                    ovs.append([[r, rng.randrange(nc), rng.choice([CORE, FV, FG]), 1]])                  # row 2^63 + r
                for _ in range(4):
                    a, b = rng.sample(nodes, 2)
                    ovs.append([[a[0], a[1], rng.choice([CORE, FV, FG])], [b[0], b[1], rng.choice([CORE, FV, FG, LOOPED])]])
            for ov in ovs:
                g = gen.raster(nr, nc, rng.choice(["rook", "queen", "bishop"]), bs, ov=ov or None)
                if rng.random() < 0.3:
                    g["via"] = "from_length"
                k += 1
                yield dict(kind="grid", id="%s-r%d" % (tag, k), grid=g, iter=[-1, 0, 1, 2, 3])
    for bs in itertools.product((CORE, FV, FG, LOOPED), repeat=2):
        for n in range(2, 6):
            ovs = [[]] + [[[i, st]] for i in range(n) for st in (CORE, FV, FG, LOOPED)] + [[[n, FV]], [[n + 5, LOOPED]]]
            if n >= 3:
                ovs.append([[0, FG], [n - 1, FV]])
                ovs.append([[1, FV], [n, FV]])
            for ov in ovs:
                k += 1
                gp = gen.profile(n, bs, ov=ov or None)
                if rng.random() < 0.3:
                    gp["via"] = "from_length"
                yield dict(kind="grid", id="%s-p%d" % (tag, k), grid=gp, iter=[-1, 0, 1, 2, 3])
    # meshes: default boundary vs status map vs status array
    for j in range(30 if tier == "quick" else 300):
        g = gen.lattice_mesh(rng, rng.randint(1, 3), rng.randint(1, 3), holes=rng.choice([0, 0, 1]))
        n = len(g["pts"])
        mode = rng.choice(["default", "map", "map", "array", "emptymap"])
        if mode == "map":
            g["st"] = "map"
            g["stv"] = [[rng.choice(list(range(n)) + [n, n + 3]) if rng.random() < 0.15 else rng.randrange(n),
                         rng.choice([CORE, FV, FG, FG, LOOPED] if rng.random() < 0.3 else [CORE, FV, FG])]
                        for _ in range(rng.randint(1, 4))]
            seen = set()
            g["stv"] = [e for e in g["stv"] if not (e[0] in seen or seen.add(e[0]))]
        elif mode == "array":
            g["st"] = "array"
            g["stv"] = [rng.choice([CORE, FV, FG]) for _ in range(n)]
        elif mode == "emptymap":
            g["st"] = "map"
            g["stv"] = []
        k += 1
        yield dict(kind="grid", id="%s-m%d" % (tag, k), grid=g, iter=[-1, 0, 1, 2, 3])


def base_level_cases(seed, count, tag):
    """a new flow graph's default base levels are exactly the fixed-value nodes (FlowTrace, C17)"""
    rng = random.Random(seed)
    for i in range(count):
        g = gen.rand_grid(rng, max_side=4)
        if g["t"] != "mesh" and rng.random() < 0.5:
            n = gen.grid_size(g)
            st = gen.status_array(g)
            cand = [j for j in range(n) if st[j] != LOOPED]
            ov = []
            for j in rng.sample(cand, min(len(cand), rng.randint(1, 3))):
                ov.append([j // g["nc"], j % g["nc"], rng.choice([CORE, FV, FG])] if g["t"] == "raster"
                          else [j, rng.choice([CORE, FV, FG])])
            g["ov"] = ov
        yield gen.flow_case("%s-%d-%d" % (tag, seed, i), g, [dict(op="new", g=0, ops=[gen.op_single()]), dict(op="drop", g=0)])


def mesh_cases(seed, count, tag):
    rng = random.Random(seed)
    for i in range(count):
        g = gen.lattice_mesh(rng, rng.randint(1, 3), rng.randint(1, 3), holes=rng.choice([0, 0, 1, 2]),
                             jitter=rng.random() < 0.6)
        if rng.random() < 0.2:
            g["pts"].append([rng.randint(20, 30), rng.randint(20, 30)])     # an isolated node
        # coordinates in other units, exact powers of two: from 1e-9 (a degree-based mesh at sub-metre
        # resolution is 1e-5) to 1e6 per lattice step
        g["sc"] = rng.choice([0, 0, -2, 3, -14, -17, -24, -30, 12, 20])
        if g["sc"] in (0, -2, 3) and rng.random() < 0.6:
            # the same mesh far from the origin of the coordinates (a projected system: easting 5e5, northing
            # 4.5e6, metre-sized or smaller triangles); exact translation, the specification ignores it
            g["sc"] = rng.choice([0, -3, -2])
            g["off"] = rng.choice([[500000, 4500000], [-3000000, 7000000], [2 ** 24, -(2 ** 25)]])
        n = len(g["pts"])
        yield dict(kind="grid", id="%s-%d-%d" % (tag, seed, i), grid=g, queries=_queries(rng, n, False, 2 * n),
                   iter=[-1, 1])


def big_cases(seed, count, tag, queries=True, routes=True):
    """Grids of 260 000 .. 400 000 nodes (kind "big"): accessor queries and routing observed at sampled
    nodes only - pairs of nodes 2^16, 2^17, 2^18 apart (capacity / aliasing thresholds), row starts,
    ends, random nodes.  The elevation is an integer formula of (row, column)."""
    rng = random.Random(seed)
    for i in range(count):
        kind = ["queen", "rook", "queen", "profile"][i % 4]
        if kind == "profile":
            n = rng.randint(270000, 400000)
            loop = rng.random() < 0.5
            g = gen.profile(n, [LOOPED, LOOPED] if loop else [FV, rng.choice([CORE, FV])], dx=rng.choice([1, 2]))
            nc = n
        else:
            nr, nc = rng.choice([(516, 512), (515, 512), (300, 900), (1030, 257), (523, 509)])
            lr = [LOOPED, LOOPED] if rng.random() < 0.5 else [rng.choice([CORE, FV]), FV]
            tb = [LOOPED, LOOPED] if (rng.random() < 0.3 and lr[0] != LOOPED) else [FV, rng.choice([CORE, FV, FG])]
            g = gen.raster(nr, nc, kind, lr + tb, dy=rng.choice([1, 2]), dx=rng.choice([1, 3]))
            n = nr * nc
        nodes = set([0, 1, n - 1, n - 2])
        for _ in range(6):
            j = rng.randrange(n)
            for off in (0, 1 << 16, 1 << 17, 1 << 18, (1 << 18) + 1, (1 << 18) - 1):
                if j + off < n:
                    nodes.add(j + off)
        for k in (1 << 16, 1 << 17, 1 << 18):
            for o in (-1, 0, 1):
                if 0 <= k + o < n:
                    nodes.add(k + o)
        if kind != "profile":
            for _ in range(4):
                r = rng.randrange(1, n // nc)
                nodes.update([r * nc - 1, r * nc, r * nc + 1])
        nodes = sorted(x for x in nodes if 0 <= x < n)
        c = dict(kind="big", id="%s-%d-%d" % (tag, seed, i), grid=g, timeout_ms=120000,
                 f=dict(a=rng.randint(1, 40), b=rng.randint(1, 40), m1=rng.randint(50, 200), m2=rng.randint(3, 30)))
        if queries:
            qs = []
            order = list(nodes)
            for _ in range(2):            # ascending (warms the cache entry of j before j + 2^18), then shuffled
                qs += [[0, x] for x in order]
                rng.shuffle(order)
            qs += [[1, x] for x in rng.sample(nodes, min(12, len(nodes)))]
            c["queries"] = qs
        if routes:
            c["routes"] = [dict(thr=0, samples=nodes), dict(thr=rng.choice([2, 4, 7]), samples=nodes)]
        yield c


def comb_cases(seed, tag, sizes=((1300, 1300, 9), (1300, 1400, None)), samples=3000):
    """A closed depression of a million nodes made of one-node corridors (a "comb"): the flood front holds
    hundreds of nodes at once and each corridor can only be entered through one node, so internal queues,
    stacks and counters of the resolver are pushed past every small capacity.  Observed at sampled nodes."""
    rng = random.Random(seed)
    for k, (nr, nc, c0) in enumerate(sizes):
        c0 = c0 if c0 is not None else rng.randrange(3, 60, 2)
        g = gen.raster(nr, nc, "rook", [FV, FV, FV, FV])
        n = nr * nc
        nodes = set([0, nc + 1, n - 1, n - nc - 2])
        while len(nodes) < samples:
            nodes.add(rng.randrange(n))
        # whole corridors' ends (the last nodes the front reaches) and the spine
        for c_ in rng.sample(range(c0, nc - 1), 60):
            nodes.update([(nr - 2) * nc + c_, (nr // 2) * nc + c_, nc + c_, 2 * nc + c_])
        yield dict(kind="big", id="%s-%d-%d" % (tag, seed, k), grid=g, timeout_ms=240000, comb=dict(B=10, L=1, W=20, c0=c0),
                   fills=[dict(samples=sorted(nodes))])
