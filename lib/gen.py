"""Case generators: seeded random worlds (grids x fields x masks x base levels x operator sequences).

Every case is a plain JSON object executed by the harness (harness/flow_driver.hpp documents the
step vocabulary).  Generators stay inside the documented domain: at least one unmasked base
level, base levels disjoint from the mask, finite fields, shapes >= 2 per axis.
"""
import itertools
import random

CORE, FV, FG, LOOPED = 0, 1, 2, 3


# ------------------------------------------------------------------------------ grids
def rand_bounds_raster(rng, allow_loop=True):
    def pair():
        if allow_loop and rng.random() < 0.25:
            return [LOOPED, LOOPED]
        return [rng.choice([CORE, FV, FG]), rng.choice([CORE, FV, FG])]
    lr, tb = pair(), pair()
    return [lr[0], lr[1], tb[0], tb[1]]


def raster(nr, nc, conn="queen", bs=(FV, FV, FV, FV), dy=1, dx=1, cache=1, ov=None, sc=0):
    d = dict(t="raster", conn=conn, nr=nr, nc=nc, dy=dy, dx=dx, bs=list(bs), cache=cache)
    if ov:
        d["ov"] = ov
    if sc:
        d["sc"] = sc
    return d


def profile(n, bs=(FV, FV), dx=1, ov=None, sc=0):
    d = dict(t="profile", n=n, dx=dx, bs=list(bs))
    if ov:
        d["ov"] = ov
    if sc:
        d["sc"] = sc
    return d


def lattice_mesh(rng, cx, cy, holes=0, jitter=False, st="default", isolated=0):
    """(cx x cy) cells on an integer lattice (step 4), each split along a random diagonal."""
    step = 4
    pts = [[x * step, y * step] for y in range(cy + 1) for x in range(cx + 1)]
    idx = lambda x, y: y * (cx + 1) + x
    if jitter:
        for y in range(1, cy):
            for x in range(1, cx):
                pts[idx(x, y)][0] += rng.choice([-1, 0, 1])
                pts[idx(x, y)][1] += rng.choice([-1, 0, 1])
    tri = []
    for y in range(cy):
        for x in range(cx):
            a, b, c, d = idx(x, y), idx(x + 1, y), idx(x, y + 1), idx(x + 1, y + 1)
            if rng.random() < 0.5:
                ts = [[a, b, d], [a, d, c]]
            else:
                ts = [[a, b, c], [b, d, c]]
            for t in ts:
                k = rng.randrange(3)
                t = t[k:] + t[:k]
                if rng.random() < 0.5:
                    t = [t[0], t[2], t[1]]
                tri.append(t)
    for _ in range(holes):
        if len(tri) > 2:
            tri.pop(rng.randrange(len(tri)))
    if jitter:
        # keep the triangulation valid: no degenerate triangle, no overlap (a jittered point must
        # stay strictly inside the star of its lattice position: every incident triangle keeps area)
        base = [[x * step, y * step] for y in range(cy + 1) for x in range(cx + 1)]

        def signed(P, t):
            (x1, y1), (x2, y2), (x3, y3) = P[t[0]], P[t[1]], P[t[2]]
            return (x2 - x1) * (y3 - y1) - (x3 - x1) * (y2 - y1)
        changed = True
        while changed:
            changed = False
            for t in tri:
                if signed(pts, t) * signed(base, t) <= 0:
                    for v in t:
                        if pts[v] != base[v]:
                            pts[v] = list(base[v])
                            changed = True
    if isolated:
        # a point that no triangle references (a node without neighbours), anywhere in the node order
        pos = rng.randrange(len(pts) + 1)
        pts.insert(pos, [step * (cx + 2) + rng.randint(0, 3), step * (cy + 2) + rng.randint(0, 3)])
        tri = [[v + 1 if v >= pos else v for v in t] for t in tri]
    return dict(t="mesh", pts=pts, tri=tri, st=st)


def grid_size(d):
    if d["t"] == "profile":
        return d["n"]
    if d["t"] == "raster":
        return d["nr"] * d["nc"]
    return len(d["pts"])


def neighbors(d):
    """Python mirror used only to SHAPE generated inputs (never as an oracle)."""
    n = grid_size(d)
    nb = [[] for _ in range(n)]
    if d["t"] == "profile":
        loop = d["bs"][0] == LOOPED and d["bs"][1] == LOOPED
        for i in range(n):
            if i > 0:
                nb[i].append(i - 1)
            elif loop:
                nb[i].append(n - 1)
            if i < n - 1:
                nb[i].append(i + 1)
            elif loop:
                nb[i].append(0)
    elif d["t"] == "raster":
        nr, nc = d["nr"], d["nc"]
        hl = d["bs"][0] == LOOPED and d["bs"][1] == LOOPED
        vl = d["bs"][2] == LOOPED and d["bs"][3] == LOOPED
        offs = {"queen": [(-1, -1), (-1, 0), (-1, 1), (0, -1), (0, 1), (1, -1), (1, 0), (1, 1)],
                "rook": [(-1, 0), (0, -1), (0, 1), (1, 0)],
                "bishop": [(-1, -1), (-1, 1), (1, -1), (1, 1)]}[d["conn"]]
        for i in range(n):
            r, c = divmod(i, nc)
            for dr, dc in offs:
                rr, cc = r + dr, c + dc
                if not 0 <= rr < nr:
                    if not vl:
                        continue
                    rr %= nr
                if not 0 <= cc < nc:
                    if not hl:
                        continue
                    cc %= nc
                nb[i].append(rr * nc + cc)
    else:
        for t in d["tri"]:
            for a, b in ((t[0], t[1]), (t[1], t[2]), (t[2], t[0])):
                if b not in nb[a]:
                    nb[a].append(b)
                if a not in nb[b]:
                    nb[b].append(a)
    return nb


def status_array(d):
    """Python mirror (input shaping only): statuses of an accepted grid without overrides."""
    n = grid_size(d)
    if d["t"] == "profile":
        st = [CORE] * n
        st[0], st[-1] = d["bs"][0], d["bs"][1]
    elif d["t"] == "raster":
        nr, nc = d["nr"], d["nc"]
        prio = {CORE: 0, LOOPED: 1, FG: 2, FV: 3}
        st = [CORE] * n
        for i in range(n):
            r, c = divmod(i, nc)
            cand = []
            if r == 0:
                cand.append(d["bs"][2])
            if r == nr - 1:
                cand.append(d["bs"][3])
            if c == 0:
                cand.append(d["bs"][0])
            if c == nc - 1:
                cand.append(d["bs"][1])
            if cand:
                st[i] = max(cand, key=lambda s: prio[s])
    else:
        return None
    for e in d.get("ov", []):
        if d["t"] == "raster":
            st[e[0] * d["nc"] + e[1]] = e[2]
        else:
            st[e[0]] = e[1]
    return st


def rand_grid(rng, max_side=5, kinds=("raster", "profile", "mesh"), allow_loop=True, spacings=(1,), nocache=0.15):
    k = rng.choice(kinds)
    if k == "profile":
        n = rng.randint(2, max(3, max_side * 3))
        loop = allow_loop and rng.random() < 0.2
        bs = [LOOPED, LOOPED] if loop else [rng.choice([CORE, FV, FG]), rng.choice([CORE, FV, FG])]
        return profile(n, bs, dx=rng.choice(spacings))
    if k == "mesh":
        return lattice_mesh(rng, rng.randint(1, max(1, max_side - 2)), rng.randint(1, max(1, max_side - 2)),
                            holes=rng.choice([0, 0, 1]), jitter=rng.random() < 0.4, isolated=1 if rng.random() < 0.3 else 0)
    conn = rng.choice(["queen", "queen", "rook", "bishop"])
    cache = 0 if (conn == "queen" and rng.random() < nocache) else 1
    return raster(rng.randint(2, max_side), rng.randint(2, max_side), conn, rand_bounds_raster(rng, allow_loop),
                  dy=rng.choice(spacings), dx=rng.choice(spacings), cache=cache)


# ------------------------------------------------------------------------------ fields
def rand_field(rng, d, family=None):
    """Elevation field spec {k, m, e | base}.  Families exercise ties, plateaus, nested bowls,
    distinct values, negative levels, subnormal / huge scales and chains of adjacent doubles."""
    n = grid_size(d)
    fam = family or rng.choice(["tied", "tied", "tied3", "distinct", "bowl", "neg", "sub", "huge", "ulp", "flat"])
    if fam == "tied":
        lv = rng.randint(2, 5)
        return dict(k="int", m=[rng.randrange(lv) for _ in range(n)], e=0)
    if fam == "tied3":
        return dict(k="int", m=[rng.choice([0, 3, 4]) for _ in range(n)], e=0)
    if fam == "flat":
        v = rng.choice([0, 1, 5])
        m = [v] * n
        for _ in range(rng.randint(0, 2)):
            m[rng.randrange(n)] = rng.randint(0, 6)
        return dict(k="int", m=m, e=0)
    if fam == "distinct":
        m = list(range(n))
        rng.shuffle(m)
        return dict(k="int", m=m, e=0)
    if fam == "bowl":
        # nested depressions: distance-like levels around random centres, with random rims
        nb = neighbors(d)
        m = [rng.randint(0, 3) for _ in range(n)]
        for _ in range(rng.randint(1, 3)):
            c = rng.randrange(n)
            depth = rng.randint(2, 6)
            seen, frontier, lvl = {c}, [c], 0
            while frontier and lvl <= depth:
                for i in frontier:
                    m[i] = min(m[i], lvl) if lvl < depth else max(m[i], depth + rng.randint(0, 2))
                nxt = []
                for i in frontier:
                    for j in nb[i]:
                        if j not in seen:
                            seen.add(j)
                            nxt.append(j)
                frontier, lvl = nxt, lvl + 1
        return dict(k="int", m=m, e=0)
    if fam == "lowest":
        # the most negative finite value (a common no-data marker) among ordinary levels: no difference overflows
        lo = "-1.7976931348623157e308"
        return dict(k="lit", v=[lo if rng.random() < 0.35 else str(rng.randint(0, 3)) for _ in range(n)], m=[0] * n, e=0)
    if fam == "extreme":
        # the ends of the finite range: +-DBL_MAX next to ordinary and tiny values
        vals = rng.choice([["1.7976931348623157e308", "0", "1", "-1"], ["-1.7976931348623157e308", "0", "5", "1.7976931348623157e308"],
                           ["1.7976931348623157e308", "1.7976931348623155e308", "3"], ["-1.7976931348623157e308", "-1.7976931348623155e308", "0"]])
        return dict(k="lit", v=[rng.choice(vals) for _ in range(n)], m=[0] * n, e=0)
    if fam == "cliff":
        # gentle relief next to a few very high nodes: slope ratios of 1e-4 .. 1e-7 (weights that
        # underflow to zero under a large slope exponent)
        base = rng.choice([50000, 1000000, 20000000])
        ph = rng.choice([0.15, 0.4, 0.6])
        m = [(base + rng.randint(0, 3)) if rng.random() < ph else rng.randint(0, 4) for _ in range(n)]
        return dict(k="int", m=m, e=0)
    if fam == "neg":
        lv = rng.randint(2, 6)
        off = rng.randint(1, 9)
        return dict(k="int", m=[rng.randrange(lv) - off for _ in range(n)], e=rng.choice([0, -3, 4]))
    if fam == "sub":
        lv = rng.randint(2, 5)
        return dict(k="int", m=[rng.randrange(lv) for _ in range(n)], e=rng.choice([-1074, -1073, -1000]))
    if fam == "huge":
        lv = rng.randint(2, 5)
        return dict(k="int", m=[rng.randrange(lv) for _ in range(n)], e=rng.choice([900, 1000]))
    if fam == "ulp":
        base = rng.choice(["1.0", "0.0", "-1.0", "1e300", "2.0", "-4.9e-324", "0.9999999999999999"])
        return dict(k="ulp", base=base, m=[rng.randint(-3, 3) for _ in range(n)])
    raise ValueError(fam)


def rand_mask_bl(rng, d, p_mask=0.12, p_bl=0.12, interior=True):
    """mask (0/1 list) and base levels (list, in random insertion order), disjoint, >= 1 base level."""
    n = grid_size(d)
    if rng.random() < 0.5:
        mask = [0] * n
    else:
        mask = [1 if rng.random() < p_mask else 0 for _ in range(n)]
    st = status_array(d)
    bl = []
    if st is not None and rng.random() < 0.5:
        bl = [i for i in range(n) if st[i] == FV and not mask[i]]
    else:
        bl = [i for i in range(n) if not mask[i] and rng.random() < p_bl]
    if not bl:
        free = [i for i in range(n) if not mask[i]]
        if not free:
            mask[rng.randrange(n)] = 0
            free = [i for i in range(n) if not mask[i]]
        bl = [rng.choice(free)]
    # base levels may also lie under the mask (e.g. default fixed-value border nodes inside a masked
    # region): they are not part of the graph; at least one base level stays unmasked
    masked = [i for i in range(n) if mask[i]]
    if masked and rng.random() < 0.3:
        bl = bl + rng.sample(masked, min(len(masked), rng.randint(1, 2)))
    rng.shuffle(bl)
    return mask, bl


# ------------------------------------------------------------------------------ operator sequences
def op_single(thr=0):
    return dict(k="single", thr=thr) if thr else dict(k="single")


def op_multi(p=4):
    return dict(k="multi", p=p)


def op_pflood():
    return dict(k="pflood")


def op_mst(m="kruskal", r="carve"):
    return dict(k="mst", m=m, r=r)


def op_snap(name, sg=1, se=0):
    return dict(k="snap", name=name, sg=sg, se=se)


RESOLVER_SEQS = [
    [op_pflood(), op_single()],
    [op_pflood(), op_multi(4)],
    [op_pflood(), op_multi(0)],
    [op_single(), op_mst("kruskal", "basic")],
    [op_single(), op_mst("kruskal", "carve")],
    [op_single(), op_mst("boruvka", "basic")],
    [op_single(), op_mst("boruvka", "carve")],
    [op_single(), op_mst("kruskal", "carve"), op_multi(4)],
    [op_single(), op_mst("boruvka", "carve"), op_single()],
    [op_pflood(), op_single(), op_mst("kruskal", "carve")],
    # the multi-threaded router behind / in front of a resolver (its own code path for every node)
    [op_pflood(), op_single(3)],
    [op_single(2), op_mst("kruskal", "carve"), op_single(4)],
    [op_single(), op_mst("kruskal", "basic"), op_multi(4)],       # known finding F14 (basic, then a router)
    [op_single(), op_mst("boruvka", "basic"), op_single()],
]

PLAIN_SEQS = [[op_single()], [op_multi(4)], [op_multi(0)], [op_multi(8)]]


VIA_DONORS = [[], [op_single()], [op_multi(4)], [op_pflood(), op_single()],
              [op_single(), op_snap("zz", 1, 1), op_mst("kruskal", "carve"), op_multi(0)]]


def _other_grid(vr, grid):
    import copy as _copy
    g2 = _copy.deepcopy(grid)
    g2.pop("ov", None)
    if grid["t"] == "mesh":
        g2 = lattice_mesh(vr, vr.randint(1, 3), vr.randint(1, 3), holes=vr.choice([0, 1]))
        g2["sc"] = grid.get("sc", 0)
        return g2
    if grid["t"] == "raster":
        g2["nr"], g2["nc"] = grid["nc"] + vr.randint(0, 2), max(2, grid["nr"] + vr.randint(-1, 1))
        return g2
    if grid["t"] == "profile":
        g2["n"] = grid["n"] + vr.randint(1, 3)
        return g2
    return None


def flow_case(cid, grid, steps, timeout_ms=None):
    # about one graph in four receives its operator sequence through the public move assignment of
    # flow_operator_sequence (onto an empty sequence or onto one holding other operators): the
    # specification knows no such distinction, every observation must be the same
    import random as _random
    vr = _random.Random("via:" + str(cid))
    for st in steps:
        if st.get("op") == "new" and "via" not in st and vr.random() < 0.25:
            st["via"] = "assign"
            st["via_ops"] = vr.choice(VIA_DONORS)
    # a mask is a value: about a third of the set_mask calls hand it over in another form
    for st in steps:
        if st.get("op") == "mask" and "form" not in st and vr.random() < 0.35:
            st["form"] = vr.choice(["col", "xtensor", "expr", "flip_own"])
    c = dict(kind="flow", id=cid, grid=grid, steps=steps)
    # about a third of the small cases keep a SECOND grid object of the same type alive (another mesh, a raster
    # or profile of another shape) and look nodes up on both grids, through the grid API, right before updates
    if vr.random() < 0.35 and grid_size(grid) <= 200 and not any(st.get("op") == "touch" for st in steps):
        g2 = _other_grid(vr, grid)
        if g2 is not None:
            c["grid2"] = g2
            n1, n2 = grid_size(grid), grid_size(g2)
            out = []
            for st in steps:
                if st.get("op") == "update" and vr.random() < 0.6:
                    out.append(dict(op="touch", own=[0] + [vr.randrange(n1) for _ in range(2)],
                                    other=[0] + [vr.randrange(n2) for _ in range(2)], route=1 if vr.random() < 0.3 else 0))
                out.append(st)
            c["steps"] = out
    if timeout_ms:
        c["timeout_ms"] = timeout_ms
    return c


def hub_world(rng, min_sectors=17, max_sectors=20, low_degree=16, conn=None):
    """A terrain whose basin graph keeps SEVERAL basins of degree > 16 (Boruvka's large-degree work list)
    through the first contraction round: a row of base levels (one outer basin per node), a ridge, a row
    of K >= 17 closed 'sector' basins each touching > 16 outer basins, a second ridge and one long
    'lake' basin touching every sector.  After the outer basins have collapsed into the root, the
    root and the lake both still have K > 16 distinct neighbours.  Returns (grid, field)."""
    conn = rng.choice(["queen", "rook"]) if conn is None else conn
    if low_degree < 16:
        # the harness lowers the degree bound (guarded knob): 6 is enough on rook rasters (the basin
        # graph plus the root is an apex graph: some node has degree <= 6), 8 on queen rasters
        low_degree = 6 if conn == "rook" else 8
        min_sectors, max_sectors = low_degree + 1, low_degree + 3
    if low_degree >= 16:
        max_sectors = min(max_sectors, 18)      # <= 1440 nodes: what a whole-world TLC validation affords
    K = rng.randint(min_sectors, max_sectors)
    wmin = max(2, low_degree - (2 if conn == "rook" else 4))   # sector degree = w + 3 (rook) / w + 5 (queen) > bound
    w = rng.randint(wmin, wmin + 2)
    nc = K * w
    extra_lake = rng.random() < 0.3 and low_degree < 16         # a second lake below the first one: three hubs
    nr = 7 if extra_lake else 5
    tied = rng.random() < 0.4
    flip = rng.random() < 0.5                # base levels on the bottom row instead of the top row
    m = [0] * (nr * nc)
    mid = nc // 2
    jit = (lambda: 0) if tied else (lambda: rng.randint(0, 3))
    for c in range(nc):
        k, off = divmod(c, w)
        rows = [0,
                10000 + (0 if tied else c) + jit(),
                5000 + 100 * abs(off - w // 2) + (0 if tied else k) + jit(),
                8000 + (0 if tied else c) + jit(),
                2000 + abs(c - mid)]
        if extra_lake:
            rows += [7000 + (0 if tied else c) + jit(), 1000 + abs(c - mid)]
        for r, v in enumerate(rows):
            rr = nr - 1 - r if flip else r
            m[rr * nc + c] = v
    bs = [CORE, CORE, CORE, FV] if flip else [CORE, CORE, FV, CORE]
    g = raster(nr, nc, conn, bs)
    return g, dict(k="int", m=m, e=0), low_degree
