"""Union-find cases (kind "uf"): sequences of operations for detail::union_find, either read from
TLC's state graph of the L2 model (one sequence per transition) or drawn at random."""
import json
import random
import re


def cases_from_tlc_output(out, tag, batch=500, sample=None, seed=0):
    seqs = []
    for m in re.finditer(r'<<"UFCASE", "(.*)">>', out):
        seqs.append(json.loads(m.group(1).replace('\\"', '"')))
    if sample is not None and len(seqs) > sample:
        seqs = random.Random(seed).sample(seqs, sample)
    for i in range(0, len(seqs), batch):
        yield dict(kind="uf", id="%s-%d" % (tag, i), seqs=seqs[i:i + batch])


def random_cases(seed, count, tag, max_n=12, max_ops=40, batch=50, kruskal_like=True):
    """Random call sequences inside the documented domain; half of them follow the call pattern of
    basin_graph::compute_tree_kruskal (resize, clear, then find/find/merge triples)."""
    rng = random.Random(seed)
    seqs = []
    for _ in range(count):
        n = rng.randint(0, max_n)
        n0 = n
        ops = []
        if kruskal_like and rng.random() < 0.5:
            n0 = rng.randint(0, max_n)
            n = rng.randint(1, max_n)
            ops += [["resize", n, 0], ["clear", 0, 0]]
            for _ in range(rng.randint(0, max_ops // 3)):
                a, b = rng.randrange(n), rng.randrange(n)
                ops += [["find", a, 0], ["find", b, 0], ["merge", a, b]]
        else:
            for _ in range(rng.randint(0, max_ops)):
                r = rng.random()
                if n > 0 and r < 0.45:
                    ops.append(["merge", rng.randrange(n), rng.randrange(n)])
                elif n > 0 and r < 0.8:
                    ops.append(["find", rng.randrange(n), 0])
                elif r < 0.85:
                    ops.append(["clear", 0, 0])
                elif r < 0.9:
                    n = rng.randint(0, max_n)
                    ops.append(["resize", n, 0])
                elif n < max_n:
                    ops.append(["push", rng.randint(0, n), 0])
                    n += 1
        seqs.append(dict(n0=n0, ops=ops))
    for i in range(0, len(seqs), batch):
        yield dict(kind="uf", id="%s-%d-%d" % (tag, seed, i), seqs=seqs[i:i + batch])
