"""Worker-pool cases (C11, C10): caller programs in the library's grammar, schedules by seed."""
import random


def rand_program(rng, maxw=4, cycles=None):
    """(resume; resize k; run*; pause)* ; [stop] with occasional idempotent calls."""
    prog = []
    for _ in range(cycles or rng.randint(1, 3)):
        prog.append(["resume"])
        k = rng.randint(1, maxw)
        prog.append(["resize", k])
        for _ in range(rng.randint(0, 3)):
            first = rng.randint(0, 4)
            last = first + rng.choice([0, 1, 2, 3, 5, 8])
            prog.append(["run", first, last, rng.choice([0, 0, 1, 2, 3])])
        if rng.random() < 0.85:
            prog.append(["pause"])
        if rng.random() < 0.15:
            prog.append(["pause"])
    r = rng.random()
    if r < 0.3:
        prog.append(["stop"])
    elif r < 0.4:
        prog += [["stop"], ["stop"]]
    return prog


def pool_cases(seed, count, tag, ctrl=1, maxw=4):
    rng = random.Random(seed)
    for i in range(count):
        size = rng.choice([1, 2, 2, 3, maxw])
        c = dict(kind="pool", id="%s-%d-%d" % (tag, seed, i), size=size, ctrl=ctrl, seed=rng.randrange(1 << 30),
                 pct=rng.choice([-1, 0, 1, 2, 3]), prog=rand_program(rng, maxw))
        yield c


def lost_wakeup_cases(tag, count=6):
    """The TLC liveness counterexample as a steered schedule: a worker is held between
    ++paused_count and cv.wait until the caller has been granted notify_all."""
    for w in range(count):
        size = 2 + (w % 2)
        prog = [["resume"], ["resize", size], ["run", 0, 4, 0], ["pause"], ["resume"], ["resize", size], ["run", 0, 2, 0],
                ["pause"], ["stop"]]
        yield dict(kind="pool", id="%s-hold-%d" % (tag, w), size=size, ctrl=1, seed=100 + w, pct=1, prog=prog,
                   hold=[[0, 32, 8]])
