"""Hillslope diffusion cases (C14): integer diffusivities, rational time steps, integer spacings:
every coefficient of the two tridiagonal systems is an exact integer after multiplying by D."""
import math
import random

import gen


def adi_cases(seed, count, tag, max_side=6):
    rng = random.Random(seed)
    for i in range(count):
        nr, nc = rng.randint(3, max_side), rng.randint(3, max_side)
        dy, dx = rng.choice([1, 1, 2, 3]), rng.choice([1, 1, 2, 3])
        stiff = rng.random() < 0.2
        p = rng.choice([50, 200, 1000]) if stiff else rng.randint(1, 8)
        q = rng.choice([1, 1, 2, 3])
        g = gen.raster(nr, nc, "queen", [rng.choice([0, 1, 2]) for _ in range(4)], dy=dy, dx=dx)
        n = nr * nc
        fam = rng.choice(["random", "random", "rows", "cols", "band", "flat"])
        if fam == "rows":        # ridge / valley: every row identical, curvature along the row
            f = [rng.randint(0, 8) for _ in range(nc)]
            hh = [f[c_] for r_ in range(nr) for c_ in range(nc)]
        elif fam == "cols":
            f = [rng.randint(0, 8) for _ in range(nr)]
            hh = [f[r_] for r_ in range(nr) for c_ in range(nc)]
        elif fam == "band":      # a band of identical consecutive rows inside a rough field
            hh = [rng.randint(0, 8) for _ in range(n)]
            r0 = rng.randint(0, max(0, nr - 3))
            for r_ in range(r0, min(nr, r0 + rng.randint(3, 4))):
                hh[r_ * nc:(r_ + 1) * nc] = hh[r0 * nc:(r0 + 1) * nc]
        elif fam == "flat":
            v = rng.randint(0, 8)
            hh = [v] * n
            hh[rng.randrange(n)] = rng.randint(0, 8)
        else:
            hh = [rng.randint(0, 8) for _ in range(n)]
        c = dict(kind="adi", id="%s-%d-%d" % (tag, seed, i), grid=g, dt=[p, q], h=hh)
        if rng.random() < 0.5:
            c["Ks"] = rng.randint(1, 4)
            kmax = c["Ks"]
        else:
            c["Ka"] = [rng.randint(1, 4) for _ in range(n)]
            kmax = 4
        # the same problem in other units (diffusivity x 2^-ksc, time step x 2^ksc, exact): SI-like
        # magnitudes (K ~ 1e-9 .. 1e-12 with a huge time step) and the opposite
        if rng.random() < 0.4:
            c["ksc"] = rng.choice([30, 36, 40, 45, -20, -30])
        D = 8 * q * dy * dy * dx * dx
        big = D + 2 * p * max(dy, dx) ** 2 * 4 * kmax
        # every partial sum of a residual (three products on each side) must stay below 2^31
        c["S"] = max(1, min(16, int(math.log2((2 ** 29) / (big * 9.0))) - 3))
        if rng.random() < 0.5:
            # the diffusivity of one eroder object is changed through its setters between steps,
            # coming back to earlier values
            ks = rng.randint(1, 4)
            ka = [rng.randint(1, 4) for _ in range(n)]
            pool = [dict(Ks=ks), dict(Ka=ka), dict(Ks=ks), dict(Ks=rng.randint(1, 4)), dict(Ka=[ks] * n), dict(Ka=ka)]
            c["hist"] = [pool[0]] + [rng.choice(pool) for _ in range(rng.randint(2, 5))]
            if rng.random() < 0.5:
                # the eroder is copied (copy constructor) in the middle of the history; the copy gets another
                # diffusivity; the original, called again WITHOUT any setter call, must still use its own (and
                # the other way round): two objects are two values
                at = rng.randint(1, len(c["hist"]))
                cur0 = dict(c["hist"][at - 1])
                new1 = rng.choice([dict(Ks=rng.randint(1, 4)), dict(Ka=[rng.randint(1, 4) for _ in range(n)])])
                tail = [dict(copy=1), dict(new1, obj=1), dict(cur0, obj=0, noset=1)]
                if rng.random() < 0.5:
                    new0 = rng.choice(pool)
                    tail += [dict(new0, obj=0), dict(new1, obj=1, noset=1)]
                c["hist"][at:at] = tail
            if rng.random() < 0.5:
                # a call with a wrong-shaped elevation in the middle of the history (non-square grids matter)
                pos_ok = [j for j in range(1, len(c["hist"])) if "copy" not in c["hist"][j] and not c["hist"][j].get("noset")]
                if pos_ok:
                    c["hist"].insert(rng.choice(pos_ok), dict(bad="rows"))
        if rng.random() < 0.6:
            c["lin"] = dict(a=rng.randint(-3, 3), b=rng.randint(-3, 3), x=[rng.randint(0, 6) for _ in range(n)],
                            y=[rng.randint(-4, 4) for _ in range(n)])
        if rng.random() < 0.5:
            lr = rng.choice([[3, 3], [rng.choice([0, 1, 2]), rng.choice([0, 1, 2])]])
            tb = rng.choice([[3, 3], [rng.choice([0, 1, 2]), rng.choice([0, 1, 2])]])
            c["bs2"] = lr + tb
        yield c
