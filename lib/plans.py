"""Per-property plans: which models are checked and which behaviours are replayed / validated."""
import json
import os

import checks_flow as cf
import gen
import vlib
from runner import Check


def plan_C01(ck):
    q = ck.tier == "quick"
    ck.traces(cf.resolver_cases(ck.seed, 150 if q else 4000, 5 if q else 8, "C01"), ["C01"], tag="c01",
              nontrivial=cf.nontrivial_world)


def plan_C02(ck):
    q = ck.tier == "quick"
    ck.traces(cf.resolver_cases(ck.seed + 1, 150 if q else 4000, 5 if q else 8, "C02"), ["C02"], tag="c02",
              nontrivial=cf.nontrivial_world)


PLANS = {"C01": plan_C01, "C02": plan_C02}


def run(prop, tier, seed):
    if prop not in PLANS:
        raise vlib.MachineryError("no plan for " + prop)
    ck = Check(prop, tier, seed)
    PLANS[prop](ck)
    return ck.finish()


def replay(prop, path):
    """Re-executes recorded case(s) in the real code and re-validates with every contract named."""
    ck = Check(prop, "quick", 0)
    cases = [json.loads(l) for l in open(path) if l.strip()]
    ck.traces(cases, [prop], tag="replay")
    return ck.finish()
