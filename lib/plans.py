"""Per-property plans: which models are checked and which behaviours are replayed / validated."""
import json
import os

import checks_flow as cf
import checks_pool as cp
import checks_spl as cs
import checks_grid as cg
import checks_adi as ca
import gen
import vlib
from runner import Check


def pflood_models(ck, invariant_note):
    ck.model("PFlood-2x3-queen", "MCPFlood.tla", "MCPFlood_quick.cfg", note=invariant_note, required_actions=("Pop", "Finish"))
    ck.model("PFlood-profile5", "MCPFlood.tla", "MCPFlood_p5.cfg", note=invariant_note)
    if ck.tier == "thorough":
        ck.model("PFlood-3x3-queen", "MCPFlood.tla", "MCPFlood_q33.cfg", note=invariant_note, timeout=3000)
        ck.model("PFlood-3x3-rook-looped-masked", "MCPFlood.tla", "MCPFlood_r33.cfg", note=invariant_note, timeout=3000)


def basin_models(ck, note):
    """L2 spanning-tree resolver (routing, lowest passes, Kruskal with any tie order, orientation,
    basic / carve re-routing, tilting) on every field over 3 levels, all choices the code leaves open."""
    ck.model("BasinGraph-profile6-carve", "MCBasinGraph.tla", "MCBasinGraph_p6_carve.cfg", note=note, timeout=3000,
             required_actions=("Route", "Connect", "Passes", "Kruskal", "Orient", "Reroute", "Tilt"))
    ck.model("BasinGraph-2x3-rook-basic", "MCBasinGraph.tla", "MCBasinGraph_rook23_basic.cfg", note=note, timeout=3000)
    if ck.tier == "thorough":
        ck.model("BasinGraph-profile6-basic", "MCBasinGraph.tla", "MCBasinGraph_p6_basic.cfg", note=note, timeout=3000)
        ck.model("BasinGraph-2x3-rook-carve", "MCBasinGraph.tla", "MCBasinGraph_rook23_carve.cfg", note=note, timeout=3000)
        ck.model("BasinGraph-2x3-queen-carve", "MCBasinGraph.tla", "MCBasinGraph_queen23_carve.cfg", note=note, timeout=6000, xmx="24g")


def hub_stage(ck, prop, bgraph, routers=True):
    """Worlds that keep several basins above Boruvka's low-degree bound (the large-degree work list is
    otherwise reached by one basin at most): lowered bound through the guarded knob in both tiers, the
    library's own bound (grids of 1200+ nodes) in the thorough tier."""
    q = ck.tier == "quick"
    cases = list(cf.hub_cases(ck.seed + 400, prop, n_rook=3 if q else 24, n_queen=1 if q else 12, n_real=0 if q else 3,
                              bgraph=bgraph, routers=routers))
    ck.traces(cases, [prop], tag=prop.lower() + "hub", nontrivial=cf.nontrivial_world, timeout_ms=120000,
              sample_events=("BasinGraph",) if bgraph else ("Update",))
    ck.ev.cov["hub_worlds"] = len(cases)


def lowest_probe_stage(ck, prop):
    """Known finding F16 (fields holding numeric_limits<double>::lowest() at several nodes): shown on every run."""
    ck.traces(cf.lowest_probe_cases(16, prop), [prop], tag=prop.lower() + "f16", nontrivial=cf.nontrivial_world, timeout_ms=30000)


def wrap_stage(ck, checks, prop):
    """Objects that live through 2^8 (and, thorough tier, 2^16) calls with a depression node masked, then unmasked."""
    q = ck.tier == "quick"
    cases = list(cf.wrap_cases(ck.seed + 500, prop, widths=(8, 16), deltas=(-1, 0, 1) if q else (-2, -1, 0, 1, 2)))
    ck.traces(cases, checks, tag=prop.lower() + "wrap", nontrivial=cf.nontrivial_world, timeout_ms=120000)
    ck.ev.cov["long_histories"] = len(cases)


def sweeps_stage(ck, checks, tag, algos, **kw):
    """L2 models of the sweeps that consume a traversal order (Sweeps.tla) + B1: the graphs the model ranges
    over are written out by TLC, installed in real flow graphs through a user-defined router (the library's
    extension point) and run through the real order algorithms, accumulate, basins and kernels."""
    q = ck.tier == "quick"
    out = os.path.join(ck.workdir, "sweep-graphs-%s.ndjson" % tag)
    note_acc = "L2 accumulate sweep on EVERY forest / DAG (<= 2 receivers per node, every partition of the flow incl. zero shares, signed sources, variable areas) and EVERY order satisfying FlowContract!C06Dfs: terminal state satisfies AccBalance / AccConserves / AccLocalBound"
    note_bas = "L2 compute_basins + pits on EVERY forest, mask and base-level set over the terminals, and EVERY receivers-first order that lists each outlet before its whole catchment (BasinContiguous, delivered by the dfs algorithm: Orders!ContigOK): terminal state satisfies FlowContract!C19"
    gen_model = None
    if "accumulate" in algos:
        gen_model = ck.model("Sweeps-accumulate-4nodes-dags", "MCSweeps.tla", "MCSweeps_acc4.cfg", note=note_acc, env={"SWEEPS_OUT": out},
                             required_actions=("AccStep",), timeout=3000)
        ck.model("Sweeps-accumulate-4nodes-forests", "MCSweeps.tla", "MCSweeps_acc4s.cfg", note=note_acc, timeout=3000)
        ck.model("Sweeps-accumulate-any-order", "MCSweeps.tla", "MCSweeps_acc3_anyorder.cfg", expect="violation",
                 note="negative control: an order that does not put receivers first breaks the balance")
        ck.model("Sweeps-accumulate-skip-nonpositive", "MCSweeps.tla", "MCSweeps_acc3_skip.cfg", expect="violation",
                 note="negative control (seeded change C03): nodes with acc <= 0 not propagated, signed sources")
    if "basins" in algos:
        r = ck.model("Sweeps-basins-%dnodes" % (4 if q else 5), "MCSweeps.tla", "MCSweeps_basins4.cfg" if q else "MCSweeps_basins5.cfg",
                     note=note_bas, env=None if gen_model else {"SWEEPS_OUT": out}, required_actions=("BasinStep", "PitsStep"), timeout=3000)
        ck.model("Sweeps-basins-contract-order-only", "MCSweeps.tla", "MCSweeps_basins4_contract.cfg", expect="violation",
                 note="negative control: receivers-first alone (C06Dfs) is not enough for compute_basins, which labels with the current counter")
        ck.model("Orders-dfs-bottomup-contiguous", "Orders.tla", "MCOrders_dfsbu4.cfg" if q else "MCOrders_dfsbu5.cfg", workers=16, timeout=3000,
                 note="the bottom-up dfs algorithm delivers the order compute_basins needs (ContigOK) on every forest")
    if not algos:
        ck.model("Sweeps-graphs-4nodes", "MCSweeps.tla", "MCSweeps_gen4.cfg", note=note_acc + " (non-negative sources; run here as the generator of the graphs)",
                 env={"SWEEPS_OUT": out}, timeout=3000)
    if ck.violations and q:
        return
    graphs = [json.loads(l) for l in open(out)]
    ck.ev.cov["graphs_enumerated_by_tlc"] = len(graphs)
    cases = list(cf.inject_cases(graphs, ck.seed + 700, tag, big=40 if q else 1500, **kw))
    ck.traces(cases, checks, tag=tag, nontrivial=lambda c: True, sample_events=("Update", "Accumulate", "Basins", "Kernel"))
    ck.ev.cov["installed_graphs"] = len(graphs) + (40 if q else 1500)


def deep_stage(ck, checks, tag, which):
    """Deep worlds (a flow path of 70 000+ nodes; a valley with 2 600+ consecutive confluences): see cf.deep_cases."""
    cases = list(cf.deep_cases(tag, which, quick=ck.tier == "quick"))
    ck.traces(cases, checks, tag=tag, nontrivial=lambda c: True, timeout_ms=120000, sample_events=("Update", "Basins"), nproc=3)
    ck.ev.cov["deep_worlds"] = len(cases)


def comb_stage(ck, checks, tag):
    """Depression filling on comb-shaped lakes of 1.7 M nodes (3.4 M thorough), sampled nodes (BigGridTrace!TBigFill)."""
    q = ck.tier == "quick"
    cases = list(cg.comb_cases(ck.seed + 800, tag, sizes=((1300, 1300, 9), (1300, 1400, None)) if q else ((1300, 1300, 9), (1300, 1400, None), (1100, 2600, None), (2600, 1300, None), (1300, 1300, 1))))
    ck.traces(cases, checks, tag=tag, spec=BIG_SPEC, nontrivial=lambda c: True, timeout_ms=240000, sample_events=("BigFill",), nproc=2)
    ck.ev.cov["comb_lake_worlds"] = len(cases)


def plan_C01(ck):
    q = ck.tier == "quick"
    basin_models(ck, "L2 mst resolver: every terminal state satisfies FlowContract!C01 (terminals, strict descent, reaches a base level), the receivers stay a forest, the tree is a minimal spanning forest, termination")
    pflood_models(ck, "L2 priority flood, all queue tie-breaks: terminal states satisfy Drains (every node connected to a base level keeps a strictly lower unmasked neighbour) and FlowContract!C02")
    ck.traces(cf.resolver_cases(ck.seed, 150 if q else 4000, 5 if q else 8, "C01"), ["C01"], tag="c01",
              nontrivial=cf.nontrivial_world)
    if q and ck.violations:
        return
    hub_stage(ck, "C01", bgraph=False)
    if q and ck.violations:
        return
    wrap_stage(ck, ["C01", "C09"], "C01")
    comb_stage(ck, ["C01"], "c01comb")
    lowest_probe_stage(ck, "C01")


def plan_C02(ck):
    q = ck.tier == "quick"
    basin_models(ck, "L2 mst resolver: the tilted surface satisfies FlowContract!C02 (spill level + at most N increments, fixed nodes untouched)")
    pflood_models(ck, "L2 priority flood refines FlowContract!C02 (spill level + at most N increments, fixed nodes untouched) for every field over the levels, every tie-break")
    ck.traces(cf.resolver_cases(ck.seed + 1, 150 if q else 4000, 5 if q else 8, "C02"), ["C02"], tag="c02",
              nontrivial=cf.nontrivial_world)
    if q and ck.violations:
        return
    hub_stage(ck, "C02", bgraph=False)
    if q and ck.violations:
        return
    wrap_stage(ck, ["C02", "C09"], "C02")
    comb_stage(ck, ["C02"], "c02comb")
    lowest_probe_stage(ck, "C02")


def router_models(ck):
    note = "L2 routers in exact integer arithmetic refine FlowContract!C04 / C05 for every field over the levels, every mask and base-level set given"
    ck.model("Router-2x3-queen-anisotropic", "MCRouter.tla", "MCRouter_q23.cfg", note=note, workers=8)
    ck.model("Router-profile4-looped", "MCRouter.tla", "MCRouter_p4.cfg", note=note, workers=8)
    ck.model("Router-minimum-slope-threshold", "MCRouter.tla", "MCRouter_q23_threshold.cfg", expect="violation", workers=8,
             note="negative control: a minimum-slope test (the slope > DBL_MIN defect) leaves nodes with a strictly lower neighbour as pits")
    if ck.tier == "thorough":
        ck.model("Router-2x3-rook-looped-4levels", "MCRouter.tla", "MCRouter_r23.cfg", note=note, workers=8)


BIG_SPEC = ("BigGridTrace.tla", "BigGridTrace.cfg")


def plan_C04(ck):
    q = ck.tier == "quick"
    router_models(ck)
    ck.traces(cf.router_cases(ck.seed + 4, 300 if q else 8000, 5 if q else 8, "C04"), ["C04"], tag="c04",
              nontrivial=cf.nontrivial_world)
    if q and ck.violations:
        return
    # grids of 260 000+ nodes, receivers observed at sampled nodes (sequential and multi-threaded router)
    ck.traces(cg.big_cases(ck.seed + 404, 2 if q else 16, "C04big", queries=False), ["C04"], tag="c04big", spec=BIG_SPEC,
              sample_events=("BigRoute",), timeout_ms=120000)


def plan_C05(ck):
    q = ck.tier == "quick"
    router_models(ck)
    ck.traces(cf.router_cases(ck.seed + 5, 200 if q else 6000, 5 if q else 7, "C05", multi=True), ["C05"], tag="c05",
              nontrivial=cf.nontrivial_world)


def plan_C06(ck):
    q = ck.tier == "quick"
    note = "L2 traversal-order algorithm, one action per loop iteration, on EVERY forest / DAG of that size: terminal state satisfies FlowContract!C06Dfs / C06Bfs, arrays never overrun, terminates"
    for name, cfg in (("Orders-dfs-bottomup-forests", "dfsbu"), ("Orders-dfs-topdown-dags", "dfstd"),
                      ("Orders-bfs-forests", "bfs%ss"), ("Orders-bfs-dags", "bfs%sm")):
        sz = "4" if q else "5"
        c = cfg % sz if "%s" in cfg else cfg + sz
        ck.model(name + "-" + sz + "nodes", "Orders.tla", "MCOrders_%s.cfg" % c, note=note, workers=16, timeout=3000)
    ck.traces(cf.state_cases(ck.seed + 6, 150 if q else 2500, 5 if q else 7, "C06"), ["C06"], tag="c06",
              nontrivial=cf.nontrivial_world)
    if q and ck.violations:
        return
    # every forest / DAG on 4 nodes (enumerated by TLC) + random larger ones installed by a user-defined router:
    # the real traversal-order algorithms on graphs no grid router produces
    sweeps_stage(ck, ["C06"], "c06inj", ())
    if q and ck.violations:
        return
    deep_stage(ck, ["C06"], "c06deep", ("path", "valley"))
    if q and ck.violations:
        return
    # graph snapshots are flow graphs too: the tables they expose are checked like any other state
    ck.traces(cf.snapshot_cases(ck.seed + 160, 40 if q else 800, 5, "C06snap"), ["C06"], tag="c06snap", nontrivial=cf.nontrivial_world)


def plan_C19(ck):
    q = ck.tier == "quick"
    ck.traces(cf.state_cases(ck.seed + 19, 150 if q else 4000, 5 if q else 8, "C19", extra="basins"), ["C19"], tag="c19",
              nontrivial=cf.nontrivial_world)
    if q and ck.violations:
        return
    sweeps_stage(ck, ["C19"], "c19inj", ("basins",))
    if q and ck.violations:
        return
    deep_stage(ck, ["C19"], "c19deep", ("valley", "path"))
    # snapshot graphs are flow graphs too: basins() on them, repeatedly, across updates of the owner
    ck.traces(cf.snapshot_cases(ck.seed + 119, 60 if q else 1500, 4 if q else 6, "C19snap"), ["C19"], tag="c19snap",
              nontrivial=cf.nontrivial_world, sample_events=("Basins",))


def plan_C03(ck):
    q = ck.tier == "quick"
    sweeps_stage(ck, ["C03"], "c03inj", ("accumulate",))
    if q and ck.violations:
        return
    ck.traces(cf.state_cases(ck.seed + 3, 120 if q else 3000, 4 if q else 6, "C03", extra="acc"), ["C03"], tag="c03",
              nontrivial=cf.nontrivial_world)


def plan_C09(ck):
    q = ck.tier == "quick"
    ck.model("PFloodTwice-total-order", "MCPFloodTwice.tla", "MCPFloodTwice_total.cfg", workers=8,
             note="two runs with independent queue tie-breaks give the same surface when the heap order is total")
    ck.model("PFloodTwice-elevation-only-order", "MCPFloodTwice.tla", "MCPFloodTwice_ties.cfg", workers=8, expect="violation",
             note="negative control: with an elevation-only heap order TLC finds two runs that differ (history dependence)")
    wrap_stage(ck, ["C09"], "C09")
    # worlds of 32 000+ nodes and thousands of basins updated several times on one object, then on fresh ones
    ck.traces(cf.wide_history_cases(ck.seed + 909, "C09wide", count=1 if q else 6), ["C09"], tag="c09wide", nontrivial=lambda c: True,
              timeout_ms=240000, nproc=2)
    # graph snapshots are flow graphs too: what accumulate / basins return on them is a function of the inputs
    # of the update that filled them (observed across several updates, and after the parent's mask was replaced)
    ck.traces(cf.snapshot_cases(ck.seed + 190, 40 if q else 800, 5, "C09snap"), ["C09"], tag="c09snap", nontrivial=cf.nontrivial_world)
    ck.traces(cf.history_cases(ck.seed + 9, 150 if q else 4000, 5 if q else 7, "C09"), ["C09"], tag="c09",
              nontrivial=cf.nontrivial_world)


def plan_C16(ck):
    q = ck.tier == "quick"
    ck.traces(cf.snapshot_cases(ck.seed + 16, 100 if q else 3000, 4 if q else 6, "C16"), ["C16"], tag="c16",
              nontrivial=cf.nontrivial_world)


POOL_SPEC = ("PoolTrace.tla", "PoolTrace.cfg")
TSAN_POOL_BUILD = dict(sources=["main.cpp", "pool_driver.cpp", "stubs.cpp", "stubs_flow.cpp"], name="fsl_harness_pool_tsan")
TSAN_ENV = {"TSAN_OPTIONS": "exitcode=66 halt_on_error=1 report_signal_unsafe=0"}


def blocks_replay(ck):
    """B1: TLC enumerates every (first, last, n, min) tuple of the bounded Blocks specification (after
    checking the partition property on all of them); each is replayed through the real blocks class."""
    q = ck.tier == "quick"
    out = os.path.join(ck.workdir, "blocks-tuples.ndjson")
    r = vlib.run_tlc("MCBlocks.tla", "MCBlocks_quick.cfg" if q else "MCBlocks_thorough.cfg", env={"BLOCKS_OUT": out},
                     workers=4, timeout=1500)
    ck.ev.add_model("Blocks-partition-all-tuples", r, "ASSUME AllOK: PartitionOK for every tuple of the bounded domain (evaluated by TLC); tuples written out for replay")
    if r.error is not None:
        if "Assumption" in r.out:
            ck.report(conjunct="model:Blocks:PartitionOK", case_id="model:Blocks", replay=None, case=dict(kind="model", model="Blocks"))
            return
        raise vlib.MachineryError("MCBlocks failed:\n" + (r.error_text or r.out[-2000:]))
    tuples = [json.loads(l) for l in open(out)]
    ck.ev.cov["blocks_tuples"] = len(tuples)
    cases = []
    for i in range(0, len(tuples), 400):
        cases.append(dict(kind="pool", id="blocks-%d" % i, blocks=[[t["first"], t["last"], t["n"], t["min"]] for t in tuples[i:i + 400]]))
    ck.traces(cases, [], tag="blocks", spec=("BlocksTrace.tla", "BlocksTrace.cfg"), sample_events=("Blocks",))


def plan_C11(ck):
    q = ck.tier == "quick"
    blocks_replay(ck)
    note = "every interleaving of caller and workers at the granularity of the atomic accesses: ExactlyOnce, NoDataRace (release/acquire happens-before ghosts), MutexOK, Termination under weak fairness"
    ck.model("ThreadPool-A-2workers", "MCThreadPool.tla", "MCThreadPool_A.cfg", note=note,
             required_actions=("R1lock", "R1", "T0sSpawn", "T2Store", "WlLoad", "P3", "B2", "S2Join", "Z1", "L2", "L3", "K0", "K2", "K3", "K5"))
    ck.model("ThreadPool-C-idempotent-calls", "MCThreadPool.tla", "MCThreadPool_C.cfg", note=note)
    ck.model("ThreadPool-E-destroy-unused", "MCThreadPool.tla", "MCThreadPool_E.cfg", note=note)
    ck.model("ThreadPool-A-relaxed-orders", "MCThreadPool.tla", "MCThreadPool_A_relaxed.cfg", expect="violation",
             note="negative control: with relaxed flag accesses TLC finds the data race on the job vector")
    ck.model("ThreadPool-A-unlocked-notify", "MCThreadPool.tla", "MCThreadPool_A_unlocked.cfg", expect="violation",
             note="negative control: notify_all without the mutex loses a wake-up (Termination violated)")
    if not q:
        ck.model("ThreadPool-A-spurious-wakeups", "MCThreadPool.tla", "MCThreadPool_A_spurious.cfg", expect="violation",
                 note="documented limit, outside the property's assumptions: if cv.wait may return spuriously the pause handshake can hang (no predicate loop around the wait)")
        ck.model("ThreadPool-B-3workers-resizes", "MCThreadPool.tla", "MCThreadPool_B.cfg", note=note, timeout=3000)
        ck.model("ThreadPool-D-initial-size-10", "MCThreadPool.tla", "MCThreadPool_D.cfg", note=note, timeout=3000)
        ck.model("ThreadPool-F-4workers", "MCThreadPool.tla", "MCThreadPool_F.cfg", note=note, timeout=6000, xmx="24g")
    ck.traces(list(cp.pool_cases(ck.seed + 11, 150 if q else 3000, "C11")) + list(cp.lost_wakeup_cases("C11")), [], tag="c11",
              spec=POOL_SPEC, diag=False, timeout_ms=20000, sample_events=("PoolNew", "g"))
    if q and ck.violations:
        return      # the quick tier stops at the first stage that finds violations
    # run-time observer of the happens-before relation: the same programs free-running under
    # ThreadSanitizer (a race report or a hang ends the execution: NoReturn, rejected)
    ck.traces(list(cp.pool_cases(ck.seed + 12, 40 if q else 600, "C11tsan", ctrl=0)), [], tag="c11tsan", flavor="tsan",
              build=TSAN_POOL_BUILD, env=TSAN_ENV, spec=("PoolFree.tla", "PoolFree.cfg"), diag=False, timeout_ms=20000,
              sample_events=("PoolNew", "cb"), nproc=8)


TSAN_FLOW_BUILD = dict(sources=["main.cpp", "pool_driver.cpp", "stubs.cpp", "stubs_flow.cpp", "flow_mesh.cpp", "flow_queen_nc.cpp"],
                       name="fsl_harness_flow_tsan")


def plan_C10(ck):
    q = ck.tier == "quick"
    note = "block dispatch of the parallel router (fill/read/write of the neighbour scratch per node) and level loop of apply_kernel_par, every interleaving: result = sequential result, kernel exactly once per node after all its receivers, termination"
    ck.model("ParDispatch-2workers-6nodes", "MCParDispatch.tla", "MCParDispatch_ok2.cfg", note=note, workers=8,
             required_actions=("Fill", "Read", "Write", "RouteDone", "Kernel", "NextLevel", "KernelDone"))
    ck.model("ParDispatch-3workers-7nodes-minlevel", "MCParDispatch.tla", "MCParDispatch_ok3.cfg", note=note, workers=8)
    ck.model("ParDispatch-shared-scratch", "MCParDispatch.tla", "MCParDispatch_shared.cfg", expect="violation", workers=8,
             note="negative control: one scratch cell shared by the workers (cache-less grid defect) gives wrong receivers in some interleaving")
    ck.model("ParDispatch-no-barrier", "MCParDispatch.tla", "MCParDispatch_nobarrier.cfg", expect="violation", workers=8,
             note="negative control: without the wait between levels a kernel call can precede one of its receivers")
    ck.traces(cf.parallel_cases(ck.seed + 10, 120 if q else 2500, 4 if q else 6, "C10"), ["C10"], tag="c10",
              nontrivial=cf.nontrivial_world, timeout_ms=30000)
    ck.traces(cf.parallel_cases(ck.seed + 110, 30 if q else 400, 5, "C10big", big=True), ["C10"], tag="c10big",
              nontrivial=cf.nontrivial_world, timeout_ms=60000)
    if q and ck.violations:
        return
    # kernels on graphs no grid router produces (every forest / DAG of 4 nodes enumerated by TLC, random 9-node
    # DAGs), installed by a user-defined router; 1..7 kernel threads, minimum block sizes 0..5
    sweeps_stage(ck, ["C10"], "c10inj", (), kthr=(1, 2, 3, 5, 7), kmin=(0, 1, 2, 5))
    if q and ck.violations:
        return
    # the same kind of cases with every interleaving decision taken by the harness' scheduler
    stats = os.path.join(ck.workdir, "ctl-stats.ndjson")
    ck.traces(cf.controlled(cf.parallel_cases(ck.seed + 310, 40 if q else 1200, 4, "C10ctl", par_kernels_on_seq=0.7), ck.seed + 311), ["C10"],
              tag="c10ctl", nontrivial=cf.nontrivial_world, timeout_ms=120000, env={"FSL_CTL_STATS": stats})
    try:
        st = [json.loads(l) for l in open(stats)]
    except OSError:
        st = []
    ck.ev.cov["controlled_executions"] = len(st)
    ck.ev.cov["controlled_schedule_points"] = sum(x["grants"] for x in st)
    ck.ev.cov["controlled_points_inside_work_items"] = sum(x["inner"] for x in st)
    ck.ev.cov["controlled_points_inside_kernels"] = sum(x.get("kernel", 0) for x in st)
    if not st or sum(x["inner"] for x in st) == 0:
        raise vlib.MachineryError("controlled flow executions recorded no schedule point inside a work item (hooks not compiled in?)")
    if q and ck.violations:
        return
    # happens-before observer on the grids whose neighbour look-up goes through a scratch buffer
    ck.traces(cf.parallel_cases(ck.seed + 210, 24 if q else 300, 4, "C10tsan", kinds=["raster_nc", "mesh"]), ["C10"],
              tag="c10tsan", flavor="tsan", build=TSAN_FLOW_BUILD, env=TSAN_ENV, timeout_ms=120000, nproc=8,
              nontrivial=cf.nontrivial_world)


def plan_C12(ck):
    q = ck.tier == "quick"
    ck.model("SPLSweep-4nodes" if q else "SPLSweep-5nodes", "SPLSweep.tla", "MCSPLSweep_quick.cfg" if q else "MCSPLSweep_5.cfg",
             workers=16, timeout=3000, xmx="16g",
             note="L2 bottom-up sweep {terminal, lake, solved, limited} with the solver abstracted to ANY outcome: every final state satisfies FlowContract!SplTerminalsZero / SplLakesZero / SplNoReversal, on every DAG with <= 2 receivers per node")
    ck.traces(cs.spl_contract_cases(ck.seed + 12, 150 if q else 4000, 5 if q else 7, "C12"), ["C12"], tag="c12",
              nontrivial=cf.nontrivial_world, sample_events=("Spl",))


def plan_C13(ck):
    q = ck.tier == "quick"
    ck.traces(cs.spl_exact_cases(ck.seed + 13, 300 if q else 6000, "C13"), ["C13"], tag="c13", sample_events=("Spl",))


def plan_C20(ck):
    """TLC checks Add-fold == declarative Valid on every sequence, writes the enumeration out; every
    sequence is then given to the real constructor on three grid types (B1) and validated (B2)."""
    import random
    q = ck.tier == "quick"
    out = os.path.join(ck.workdir, "opseqs.ndjson")
    r = vlib.run_tlc("MCOperatorSeq.tla", "MCOperatorSeq_quick.cfg" if q else "MCOperatorSeq_4.cfg", env={"OPSEQ_OUT": out},
                     workers=4, timeout=1500)
    ck.ev.add_model("OperatorSeq-Add-refines-Valid", r, "ASSUME AllRefine over every sequence of bounded length (8 operator kinds); sequences written out for replay")
    if r.error is not None:
        if "Assumption" in r.out:
            ck.report(conjunct="model:OperatorSeq:AddRefinesValid", case_id="model:OperatorSeq", case=dict(kind="model", model="OperatorSeq"))
            return
        raise vlib.MachineryError("MCOperatorSeq failed:\n" + (r.error_text or r.out[-2000:]))
    if not q:
        r5 = ck.model("OperatorSeq-length-5", "MCOperatorSeq.tla", "MCOperatorSeq_5.cfg", workers=4, coverage=False,
                      note="the same refinement on all 37 448 sequences of length <= 5 (model checking only)")
    seqs = [json.loads(l)["ops"] for l in open(out)]
    ck.ev.cov["sequences_enumerated"] = len(seqs)
    ck.ev.cov["exhaustive"] = True
    rng = random.Random(ck.seed + 20)
    grids = [gen.profile(4, [gen.FV, gen.CORE]), gen.raster(3, 3, "queen", [gen.FV, gen.CORE, gen.FG, gen.CORE]),
             gen.lattice_mesh(random.Random(3), 2, 1)]
    cases = []
    for gi, g in enumerate(grids):
        n = gen.grid_size(g)
        for i in range(0, len(seqs), 40):
            steps = []
            for k, ops in enumerate(seqs[i:i + 40]):
                steps.append(dict(op="new", g=k, ops=ops))
                # "update" / "drop" on a graph that could not be built are skipped by the harness
                steps.append(dict(op="update", g=k, z=dict(k="int", m=[rng.randrange(4) for _ in range(n)], e=0), opt=1))
                steps.append(dict(op="drop", g=k, opt=1))
            cases.append(gen.flow_case("C20-%d-%d" % (gi, i), g, steps, timeout_ms=60000))
    ck.traces(cases, ["C20"], tag="c20", sample_events=("New",))


def union_find_replay(ck):
    """The structure Kruskal's tree construction relies on.  TLC checks that the L2 forest (union by rank,
    path compression, resize/clear/push_back as coded) refines the L1 partition on every reachable state with
    at most MaxN elements and prints every transition with a shortest history; every transition is replayed
    through the real class and the recorded observations are validated against L1 by UFTrace."""
    import checks_uf as cu
    q = ck.tier == "quick"
    r = ck.model("UnionFind-4-elements", "MCUnionFind.tla", "MCUnionFind_quick.cfg",
                 workers=1, timeout=3000, required_actions=("MCFind", "MCMerge", "MCClear", "MCResize", "MCPush"),
                 note="L2 parent/rank forest refines the L1 partition: TypeOK, Acyclic, RefinesPartition, ClassesArePartition, HeightBound on the complete state graph; every transition printed for replay")
    if r.error is not None:
        return
    cases = list(cu.cases_from_tlc_output(r.out, "uf-tlc", sample=8000 if q else None, seed=ck.seed))
    n_tr = sum(len(c["seqs"]) for c in cases)
    ck.ev.cov["union_find_transitions_replayed"] = n_tr
    if n_tr == 0:
        raise vlib.MachineryError("MCUnionFind printed no transition")
    if not q:
        ck.model("UnionFind-5-elements", "MCUnionFind.tla", "MCUnionFind_5.cfg", workers=8, timeout=3000, coverage=False,
                 note="the same invariants on the complete state graph for at most 5 elements (model checking only)")
        ck.model("UnionFind-rank-log-bound", "MCUnionFind.tla", "MCUnionFind_ranklog.cfg", workers=4, expect="violation",
                 note="reference only: 2^rank <= class size is NOT an invariant of the code because resize() keeps stale ranks (performance, not correctness)")
    cases += list(cu.random_cases(ck.seed + 150, 400 if q else 20000, "uf-rnd"))
    ck.traces(cases, [], tag="uf", spec=("UFTrace.tla", "UFTrace.cfg"), sample_events=("UF",), timeout_ms=60000)


def boruvka_models(ck):
    """L2 transcription of compute_tree_boruvka (work lists, collapse, bucket clean-up, in-place compaction)
    on graph families that keep two nodes in the large-degree list, for every weight assignment."""
    q = ck.tier == "quick"
    note = "L2 Boruvka as coded: TypeOK (compaction never writes past the list, tree never exceeds its reservation), Acyclic at every step, NothingForgotten (a live node with live neighbours is always in a work list), Result (spanning forest + cycle property) and Termination, for every assignment of the weight levels"
    ck.model("Boruvka-two-hubs" + ("-2levels" if q else "-3levels"), "MCBoruvka.tla", "Boruvka_twohub_q.cfg" if q else "Boruvka_twohub.cfg",
             note=note, workers=16, timeout=3000, required_actions=("LowStep", "EndLow", "CleanStep", "EndClean"))
    for v, what in (("no_increment", "the compaction counter is not advanced"), ("cleared", "the large-degree list is cleared after the clean-up"),
                    ("inverted", "the keep-condition of the compaction is inverted")):
        ck.model("Boruvka-two-hubs-" + v, "MCBoruvka.tla", "Boruvka_twohub_%s_q.cfg" % v, expect="violation", workers=8,
                 note="negative control (a seeded change of round 4): " + what + " - a hub that is still large is forgotten")
    if not q:
        ck.model("Boruvka-wheel", "MCBoruvka.tla", "Boruvka_wheel.cfg", note=note, workers=16, timeout=3000)
        ck.model("Boruvka-forest-with-isolated-node", "MCBoruvka.tla", "Boruvka_forest.cfg", note=note, workers=8)
        ck.model("Boruvka-K4-degree-assumption", "MCBoruvka.tla", "Boruvka_k4.cfg", expect="violation", workers=4,
                 note="negative control for the algorithm's documented assumption (some live node always has at most MaxLow neighbours): on K4 with bound 2 nothing is ever processed and the tree stays empty")


def plan_C15(ck):
    q = ck.tier == "quick"
    boruvka_models(ck)
    union_find_replay(ck)
    if q and ck.violations:
        return
    basin_models(ck, "L2 basin graph: TreeMinimal (spanning forest + cycle property) for every order of tied edges and every choice among equally low passes")
    ck.traces(cf.basin_graph_cases(ck.seed + 15, 150 if q else 4000, 5 if q else 7, "C15", high_degree=12 if q else 150), ["C15"],
              tag="c15", nontrivial=cf.nontrivial_world, sample_events=("BasinGraph",))
    if q and ck.violations:
        return
    hub_stage(ck, "C15", bgraph=True, routers=False)
    # an inner basin with 70..200 neighbour basins followed by further inner basins along the same border
    ck.traces(cf.long_lake_cases(ck.seed + 415, 6 if q else 120, "C15lake"), ["C15"], tag="c15lake", nontrivial=lambda c: True,
              timeout_ms=60000, sample_events=("BasinGraph",))
    lowest_probe_stage(ck, "C15")


def plan_C14(ck):
    q = ck.tier == "quick"
    ck.traces(ca.adi_cases(ck.seed + 14, 400 if q else 10000, "C14", max_side=6 if q else 8), [], tag="c14",
              spec=("ADITrace.tla", "ADITrace.cfg"), sample_events=("Adi",))


GRID_SPEC = ("GridTrace.tla", "GridTrace.cfg")


def grid_models(ck):
    ck.model("Grid-spec-theorems", "MCGrid.tla", "MCGrid_quick.cfg" if ck.tier == "quick" else "MCGrid_4.cfg", workers=16, timeout=3000,
             coverage=False,
             note="spec-level theorems on every raster (3 connectivities x 4^4 border combinations x shapes x spacings) and profile descriptor of the bounded family: neighbour relation symmetric, degree by position, one-step distances, no long jumps without looped borders; status laws (corner precedence), filtered iteration partitions the nodes in increasing order, accepted iff looped borders are paired")


def plan_C07(ck):
    grid_models(ck)
    ck.traces(cg.neighbourhood_cases(ck.seed + 7, ck.tier, "C07"), ["C07"], tag="c07", spec=GRID_SPEC, sample_events=("Q",))
    ck.ev.cov["exhaustive"] = True
    if ck.tier == "quick" and ck.violations:
        return
    # grids of 260 000+ nodes, accessors queried at sampled nodes (cache capacity / index arithmetic thresholds)
    ck.traces(cg.big_cases(ck.seed + 407, 2 if ck.tier == "quick" else 16, "C07big", routes=False), ["C07"], tag="c07big",
              spec=BIG_SPEC, sample_events=("BigQ",), timeout_ms=120000)


def plan_C17(ck):
    grid_models(ck)
    ck.traces(cg.status_cases(ck.seed + 17, ck.tier, "C17"), ["C17"], tag="c17", spec=GRID_SPEC, sample_events=("GridNew",))
    ck.traces(cg.base_level_cases(ck.seed + 117, 60 if ck.tier == "quick" else 1500, "C17bl"), ["C17"], tag="c17bl",
              sample_events=("New",))
    ck.ev.cov["exhaustive"] = True


def plan_C18(ck):
    q = ck.tier == "quick"
    ck.traces(cg.mesh_cases(ck.seed + 18, 200 if q else 5000, "C18"), ["C18"], tag="c18", spec=GRID_SPEC, sample_events=("GridNew",))


PLANS = {"C14": plan_C14, "C15": plan_C15, "C20": plan_C20, "C07": plan_C07, "C17": plan_C17, "C18": plan_C18, "C12": plan_C12, "C13": plan_C13, "C10": plan_C10, "C11": plan_C11, "C09": plan_C09, "C16": plan_C16, "C01": plan_C01, "C02": plan_C02, "C03": plan_C03, "C04": plan_C04, "C05": plan_C05, "C06": plan_C06,
         "C19": plan_C19}


def run(prop, tier, seed):
    if prop not in PLANS:
        raise vlib.MachineryError("no plan for " + prop)
    ck = Check(prop, tier, seed)
    PLANS[prop](ck)
    return ck.finish()


def replay(prop, path):
    """Re-executes recorded case(s) in the real code and re-validates them with TLC against the
    specification the case belongs to (all contracts of the property enabled, diagnosis on failure)."""
    if not path.endswith(".ndjson"):
        print(open(path).read()[-6000:])       # a model-checking counterexample: TLC's own trace
        print("VIOLATION property=%s replay=%s" % (prop, path))
        return 1
    ck = Check(prop, "quick", 0)
    ck.is_replay = True
    cases = [json.loads(l) for l in open(path) if l.strip()]
    by_kind = {}
    for c in cases:
        k = c.get("kind", "flow")
        if k == "pool":
            k = "blocks" if "blocks" in c else ("pool" if c.get("ctrl", 1) else "poolfree")
        by_kind.setdefault(k, []).append(c)
    for k, cs in by_kind.items():
        if k == "flow":
            ck.traces(cs, [prop], tag="replay")
        elif k == "grid":
            ck.traces(cs, ["C07", "C17", "C18"], tag="replay", spec=GRID_SPEC, sample_events=("Q",))
        elif k == "adi":
            ck.traces(cs, [], tag="replay", spec=("ADITrace.tla", "ADITrace.cfg"), sample_events=("Adi",))
        elif k == "pool":
            ck.traces(cs, [], tag="replay", spec=POOL_SPEC, diag=False, timeout_ms=20000, sample_events=("PoolNew",))
        elif k == "poolfree":
            ck.traces(cs, [], tag="replay", flavor="tsan", build=TSAN_POOL_BUILD, env=TSAN_ENV,
                      spec=("PoolFree.tla", "PoolFree.cfg"), diag=False, timeout_ms=20000, sample_events=("PoolNew",))
        elif k == "blocks":
            ck.traces(cs, [], tag="replay", spec=("BlocksTrace.tla", "BlocksTrace.cfg"), sample_events=("Blocks",))
    return ck.finish()
