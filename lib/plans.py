"""Per-property plans: which models are checked and which behaviours are replayed / validated."""
import json
import os

import checks_flow as cf
import gen
import vlib
from runner import Check


def pflood_models(ck, invariant_note):
    ck.model("PFlood-2x3-queen", "MCPFlood.tla", "MCPFlood_quick.cfg", note=invariant_note)
    ck.model("PFlood-profile5", "MCPFlood.tla", "MCPFlood_p5.cfg", note=invariant_note)
    if ck.tier == "thorough":
        ck.model("PFlood-3x3-queen", "MCPFlood.tla", "MCPFlood_q33.cfg", note=invariant_note, timeout=3000)
        ck.model("PFlood-3x3-rook-looped-masked", "MCPFlood.tla", "MCPFlood_r33.cfg", note=invariant_note, timeout=3000)


def plan_C01(ck):
    q = ck.tier == "quick"
    pflood_models(ck, "L2 priority flood, all queue tie-breaks: terminal states satisfy Drains (every node connected to a base level keeps a strictly lower unmasked neighbour) and FlowContract!C02")
    ck.traces(cf.resolver_cases(ck.seed, 150 if q else 4000, 5 if q else 8, "C01"), ["C01"], tag="c01",
              nontrivial=cf.nontrivial_world)


def plan_C02(ck):
    q = ck.tier == "quick"
    pflood_models(ck, "L2 priority flood refines FlowContract!C02 (spill level + at most N increments, fixed nodes untouched) for every field over the levels, every tie-break")
    ck.traces(cf.resolver_cases(ck.seed + 1, 150 if q else 4000, 5 if q else 8, "C02"), ["C02"], tag="c02",
              nontrivial=cf.nontrivial_world)


def plan_C04(ck):
    q = ck.tier == "quick"
    ck.traces(cf.router_cases(ck.seed + 4, 300 if q else 8000, 5 if q else 8, "C04"), ["C04"], tag="c04",
              nontrivial=cf.nontrivial_world)


def plan_C05(ck):
    q = ck.tier == "quick"
    ck.traces(cf.router_cases(ck.seed + 5, 200 if q else 6000, 5 if q else 7, "C05", multi=True), ["C05"], tag="c05",
              nontrivial=cf.nontrivial_world)


def plan_C06(ck):
    q = ck.tier == "quick"
    ck.traces(cf.state_cases(ck.seed + 6, 150 if q else 4000, 5 if q else 8, "C06"), ["C06"], tag="c06",
              nontrivial=cf.nontrivial_world)


def plan_C19(ck):
    q = ck.tier == "quick"
    ck.traces(cf.state_cases(ck.seed + 19, 150 if q else 4000, 5 if q else 8, "C19", extra="basins"), ["C19"], tag="c19",
              nontrivial=cf.nontrivial_world)


def plan_C03(ck):
    q = ck.tier == "quick"
    ck.traces(cf.state_cases(ck.seed + 3, 120 if q else 3000, 4 if q else 6, "C03", extra="acc"), ["C03"], tag="c03",
              nontrivial=cf.nontrivial_world)


def plan_C09(ck):
    q = ck.tier == "quick"
    ck.model("PFloodTwice-total-order", "MCPFloodTwice.tla", "MCPFloodTwice_total.cfg", workers=8,
             note="two runs with independent queue tie-breaks give the same surface when the heap order is total")
    ck.model("PFloodTwice-elevation-only-order", "MCPFloodTwice.tla", "MCPFloodTwice_ties.cfg", workers=8, expect="violation",
             note="negative control: with an elevation-only heap order TLC finds two runs that differ (history dependence)")
    ck.traces(cf.history_cases(ck.seed + 9, 150 if q else 4000, 5 if q else 7, "C09"), ["C09"], tag="c09",
              nontrivial=cf.nontrivial_world)


def plan_C16(ck):
    q = ck.tier == "quick"
    ck.traces(cf.snapshot_cases(ck.seed + 16, 100 if q else 3000, 4 if q else 6, "C16"), ["C16"], tag="c16",
              nontrivial=cf.nontrivial_world)


PLANS = {"C09": plan_C09, "C16": plan_C16, "C01": plan_C01, "C02": plan_C02, "C03": plan_C03, "C04": plan_C04, "C05": plan_C05, "C06": plan_C06,
         "C19": plan_C19}


def run(prop, tier, seed):
    if prop not in PLANS:
        raise vlib.MachineryError("no plan for " + prop)
    ck = Check(prop, tier, seed)
    PLANS[prop](ck)
    return ck.finish()


def replay(prop, path):
    """Re-executes recorded case(s) in the real code and re-validates with every contract named."""
    ck = Check(prop, "quick", 0)
    cases = [json.loads(l) for l in open(path) if l.strip()]
    ck.traces(cases, [prop], tag="replay")
    return ck.finish()
