----------------------------- MODULE BlocksTrace -----------------------------
(* B1: every tuple (first, last, n, min) enumerated by TLC from the Blocks  *)
(* specification is replayed through the real thread_pool<T>::blocks class; *)
(* the recorded num_blocks / start / end are checked against the L1         *)
(* partition property and against the L2 transcription.                     *)
EXTENDS Blocks, Json, IOUtils, TLC
ASSUME TLCSet(7, ndJsonDeserialize(IOEnv.TRACE))
Log == TLCGet(7)
Diag == IOEnv.DIAG = "1"
VARIABLE l
Chk(name, line, val) == IF Diag THEN (IF val THEN TRUE ELSE PrintT(<<"FAILED", name, "line", line>>)) ELSE val
PartitionObserved(e) ==
  IF e.last <= e.first THEN e.nb = 0
  ELSE /\ e.nb >= 1 /\ e.nb <= e.n /\ Len(e.starts) = e.nb /\ Len(e.ends) = e.nb
       /\ e.starts[1] = e.first /\ e.ends[e.nb] = e.last
       /\ \A k \in 1..e.nb : e.starts[k] < e.ends[k]
       /\ \A k \in 1..(e.nb - 1) : e.ends[k] = e.starts[k + 1]
MatchesModel(e) ==
  LET b == BlockDesc(e.first, e.last, e.n, e.min) IN
  /\ e.nb = b.nb
  /\ \A k \in 1..b.nb : e.starts[k] = BStart(b, k - 1) /\ e.ends[k] = BEnd(b, k - 1)
BNext == /\ l <= Len(Log)
         /\ \/ Log[l].e = "Reset"
            \/ /\ Log[l].e = "Blocks"
               /\ Chk("C11.Blocks.Partition", l, PartitionObserved(Log[l]))
               /\ Chk("C11.Blocks.MatchesModel", l, MatchesModel(Log[l]))
         /\ l' = l + 1
BSpec == l = 1 /\ [][BNext]_l
BAccepted == IF TLCGet("stats").diameter - 1 = Len(Log) THEN TRUE
             ELSE PrintT(<<"REJECTED at line", TLCGet("stats").diameter, "of", Len(Log)>>) /\ FALSE
=============================================================================
