----------------------------- MODULE GridTrace -----------------------------
(* Trace validation of the real grid classes against the Grid specification *)
(* (C07, C17, C18).  The specification of a grid has no hidden state: every *)
(* query is answered from the descriptor alone, so any history of queries   *)
(* (cache enabled or not, any order) must give the geometric answer.        *)
EXTENDS Grid, Json, IOUtils

ASSUME TLCSet(7, ndJsonDeserialize(IOEnv.TRACE))
Log == TLCGet(7)
Diag == IOEnv.DIAG = "1"
Has(c) == CASE c = "C07" -> IOEnv.CHK_C07 = "1" [] c = "C17" -> IOEnv.CHK_C17 = "1" [] c = "C18" -> IOEnv.CHK_C18 = "1" [] OTHER -> FALSE
Chk(name, line, val) == IF Diag THEN (IF val THEN TRUE ELSE PrintT(<<"FAILED", name, "line", line>>)) ELSE val

VARIABLES l, gd, gd2
gvars == <<l, gd, gd2>>
NoGrid == [t |-> "none"]
E == Log[l]
Is(e) == l <= Len(Log) /\ E.e = e
Adv == l' = l + 1

StSeq(d) == [i \in 1..Size(d) |-> StatusArray(d)[i - 1]]

\* ---- triangular mesh areas (C18): circumcentric shares, exact rationals compared in Q(12)
IncidentTris(d, i) == {k \in DOMAIN d.tri : i \in {d.tri[k][1], d.tri[k][2], d.tri[k][3]}}
VertexNo(t, i) == CHOOSE v \in 1..3 : t[v] = i
\* floor(share * 2^12) of triangle k for node i (each term is within one unit of the exact value)
ShareQ(d, k, i) == (TriShareNum(d, d.tri[k], VertexNo(d.tri[k], i)) * 4096) \div (16 * TriTwiceArea(d, d.tri[k]))
AreaQ(d, i) == SumOver([k \in IncidentTris(d, i) |-> ShareQ(d, k, i)], IncidentTris(d, i))
MeshAreasOK(d, aq) ==
  \A i \in Nodes(d) : IncidentTris(d, i) # {} => Abs(At(aq, i) - AreaQ(d, i)) <= Cardinality(IncidentTris(d, i)) + 2
MeshAreaSumOK(d, aq) ==
  LET tot == SumOver([k \in DOMAIN d.tri |-> TriTwiceArea(d, d.tri[k]) * 2048], DOMAIN d.tri)
      got == SumSeq([i \in 1..Size(d) |-> IF IncidentTris(d, i - 1) # {} THEN aq[i] ELSE 0])
  IN Abs(got - tot) <= Size(d) + 2
MeshNoDuplicates(d) == \A i \in Nodes(d) : LET s == MeshNeighSeq(d, i) IN
                          \A a, b \in DOMAIN s : a # b => s[a].j # s[b].j

TReset == Is("Reset") /\ gd' = NoGrid /\ gd2' = NoGrid /\ Adv
TGridNew ==
  /\ Is("GridNew")
  /\ LET d == E.d
         acc == GridAccepted(d)
     IN /\ Has("C17") => /\ Chk("C17.AcceptedIffAdmissible", l, (E.threw = "") = acc)
                         /\ Chk("C17.AcceptedIffAdmissible.NoCache", l, (E.threw_nc = "") = acc)
        /\ (E.threw = "" /\ acc) =>
             /\ Has("C17") => /\ Chk("C17.StatusArray", l, E.st = StSeq(d) /\ E.n = Size(d))
                              /\ Chk("C17.StatusArray.NoCache", l, E.st_nc = StSeq(d))
             \* (theorems about the specification itself: evaluated on the small grids of the complete
             \* enumeration, not again on the wide ones)
             /\ (Has("C07") /\ Size(d) <= 40) =>
                              /\ Chk("C07.SpecSymmetric", l, NeighSymmetric(d))
                              /\ (d.t = "raster") => Chk("C07.DegreeTable", l, \A i \in Nodes(d) : Len(NeighSeq(d, i)) = RasterDegree(d, i))
             /\ (Has("C18") /\ d.t = "mesh") =>
                   /\ Chk("C18.SpecSymmetricNoDuplicates", l, NeighSymmetric(d) /\ MeshNoDuplicates(d))
                   /\ Chk("C18.BoundaryIsFixedValue", l, (MeshStatusMode(d) = "default") =>
                            \A i \in Nodes(d) : (At(E.st, i) = FIXED_VALUE) = (i \in MeshBoundary(d)))
                   /\ Chk("C18.AreasFinite", l, \A i \in Nodes(d) : At(E.acls, i) = 0)
                   /\ Chk("C18.NodeAreas", l, MeshAreasOK(d, E.aq))
                   /\ Chk("C18.AreasSumToTriangles", l, MeshAreaSumOK(d, E.aq))
        \* a grid that was built is followed through the rest of its history even if the
        \* specification says it should have been refused (already reported above)
        /\ gd' = IF E.threw = "" THEN [t |-> "grid", d |-> d, nb |-> NeighTable(d), st |-> StatusArray(d)] ELSE NoGrid
  /\ UNCHANGED gd2 /\ Adv
\* a second, cache-less grid of the same type living next to the first one (another geometry)
TGridNew2 == /\ Is("GridNew2")
             /\ gd2' = [t |-> "grid", d |-> E.d, nb |-> NeighTable(E.d), st |-> StatusArray(E.d)]
             /\ UNCHANGED gd /\ Adv

TIter ==
  /\ Is("Iter") /\ gd # NoGrid
  /\ LET exp == IF E.st < 0 THEN SortedSeq(Nodes(gd.d)) ELSE FilteredSeq(gd.d, E.st) IN
     Has("C17") => /\ Chk("C17.IterationForward", l, E.fwd = exp)
                   /\ Chk("C17.IterationReverse", l, E.rev = Reverse(exp))
  /\ UNCHANGED <<gd, gd2>> /\ Adv

\* expected answers (as bags)
ExpIdx(G, i) == BagOfSeq([k \in DOMAIN G.nb[i] |-> G.nb[i][k].j])
ExpDist(G, i) == BagOfSeq([k \in DOMAIN G.nb[i] |-> G.nb[i][k].dsq])
ExpNb(G, i) == BagOfSeq([k \in DOMAIN G.nb[i] |-> <<G.nb[i][k].j, G.nb[i][k].dsq, G.st[G.nb[i][k].j]>>])
ExpRcIdx(G, i) == BagOfSeq([k \in DOMAIN G.nb[i] |-> <<G.nb[i][k].j \div G.d.nc, G.nb[i][k].j % G.d.nc>>])
ExpRcNb(G, i) == BagOfSeq([k \in DOMAIN G.nb[i] |-> <<G.nb[i][k].j, G.nb[i][k].j \div G.d.nc, G.nb[i][k].j % G.d.nc, G.nb[i][k].dsq, G.st[G.nb[i][k].j]>>])
HasF(f) == f \in DOMAIN E

TQ ==
  /\ Is("Q") /\ (IF E.inst = 2 THEN gd2 ELSE gd) # NoGrid /\ E.i \in Nodes((IF E.inst = 2 THEN gd2 ELSE gd).d)
  /\ LET i == E.i
         G == IF E.inst = 2 THEN gd2 ELSE gd IN
     (Has("C07") \/ Has("C18")) =>
       /\ HasF("count") => Chk("C07.Count", l, E.count = Len(G.nb[i]))
       /\ HasF("indices") => Chk("C07.Indices", l, BagOfSeq(E.indices) = ExpIdx(G, i))
       /\ HasF("indices_buf") => Chk("C07.IndicesBuffer", l, BagOfSeq(E.indices_buf) = ExpIdx(G, i))
       /\ HasF("distances") => Chk("C07.Distances", l, BagOfSeq(E.distances) = ExpDist(G, i))
       /\ HasF("neighbors") => Chk("C07.NeighborStructs", l, BagOfSeq(E.neighbors) = ExpNb(G, i))
       /\ HasF("neighbors_buf") => Chk("C07.NeighborStructsBuffer", l, BagOfSeq(E.neighbors_buf) = ExpNb(G, i))
       /\ HasF("rc_indices") => Chk("C07.RowColIndices", l, BagOfSeq(E.rc_indices) = ExpRcIdx(G, i))
       /\ HasF("rc_neighbors") => Chk("C07.RowColNeighbors", l, BagOfSeq(E.rc_neighbors) = ExpRcNb(G, i))
       \* all accessors asked at once: they must agree position by position
       /\ E.acc = "all" =>
            /\ Chk("C07.AccessorsAgree", l,
                   /\ E.indices_buf = E.indices /\ E.neighbors_buf = E.neighbors
                   /\ Len(E.indices) = E.count /\ Len(E.distances) = E.count /\ Len(E.neighbors) = E.count
                   /\ \A k \in DOMAIN E.neighbors : E.neighbors[k][1] = E.indices[k] /\ E.neighbors[k][2] = E.distances[k])
            /\ HasF("rc_neighbors") => Chk("C07.RowColAccessorsAgree", l,
                   /\ Len(E.rc_indices) = E.count /\ Len(E.rc_neighbors) = E.count
                   /\ \A k \in DOMAIN E.rc_neighbors :
                        /\ E.rc_neighbors[k][1] = E.indices[k]
                        /\ <<E.rc_neighbors[k][2], E.rc_neighbors[k][3]>> = E.rc_indices[k]
                        /\ E.rc_neighbors[k][4] = E.distances[k] /\ E.rc_neighbors[k][5] = E.neighbors[k][3])
  /\ UNCHANGED <<gd, gd2>> /\ Adv

GInit == l = 1 /\ gd = NoGrid /\ gd2 = NoGrid
GNext == TReset \/ TGridNew \/ TGridNew2 \/ TIter \/ TQ
GSpec == GInit /\ [][GNext]_gvars
GAccepted == IF TLCGet("stats").diameter - 1 = Len(Log) THEN TRUE
             ELSE PrintT(<<"REJECTED at line", TLCGet("stats").diameter, "of", Len(Log)>>) /\ FALSE
=============================================================================
