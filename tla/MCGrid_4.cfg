CONSTANTS
  MaxSide = 4
SPECIFICATION Spec
INVARIANTS AcceptedIffPaired Neighbourhoods StatusLaws
CHECK_DEADLOCK FALSE
