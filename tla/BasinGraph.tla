----------------------------- MODULE BasinGraph -----------------------------
(* L2 model of the spanning-tree sink resolver (mst_sink_resolver +          *)
(* basin_graph): single-direction routing, basins, lowest passes between     *)
(* adjacent basins, minimum spanning tree (Kruskal: repeatedly ANY lightest  *)
(* edge joining two components - covers every sort order of tied weights),   *)
(* orientation from the root (and from any basin not connected to it),       *)
(* re-routing of every inner basin's pit (basic or carve), tilting of the    *)
(* surface along the new receivers (fill_sinks_sloped).                      *)
(*                                                                           *)
(* Elevations are integers level * (N + 1): nextafter is "+ 1".              *)
(* Nondeterminism = exactly the choices the code leaves to scan / sort order:*)
(* which of several equally low passes is kept, the order of tied edges, the *)
(* root among the outer basins, the start basin of a component without base  *)
(* level.  TLC checks that EVERY resulting state satisfies the L1 contracts  *)
(* used for trace validation: FlowContract!C01, C02, C06Dfs and the C15      *)
(* tree properties.                                                          *)
EXTENDS Grid, FlowContract

CONSTANTS D, Levels, Masks, BLSets, Method     \* Method in {"basic", "carve"}

N == Size(D)
NodeSet == Nodes(D)
NB == NeighTable(D)
K == N + 1
NONE == 0 - 1

VARIABLES zin, mask, bl,        \* the world
          pc, z, rec,           \* current elevation and receivers
          edges, tree, cons, root, parent, todo
bvars == <<zin, mask, bl, pc, z, rec, edges, tree, cons, root, parent, todo>>

\* ---- single-direction routing on elevation e (steepest strictly lower unmasked neighbour,
\*      exact comparison of drop^2 / dsq; the first maximal one in grid order)
RECURSIVE Scan(_, _, _, _)
Scan(e, i, k, best) ==
  IF k > Len(NB[i]) THEN best
  ELSE LET n == NB[i][k]
           drop == e[i] - e[n.j]
       IN IF n.j \in mask \/ drop <= 0 THEN Scan(e, i, k + 1, best)
          ELSE IF best[1] = i \/ drop * drop * best[2] > best[3] * best[3] * n.dsq
                 THEN Scan(e, i, k + 1, <<n.j, n.dsq, drop>>)
                 ELSE Scan(e, i, k + 1, best)
RouteOn(e) == [i \in NodeSet |-> IF i \in mask \/ i \in bl THEN i ELSE Scan(e, i, 1, <<i, 0, 0>>)[1]]

RECURSIVE OutletOf(_, _, _)
OutletOf(rc, i, k) == IF rc[i] = i \/ k = 0 THEN i ELSE OutletOf(rc, rc[i], k - 1)
Outlets(rc) == {i \in NodeSet \ mask : rc[i] = i}
Inner(o) == o \notin bl
BasinOf(rc, i) == OutletOf(rc, i, N)

\* ---- basin graph: candidate passes between two basins, lowest ones
UnmaskedNb(i) == {NB[i][k].j : k \in DOMAIN NB[i]} \ mask
PassesOf(rc, A, B) == {<<p, q>> \in (NodeSet \ mask) \X (NodeSet \ mask) :
                          BasinOf(rc, p) = A /\ BasinOf(rc, q) = B /\ q \in UnmaskedNb(p)}
PassW(e, pq) == Max2(e[pq[1]], e[pq[2]])
LowestPasses(e, rc, A, B) == LET P == PassesOf(rc, A, B)
                                 w == SetMin({PassW(e, pq) : pq \in P})
                             IN {pq \in P : PassW(e, pq) = w}
AdjacentPairs(rc) == {AB \in Outlets(rc) \X Outlets(rc) :
                         AB[1] < AB[2] /\ PassesOf(rc, AB[1], AB[2]) # {} /\ (Inner(AB[1]) \/ Inner(AB[2]))}

Init == /\ zin \in [NodeSet -> {lv * K : lv \in Levels}]
        /\ mask \in Masks /\ bl \in BLSets /\ bl \cap mask = {} /\ bl # {}
        /\ pc = "route" /\ z = zin /\ rec = [i \in NodeSet |-> i]
        /\ edges = {} /\ tree = {} /\ cons = {} /\ root = NONE /\ parent = [i \in {} |-> 0] /\ todo = <<>>

Route == /\ pc = "route" /\ rec' = RouteOn(z)
         /\ pc' = IF \E o \in Outlets(RouteOn(z)) : Inner(o) THEN "connect" ELSE "done"   \* no pit: nothing to resolve
         /\ UNCHANGED <<zin, mask, bl, z, edges, tree, cons, root, parent, todo>>

\* one edge per adjacent pair (any of the equally low passes, one pair per step), virtual edges
\* from the root (any outer basin) to the other outer basins
Connect ==
  /\ pc = "connect"
  /\ \E rt \in (IF \E o \in Outlets(rec) : ~Inner(o) THEN {o \in Outlets(rec) : ~Inner(o)} ELSE {NONE}) :
        /\ root' = rt
        /\ edges' = {[a |-> rt, b |-> o, pa |-> NONE, pb |-> NONE, w |-> NONE] : o \in {o \in Outlets(rec) : ~Inner(o) /\ o # rt}}
  /\ todo' = SetToSeq(AdjacentPairs(rec))
  /\ pc' = "passes" /\ tree' = {} /\ cons' = {}
  /\ UNCHANGED <<zin, mask, bl, z, rec, parent>>
Passes ==
  /\ pc = "passes"
  /\ IF todo = <<>> THEN pc' = "kruskal" /\ UNCHANGED <<edges, todo>>
     ELSE LET AB == Head(todo) IN
          \E pq \in LowestPasses(z, rec, AB[1], AB[2]) :
             /\ edges' = edges \cup {[a |-> AB[1], b |-> AB[2], pa |-> pq[1], pb |-> pq[2], w |-> PassW(z, pq)]}
             /\ todo' = Tail(todo) /\ UNCHANGED pc
  /\ UNCHANGED <<zin, mask, bl, z, rec, tree, cons, root, parent>>

\* ---- Kruskal with arbitrary order among tied edges
RECURSIVE CompOf(_, _, _)
CompOf(T, S, k) == LET S2 == S \cup UNION {{e.a, e.b} : e \in {e \in T : e.a \in S \/ e.b \in S}} IN
                   IF S2 = S \/ k = 0 THEN S ELSE CompOf(T, S2, k - 1)
Joined(T, x, y) == y \in CompOf(T, {x}, N)
Kruskal ==
  /\ pc = "kruskal"
  /\ IF cons = edges THEN pc' = "orient" /\ UNCHANGED <<tree, cons>>
     ELSE \E e \in edges \ cons :
            /\ \A f \in edges \ cons : e.w <= f.w
            /\ cons' = cons \cup {e}
            /\ tree' = IF Joined(tree, e.a, e.b) THEN tree ELSE tree \cup {e}
            /\ UNCHANGED pc
  /\ UNCHANGED <<zin, mask, bl, z, rec, edges, root, parent, todo>>

\* ---- orientation: parent of every basin (the root's and every start basin's parent is itself)
RECURSIVE Orientation(_, _, _)
Orientation(par, frontier, k) ==
  IF frontier = {} \/ k = 0 THEN par
  ELSE LET kids == {<<c, p>> \in Outlets(rec) \X frontier :
                      c \notin DOMAIN par /\ \E e \in tree : {e.a, e.b} = {c, p}}
           newp == [c \in {cp[1] : cp \in kids} |-> CHOOSE p \in frontier : <<c, p>> \in kids]
       IN Orientation(newp @@ par, DOMAIN newp, k - 1)
RECURSIVE OrientAll(_, _)
OrientAll(par, k) ==
  LET rest == Outlets(rec) \ DOMAIN par IN
  IF rest = {} \/ k = 0 THEN par
  ELSE LET s == SetMin(rest) IN OrientAll(Orientation((s :> s) @@ par, {s}, N), k - 1)   \* restart from an unvisited basin
Orient ==
  /\ pc = "orient"
  /\ parent' = IF root = NONE THEN OrientAll([i \in {} |-> 0], N)
               ELSE OrientAll(Orientation((root :> root), {root}, N), N)
  /\ todo' = SetToSeq({e \in tree : e.pa # NONE})
  /\ pc' = "reroute"
  /\ UNCHANGED <<zin, mask, bl, z, rec, edges, tree, cons, root>>

\* ---- re-routing of the child basin's pit, one tree edge per step
\* pass nodes seen from the tree orientation: "in" lies in the child basin, "out" in the parent's
EdgeChild(e) == IF parent[e.b] = e.a THEN e.b ELSE e.a
PassIn(e) == IF EdgeChild(e) = e.b THEN e.pb ELSE e.pa
PassOut(e) == IF EdgeChild(e) = e.b THEN e.pa ELSE e.pb
RECURSIVE Carve(_, _, _, _, _)
\* reverse the receivers along the path cur -> ... -> pit
Carve(rc, cur, nxt, pit, k) ==
  IF cur = pit \/ k = 0 THEN rc
  ELSE Carve([rc EXCEPT ![nxt] = cur], nxt, rc[nxt], pit, k - 1)
Reroute ==
  /\ pc = "reroute"
  /\ IF todo = <<>> THEN pc' = "tilt" /\ UNCHANGED <<rec, todo>>
     ELSE LET e == Head(todo)
              pit == EdgeChild(e)
              pin == PassIn(e)
              pout == PassOut(e)
          IN /\ todo' = Tail(todo) /\ UNCHANGED pc
             /\ rec' = IF Method = "basic"
                         THEN IF z[pin] < z[pout] THEN [rec EXCEPT ![pit] = pout]
                              ELSE [[rec EXCEPT ![pit] = pin] EXCEPT ![pin] = pout]
                         ELSE Carve([rec EXCEPT ![pin] = pout], pin, rec[pin], pit, N)
  /\ UNCHANGED <<zin, mask, bl, z, edges, tree, cons, root, parent>>

\* ---- fill_sinks_sloped along the new receivers, receivers first
RECURSIVE Depth(_, _, _)
Depth(rc, i, k) == IF rc[i] = i \/ k = 0 THEN 0 ELSE 1 + Depth(rc, rc[i], k - 1)
RECURSIVE TiltFold(_, _, _)
TiltFold(e, order, k) ==
  IF k > Len(order) THEN e
  ELSE LET i == order[k] IN
       TiltFold(IF rec[i] # i /\ e[i] <= e[rec[i]] THEN [e EXCEPT ![i] = e[rec[i]] + 1] ELSE e, order, k + 1)
BottomUp == SortSeq(SetToSeq(NodeSet), LAMBDA x, y : Depth(rec, x, N) < Depth(rec, y, N))
Tilt == /\ pc = "tilt" /\ z' = TiltFold(z, BottomUp, 1) /\ pc' = "done"
        /\ UNCHANGED <<zin, mask, bl, rec, edges, tree, cons, root, parent, todo>>

Next == Route \/ Connect \/ Passes \/ Kruskal \/ Orient \/ Reroute \/ Tilt
Spec == Init /\ [][Next]_bvars /\ WF_bvars(Next)

\* ---- L1 contracts on the final state
AsSeq(f) == [i \in 1..N |-> f[i - 1]]
X == [n |-> N, nb |-> NB, mask |-> [i \in 1..N |-> IF (i - 1) \in mask THEN 1 ELSE 0], bl |-> bl]
R == [zin |-> AsSeq(zin), zout |-> AsSeq(z), same |-> [i \in 1..N |-> IF z[i - 1] = zin[i - 1] THEN 1 ELSE 0],
      rec |-> [i \in 1..N |-> <<rec[i - 1]>>], nrec |-> [i \in 1..N |-> 1], dfs |-> BottomUp]
RefinesC01 == pc = "done" => C01(X, R)
RefinesC02 == pc = "done" => C02(X, R)
\* the receivers always form a forest (no cycle is ever created by the re-routing)
Forest == pc \in {"tilt", "done"} => \A i \in NodeSet : rec[OutletOf(rec, i, N)] = OutletOf(rec, i, N)
\* C15 at the level of the model: the tree is a spanning forest with the cycle property
TreeMinimal == pc \in {"orient", "reroute", "tilt", "done"} /\ edges # {} =>
   /\ \A e \in edges : Joined(tree, e.a, e.b)
   /\ \A e \in edges \ tree : Joined({t \in tree : t.w <= e.w}, e.a, e.b)
Terminates == <>(pc = "done")
=============================================================================
