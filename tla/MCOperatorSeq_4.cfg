CONSTANTS
  MaxLen = 4
SPECIFICATION Spec
