CONSTANTS
  MaxLen = 5
SPECIFICATION Spec
