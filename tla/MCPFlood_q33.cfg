CONSTANTS
  D <- Queen33
  Levels = {0, 1, 2}
  BLSets <- BL33
  Masks <- MNone
  TotalOrder = FALSE
SPECIFICATION PSpec
INVARIANTS RefinesC02 Drains QueuesOK
CHECK_DEADLOCK FALSE
