----------------------------- MODULE ParDispatch -----------------------------
(* L2 model of the two places where fastscapelib dispatches node work to    *)
(* the worker pool (C10):                                                   *)
(*  (a) the multi-threaded single flow router: [0, N) cut in blocks by the  *)
(*      Blocks specification; per node: fill the neighbour scratch, read    *)
(*      it, write receivers[node].  The scratch is one cell per thread      *)
(*      (SharedScratch = FALSE) or one cell shared by all threads (the      *)
(*      cache-less grid defect, negative control).                          *)
(*  (b) apply_kernel_par: breadth-first levels processed one after the      *)
(*      other, each level cut in blocks; a kernel call reads the outputs of *)
(*      the node's receivers.  Barrier = FALSE drops the wait between       *)
(*      levels (negative control).                                          *)
(* Every interleaving of the per-node steps of T workers is explored.       *)
EXTENDS Naturals, Sequences, FiniteSets, TLC, Blocks

CONSTANTS N,             \* nodes 0..N-1
          T,             \* workers
          SharedScratch,
          Levels,        \* sequence of sequences of nodes: breadth-first levels (receivers first)
          Recv,          \* node -> set of receivers (strictly earlier levels)
          Barrier,
          MinLevel       \* levels smaller than this are run by the caller alone

Workers == 1..T
NodeSet == 0..(N - 1)
Cell(w) == IF SharedScratch THEN 1 ELSE w

VARIABLES phase,    \* "route" | "kernel" | "end"
          blk,      \* worker -> sequence of nodes still to process
          step,     \* worker -> "fill" | "read" | "write"
          scratch, tmp, rec,
          level, out, bad, calls
pv == <<phase, blk, step, scratch, tmp, rec, level, out, bad, calls>>

BlockOf(first, last, w) == LET b == BlockDesc(first, last, T, 0) IN
   IF w - 1 < b.nb THEN [k \in 1..(BEnd(b, w - 1) - BStart(b, w - 1)) |-> BStart(b, w - 1) + k - 1] ELSE <<>>
LevelBlock(lv, w) ==
   IF Len(lv) < MinLevel THEN (IF w = 1 THEN lv ELSE <<>>)
   ELSE LET idx == BlockOf(0, Len(lv), w) IN [k \in DOMAIN idx |-> lv[idx[k] + 1]]

Init == /\ phase = "route" /\ blk = [w \in Workers |-> BlockOf(0, N, w)]
        /\ step = [w \in Workers |-> "fill"]
        /\ scratch = [c \in 1..T |-> 0 - 1] /\ tmp = [w \in Workers |-> 0 - 1]
        /\ rec = [i \in NodeSet |-> 0 - 1]
        /\ level = 0 /\ out = [i \in NodeSet |-> 0 - 1] /\ bad = FALSE /\ calls = [i \in NodeSet |-> 0]

\* (a) router body, one step at a time
Fill(w) == /\ phase = "route" /\ blk[w] # <<>> /\ step[w] = "fill"
           /\ scratch' = [scratch EXCEPT ![Cell(w)] = Head(blk[w])]     \* neighbours of the node
           /\ step' = [step EXCEPT ![w] = "read"]
           /\ UNCHANGED <<phase, blk, tmp, rec, level, out, bad, calls>>
Read(w) == /\ phase = "route" /\ blk[w] # <<>> /\ step[w] = "read"
           /\ tmp' = [tmp EXCEPT ![w] = scratch[Cell(w)]]
           /\ step' = [step EXCEPT ![w] = "write"]
           /\ UNCHANGED <<phase, blk, scratch, rec, level, out, bad, calls>>
Write(w) == /\ phase = "route" /\ blk[w] # <<>> /\ step[w] = "write"
            /\ rec' = [rec EXCEPT ![Head(blk[w])] = tmp[w] + 100]       \* steepest neighbour of what was read
            /\ blk' = [blk EXCEPT ![w] = Tail(@)]
            /\ step' = [step EXCEPT ![w] = "fill"]
            /\ UNCHANGED <<phase, scratch, tmp, level, out, bad, calls>>
\* run_blocks returns when every block is done; then the kernel phase starts with level 1
RouteDone == /\ phase = "route" /\ \A w \in Workers : blk[w] = <<>>
             /\ phase' = "kernel" /\ level' = 1
             /\ blk' = [w \in Workers |-> LevelBlock(Levels[1], w)]
             /\ UNCHANGED <<step, scratch, tmp, rec, out, bad, calls>>

\* (b) one kernel call: reads the receivers' outputs, writes its own
Kernel(w) == /\ phase = "kernel" /\ blk[w] # <<>>
             /\ LET i == Head(blk[w]) IN
                /\ bad' = (bad \/ \E j \in Recv[i] : out[j] = 0 - 1)
                /\ out' = [out EXCEPT ![i] = 1]
                /\ calls' = [calls EXCEPT ![i] = @ + 1]
             /\ blk' = [blk EXCEPT ![w] = Tail(@)]
             /\ UNCHANGED <<phase, step, scratch, tmp, rec, level>>
NextLevel == /\ phase = "kernel" /\ level < Len(Levels)
             /\ (Barrier => \A w \in Workers : blk[w] = <<>>)
             /\ (~Barrier => \E w \in Workers : blk[w] = <<>>)      \* a free worker is handed the next level at once
             /\ level' = level + 1
             /\ blk' = [w \in Workers |-> blk[w] \o LevelBlock(Levels[level + 1], w)]
             /\ UNCHANGED <<phase, step, scratch, tmp, rec, out, bad, calls>>
KernelDone == /\ phase = "kernel" /\ level = Len(Levels) /\ \A w \in Workers : blk[w] = <<>>
              /\ phase' = "end"
              /\ UNCHANGED <<blk, step, scratch, tmp, rec, level, out, bad, calls>>

Next == (\E w \in Workers : Fill(w) \/ Read(w) \/ Write(w) \/ Kernel(w)) \/ RouteDone \/ NextLevel \/ KernelDone
Spec == Init /\ [][Next]_pv /\ WF_pv(Next)

\* C10: the parallel result is the sequential result in every interleaving
RouterEqualsSequential == phase # "route" => \A i \in NodeSet : rec[i] = i + 100
KernelAfterReceivers == ~bad
KernelExactlyOnce == phase = "end" => \A i \in NodeSet : calls[i] = 1
Terminates == <>(phase = "end")
=============================================================================
