CONSTANTS
  N = 6
  T = 2
  SharedScratch = FALSE
  Levels <- L6
  Recv <- R6
  Barrier = TRUE
  MinLevel = 0
SPECIFICATION Spec
INVARIANTS RouterEqualsSequential KernelAfterReceivers KernelExactlyOnce
PROPERTY Terminates
CHECK_DEADLOCK FALSE
