------------------------------ MODULE ADITrace ------------------------------
EXTENDS ADI, Json, IOUtils, TLC
ASSUME TLCSet(7, ndJsonDeserialize(IOEnv.TRACE))
Log == TLCGet(7)
Diag == IOEnv.DIAG = "1"
Chk(name, line, val) == IF Diag THEN (IF val THEN TRUE ELSE PrintT(<<"FAILED", name, "line", line>>)) ELSE val
VARIABLE l
E == Log[l]
Is(e) == l <= Len(Log) /\ E.e = e
TReset == Is("Reset")
TAdi == /\ Is("Adi")
        /\ Chk("MACHINERY.HalfStepHookFired", l, E.hashalf = 1)
        /\ Chk("C14.Finite", l, Finite(E))
        /\ Chk("C14.BordersZero", l, BordersFixed(E))
        /\ Chk("C14.FirstHalfStep", l, FirstHalfStep(E))
        /\ Chk("C14.SecondHalfStep", l, SecondHalfStep(E))
\* scalar diffusivity and the uniform array give the same result (Q(20) enclosures)
TUniform == Is("AdiUniform") /\ Chk("C14.ScalarEqualsUniformArray", l,
                \A i \in DOMAIN E.scalar : Abs(E.scalar[i] - E.array[i]) <= 2)
\* the map elevation -> erosion is linear (Q(16) with slack |a| + |b| + 1)
TLinear == Is("AdiLinear") /\ Chk("C14.Linear", l,
                \A i \in DOMAIN E.ez : Abs(E.ez[i] - (E.a * E.ex[i] + E.b * E.ey[i])) <= Abs(E.a) + Abs(E.b) + 2)
TStatus == Is("AdiStatus") /\ Chk("C14.IndependentOfNodeStatus", l, \A i \in DOMAIN E.same : E.same[i] = 1)
\* a call with an elevation array of another shape: outside the domain, whatever it does is a stuttering
\* step of the specification - but the eroder must serve the following valid calls as if nothing had happened
TBad == Is("AdiBad")
ANext == (TReset \/ TAdi \/ TBad \/ TUniform \/ TLinear \/ TStatus) /\ l' = l + 1
ASpec == l = 1 /\ [][ANext]_l
AAccepted == IF TLCGet("stats").diameter - 1 = Len(Log) THEN TRUE
             ELSE PrintT(<<"REJECTED at line", TLCGet("stats").diameter, "of", Len(Log)>>) /\ FALSE
=============================================================================
