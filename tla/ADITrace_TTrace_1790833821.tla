---- MODULE ADITrace_TTrace_1790833821 ----
EXTENDS Sequences, TLCExt, ADITrace, Toolbox, Naturals, TLC

_expression ==
    LET ADITrace_TEExpression == INSTANCE ADITrace_TEExpression
    IN ADITrace_TEExpression!expression
----

_trace ==
    LET ADITrace_TETrace == INSTANCE ADITrace_TETrace
    IN ADITrace_TETrace!trace
----

_inv ==
    ~(
        TLCGet("level") = Len(_TETrace)
        /\
        l = (23)
    )
----

_init ==
    /\ l = _TETrace[1].l
----

_next ==
    /\ \E i,j \in DOMAIN _TETrace:
        /\ \/ /\ j = i + 1
              /\ i = TLCGet("level")
        /\ l  = _TETrace[i].l
        /\ l' = _TETrace[j].l

\* Uncomment the ASSUME below to write the states of the error trace
\* to the given file in Json format. Note that you can pass any tuple
\* to `JsonSerialize`. For example, a sub-sequence of _TETrace.
    \* ASSUME
    \*     LET J == INSTANCE Json
    \*         IN J!JsonSerialize("ADITrace_TTrace_1790833821.json", _TETrace)

=============================================================================

 Note that you can extract this module `ADITrace_TEExpression`
  to a dedicated file to reuse `expression` (the module in the 
  dedicated `ADITrace_TEExpression.tla` file takes precedence 
  over the module `ADITrace_TEExpression` below).

---- MODULE ADITrace_TEExpression ----
EXTENDS Sequences, TLCExt, ADITrace, Toolbox, Naturals, TLC

expression == 
    [
        \* To hide variables of the `ADITrace` spec from the error trace,
        \* remove the variables below.  The trace will be written in the order
        \* of the fields of this record.
        l |-> l
        
        \* Put additional constant-, state-, and action-level expressions here:
        \* ,_stateNumber |-> _TEPosition
        \* ,_lUnchanged |-> l = l'
        
        \* Format the `l` variable as Json value.
        \* ,_lJson |->
        \*     LET J == INSTANCE Json
        \*     IN J!ToJson(l)
        
        \* Lastly, you may build expressions over arbitrary sets of states by
        \* leveraging the _TETrace operator.  For example, this is how to
        \* count the number of times a spec variable changed up to the current
        \* state in the trace.
        \* ,_lModCount |->
        \*     LET F[s \in DOMAIN _TETrace] ==
        \*         IF s = 1 THEN 0
        \*         ELSE IF _TETrace[s].l # _TETrace[s-1].l
        \*             THEN 1 + F[s-1] ELSE F[s-1]
        \*     IN F[_TEPosition - 1]
    ]

=============================================================================



Parsing and semantic processing can take forever if the trace below is long.
 In this case, it is advised to uncomment the module below to deserialize the
 trace from a generated binary file.

\*
\*---- MODULE ADITrace_TETrace ----
\*EXTENDS IOUtils, ADITrace, TLC
\*
\*trace == IODeserialize("ADITrace_TTrace_1790833821.bin", TRUE)
\*
\*=============================================================================
\*

---- MODULE ADITrace_TETrace ----
EXTENDS ADITrace, TLC

trace == 
    <<
    ([l |-> 1]),
    ([l |-> 2]),
    ([l |-> 3]),
    ([l |-> 4]),
    ([l |-> 5]),
    ([l |-> 6]),
    ([l |-> 7]),
    ([l |-> 8]),
    ([l |-> 9]),
    ([l |-> 10]),
    ([l |-> 11]),
    ([l |-> 12]),
    ([l |-> 13]),
    ([l |-> 14]),
    ([l |-> 15]),
    ([l |-> 16]),
    ([l |-> 17]),
    ([l |-> 18]),
    ([l |-> 19]),
    ([l |-> 20]),
    ([l |-> 21]),
    ([l |-> 22]),
    ([l |-> 23])
    >>
----


=============================================================================

---- CONFIG ADITrace_TTrace_1790833821 ----

INVARIANT
    _inv

CHECK_DEADLOCK
    \* CHECK_DEADLOCK off because of PROPERTY or INVARIANT above.
    FALSE

INIT
    _init

NEXT
    _next

CONSTANT
    _TETrace <- _trace

ALIAS
    _expression
=============================================================================
\* Generated on Thu Oct 01 05:50:25 UTC 2026