CONSTANTS
  N = 3
  MaxRec = 2
  Algo = "accumulate"
  Order = "any"
  Variant = "code"
  Sources <- S_02
SPECIFICATION Spec
INVARIANTS RefinesC03 RefinesC19
PROPERTY Terminates
CHECK_DEADLOCK FALSE
