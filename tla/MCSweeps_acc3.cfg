CONSTANTS
  N = 3
  MaxRec = 2
  Algo = "accumulate"
  Order = "contract"
  Variant = "code"
  Sources <- S_m102
SPECIFICATION Spec
INVARIANTS RefinesC03 RefinesC19
PROPERTY Terminates
CHECK_DEADLOCK FALSE
