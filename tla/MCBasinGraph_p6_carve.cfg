CONSTANTS
  D <- Profile6
  Levels = {0, 1, 2}
  Masks <- MP6
  BLSets <- BP6
  Method = "carve"
SPECIFICATION Spec
INVARIANTS RefinesC01 RefinesC02 Forest TreeMinimal
PROPERTY Terminates
CHECK_DEADLOCK FALSE
