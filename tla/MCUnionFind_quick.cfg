CONSTANTS
  MaxN = 4
  UsePush = TRUE
  Emit = TRUE
SPECIFICATION MCSpec
VIEW View
INVARIANT TypeOK
INVARIANT Acyclic
INVARIANT RefinesPartition
INVARIANT ClassesArePartition
INVARIANT HeightBound
CHECK_DEADLOCK FALSE
