CONSTANTS
  D <- Rook23L
  Levels = {0, 1, 2, 5}
  Masks <- M23
  BLSets <- B23
  Threshold = 0
SPECIFICATION Spec
INVARIANTS SingleRefinesC04 MultiRefinesC05
CHECK_DEADLOCK FALSE
