CONSTANTS
  D <- Queen23
  Levels = {0, 1, 2}
  BLSets <- BL23
  Masks <- M23
  TotalOrder = FALSE
SPECIFICATION PSpec
INVARIANTS RefinesC02 Drains QueuesOK
CHECK_DEADLOCK FALSE
