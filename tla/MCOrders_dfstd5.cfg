CONSTANTS
  N = 5
  MaxRec = 2
  Algo = "dfs_topdown"
SPECIFICATION Spec
INVARIANTS DfsOK BfsOK Bounded
PROPERTY Terminates
CHECK_DEADLOCK FALSE
