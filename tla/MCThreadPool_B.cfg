CONSTANTS
  MaxW = 3
  InitSize = 2
  Program <- ProgB
  RelPublish = TRUE
  AcqWorker = TRUE
  RelDone = TRUE
  AcqWait = TRUE
  LockedNotify = TRUE
  SpuriousWake = FALSE
SPECIFICATION FairSpec
INVARIANTS NoDataRace ExactlyOnce TypeOK MutexOK
PROPERTY Termination
CHECK_DEADLOCK FALSE
