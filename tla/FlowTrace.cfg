SPECIFICATION TraceSpec
CONSTANTS
  Has <- TraceHas
  Diag <- TraceDiag
POSTCONDITION TraceAccepted
CHECK_DEADLOCK FALSE
