CONSTANTS
  D <- Queen23
  Levels = {0, 1}
  BLSets <- BL23
  Masks <- MNone
  TotalOrder = FALSE
SPECIFICATION TSpec
INVARIANT Deterministic
CHECK_DEADLOCK FALSE
