SPECIFICATION FSpec
POSTCONDITION FAccepted
CHECK_DEADLOCK FALSE
