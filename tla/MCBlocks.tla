------------------------------ MODULE MCBlocks ------------------------------
EXTENDS Blocks, Json, IOUtils, SequencesExt
CONSTANTS MaxLast, MaxN, MaxMin
Tuples == {<<f, l, n, m>> \in (0..MaxLast) \X (0..MaxLast) \X (1..MaxN) \X (0..MaxMin) : f <= l}
AllOK == \A t \in Tuples : PartitionOK(t[1], t[2], t[3], t[4])
ASSUME AllOK
\* B1: every tuple with the specification's answer, replayed through the real blocks class
Cases == {[first |-> t[1], last |-> t[2], n |-> t[3], min |-> t[4],
           nb |-> NumBlocks(t[1], t[2], t[3], t[4]),
           starts |-> [k \in 1..NumBlocks(t[1], t[2], t[3], t[4]) |-> BStart(BlockDesc(t[1], t[2], t[3], t[4]), k - 1)],
           ends |-> [k \in 1..NumBlocks(t[1], t[2], t[3], t[4]) |-> BEnd(BlockDesc(t[1], t[2], t[3], t[4]), k - 1)]] : t \in Tuples}
ASSUME IF "BLOCKS_OUT" \in DOMAIN IOEnv /\ IOEnv.BLOCKS_OUT # ""
         THEN ndJsonSerialize(IOEnv.BLOCKS_OUT, SetToSeq(Cases)) ELSE TRUE
VARIABLE x
Init == x = Cardinality(Tuples)
Next == UNCHANGED x
Spec == Init /\ [][Next]_x
=============================================================================
