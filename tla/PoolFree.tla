------------------------------ MODULE PoolFree ------------------------------
(* Validation of free-running executions of the real thread_pool (no        *)
(* schedule control; used under ThreadSanitizer, the run-time observer of   *)
(* the happens-before relation that the ThreadPool model represents with    *)
(* version ghosts).  Only what the caller and the callbacks observe is      *)
(* logged: every run_blocks must execute each block of the Blocks           *)
(* specification exactly once, before it returns.  A data-race report or a  *)
(* hang ends the execution with a NoReturn line, which no action accepts.   *)
EXTENDS Blocks, Json, IOUtils, TLC

ASSUME TLCSet(7, ndJsonDeserialize(IOEnv.TRACE))
Log == TLCGet(7)

VARIABLES l, size, cur, seen, inrun
fv == <<l, size, cur, seen, inrun>>
E == Log[l]
IsEv(e) == l <= Len(Log) /\ E.e = e
Adv == l' = l + 1

FReset == IsEv("Reset") /\ size' = 0 /\ cur' = <<0, 0, 0>> /\ seen' = {} /\ inrun' = FALSE /\ Adv
FNew == IsEv("PoolNew") /\ size' = E.size /\ UNCHANGED <<cur, seen, inrun>> /\ Adv
FOp == /\ IsEv("op") /\ ~inrun
       /\ size' = IF E.op[1] = "resize" THEN E.op[2] ELSE size
       /\ cur' = IF E.op[1] = "run" THEN <<E.op[2], E.op[3], E.op[4]>> ELSE cur
       /\ seen' = {} /\ inrun' = (E.op[1] = "run") /\ Adv
FCb == /\ IsEv("cb") /\ inrun
       /\ LET b == BlockDesc(cur[1], cur[2], size, cur[3]) IN
          /\ E.r \notin seen /\ E.r < b.nb /\ E.r < size
          /\ E.a = BStart(b, E.r) /\ E.b = BEnd(b, E.r)
       /\ seen' = seen \cup {E.r} /\ UNCHANGED <<size, cur, inrun>> /\ Adv
FRan == /\ IsEv("ran") /\ inrun
        /\ seen = 0..(NumBlocks(cur[1], cur[2], size, cur[3]) - 1)
        /\ \A k \in DOMAIN E.out : E.out[k] = (IF k - 1 >= cur[1] /\ k - 1 < cur[2] THEN 1 ELSE 0)
        /\ inrun' = FALSE /\ UNCHANGED <<size, cur, seen>> /\ Adv
FRet == IsEv("ret") /\ ~inrun /\ UNCHANGED <<size, cur, seen, inrun>> /\ Adv

FInit == l = 1 /\ size = 0 /\ cur = <<0, 0, 0>> /\ seen = {} /\ inrun = FALSE
FNext == FReset \/ FNew \/ FOp \/ FCb \/ FRan \/ FRet
FSpec == FInit /\ [][FNext]_fv
FAccepted == IF TLCGet("stats").diameter - 1 = Len(Log) THEN TRUE
             ELSE PrintT(<<"REJECTED at line", TLCGet("stats").diameter, "of", Len(Log)>>) /\ FALSE
=============================================================================
