--------------------------- MODULE BigGridTrace ---------------------------
(* Grids far larger than what a whole-table validation can afford (hundreds *)
(* of thousands of nodes): size thresholds in the implementation - cache    *)
(* capacities, index arithmetic, block partitions of the parallel router -  *)
(* are only crossed there.  The specification needs no table: the           *)
(* neighbourhood of a node (Grid!NeighSeq), its status (Grid!BaseStatus)    *)
(* and its elevation (an integer formula of the node's row and column) are  *)
(* functions of the descriptor, evaluated by TLC for the SAMPLED nodes only.*)
(*   BigQ:     answers of the grid accessors for a node (C07 contract)      *)
(*   BigRoute: receiver of a node after update_routes of a [single] graph   *)
(*             (FlowContract!C04Node: steepest descent, exact integers)     *)
EXTENDS Grid, FlowContract, Json, IOUtils

ASSUME TLCSet(7, ndJsonDeserialize(IOEnv.TRACE))
Log == TLCGet(7)
Diag == IOEnv.DIAG = "1"
Has(c) == CASE c = "C07" -> IOEnv.CHK_C07 = "1" [] c = "C04" -> IOEnv.CHK_C04 = "1" [] c = "C10" -> IOEnv.CHK_C10 = "1"
            [] c = "C02" -> IOEnv.CHK_C02 = "1" [] c = "C01" -> IOEnv.CHK_C01 = "1" [] OTHER -> FALSE
Chk(name, line, val) == IF Diag THEN (IF val THEN TRUE ELSE PrintT(<<"FAILED", name, "line", line>>)) ELSE (val = TRUE)

VARIABLES l, bd, bf        \* position, descriptor, field formula
bvars == <<l, bd, bf>>
None == [t |-> "none"]
E == Log[l]
Is(e) == l <= Len(Log) /\ E.e = e
Adv == l' = l + 1

\* elevation of node i: an integer formula of (row, column), the same in the harness
ZOf(d, f, i) == LET r == IF d.t = "raster" THEN i \div d.nc ELSE 0
                    c == IF d.t = "raster" THEN i % d.nc ELSE i
                IN ((f.a * r + f.b * c) % f.m1) + ((r * c) % f.m2)

TReset == Is("Reset") /\ bd' = None /\ bf' = None /\ Adv
TBigGrid == /\ Is("BigGrid")
            /\ Chk("C07.BigGridSize", l, E.n = Size(E.d))
            /\ bd' = E.d /\ bf' = (IF "f" \in DOMAIN E THEN E.f ELSE None) /\ Adv

ExpIdx(d, i) == BagOfSeq([k \in DOMAIN NeighSeq(d, i) |-> NeighSeq(d, i)[k].j])
ExpNb(d, i) == BagOfSeq([k \in DOMAIN NeighSeq(d, i) |-> <<NeighSeq(d, i)[k].j, NeighSeq(d, i)[k].dsq, BaseStatus(d, NeighSeq(d, i)[k].j)>>])
ExpRc(d, i) == BagOfSeq([k \in DOMAIN NeighSeq(d, i) |-> <<NeighSeq(d, i)[k].j \div d.nc, NeighSeq(d, i)[k].j % d.nc>>])
TBigQ ==
  /\ Is("BigQ") /\ bd # None /\ E.i \in Nodes(bd)
  /\ Has("C07") =>
       /\ Chk("C07.Count", l, E.count = Len(NeighSeq(bd, E.i)))
       /\ Chk("C07.Indices", l, BagOfSeq(E.indices) = ExpIdx(bd, E.i))
       /\ Chk("C07.NeighborStructs", l, BagOfSeq(E.neighbors) = ExpNb(bd, E.i))
       /\ ("rc_indices" \in DOMAIN E) => Chk("C07.RowColIndices", l, BagOfSeq(E.rc_indices) = ExpRc(bd, E.i))
  /\ UNCHANGED <<bd, bf>> /\ Adv

\* sampled nodes of one update_routes of a [single] graph (no mask, default base levels = fixed-value nodes)
TBigRoute ==
  /\ Is("BigRoute") /\ bd # None /\ bf # None
  /\ LET d == bd
         n == Size(d)
         idx(i) == CHOOSE k \in DOMAIN E.smp : E.smp[k].i = i
         x == [n |-> n, nb |-> [i \in Nodes(d) |-> NeighSeq(d, i)], mask |-> [k \in 1..n |-> 0],
               bl |-> {i \in Nodes(d) : BaseStatus(d, i) = FIXED_VALUE}]
         r == [nrec |-> [k \in 1..n |-> E.smp[idx(k - 1)].nrec], rec |-> [k \in 1..n |-> E.smp[idx(k - 1)].rec],
               dq |-> [k \in 1..n |-> E.smp[idx(k - 1)].dq], wq |-> [k \in 1..n |-> E.smp[idx(k - 1)].wq],
               wc |-> [k \in 1..n |-> E.smp[idx(k - 1)].wc], zm |-> [k \in 1..n |-> ZOf(d, bf, k - 1)]]
         ze == [k \in 1..n |-> ZOf(d, bf, k - 1)]
     IN (Has("C04") \/ Has("C10")) =>
          /\ Chk("C04.SampleInRange", l, \A k \in DOMAIN E.smp : E.smp[k].i \in Nodes(d) /\ \A j \in DOMAIN E.smp[k].rec : E.smp[k].rec[j] \in Nodes(d))
          /\ Chk("C04.SteepestDescent", l, \A k \in DOMAIN E.smp : C04Node(x, r, ze, TRUE, E.smp[k].i))
          \* the harness' own evaluation of the formula is the specification's (machinery self-check)
          /\ Chk("MACHINERY.FieldFormula", l, \A k \in DOMAIN E.smp : E.smp[k].z = ZOf(d, bf, E.smp[k].i))
  /\ UNCHANGED <<bd, bf>> /\ Adv

\* "comb lake" (rook raster, all borders fixed value = base levels at level B): a spine (row 1) and the odd
\* columns at the floor L < B, the even columns walls at W > B: one closed depression whose spill level is B
\* at every floor node (each touches the border through floor nodes only) and the wall's own level on walls.
\* BigFill: sampled nodes after update_routes of [pflood, single]; uz / ub = number of representable values
\* the returned elevation lies above the input / above B (FlowContract!C02Level: Spill <= out <= Spill + n)
ZComb(d, f, i) == LET r == i \div d.nc   c == i % d.nc IN
                  IF r = 0 \/ r = d.nr - 1 \/ c = 0 \/ c = d.nc - 1 THEN f.B
                  ELSE IF r = 1 \/ (c % 2 = 1 /\ c >= f.c0) THEN f.L ELSE f.W
TBigFill ==
  /\ Is("BigFill") /\ bd # None
  /\ LET d == bd
         n == Size(d)
         f == E.comb
         border(i) == LET r == i \div d.nc   c == i % d.nc IN r = 0 \/ r = d.nr - 1 \/ c = 0 \/ c = d.nc - 1
     IN /\ Chk("MACHINERY.CombWorld", l, d.t = "raster" /\ d.conn = "rook" /\ d.bs = <<1, 1, 1, 1>> /\ f.L < f.B /\ f.B < f.W /\ f.L > 0)
        /\ Chk("MACHINERY.FieldFormula", l, \A k \in DOMAIN E.smp : E.smp[k].i \in Nodes(d) /\ E.smp[k].z = ZComb(d, f, E.smp[k].i))
        /\ Has("C02") =>
             /\ Chk("C02.Fixed", l, \A k \in DOMAIN E.smp : border(E.smp[k].i) => E.smp[k].same = 1)
             /\ Chk("C02.NotBelow", l, \A k \in DOMAIN E.smp : E.smp[k].fin = 1 /\ E.smp[k].uz >= 0)
             /\ Chk("C02.Level", l, \A k \in DOMAIN E.smp : ~border(E.smp[k].i) =>
                        IF E.smp[k].z >= f.B THEN E.smp[k].uz \in 0..n ELSE E.smp[k].ub \in 0..n)
        \* after [pflood, single] every floor node drains: it is not its own receiver
        /\ Has("C01") => Chk("C01.Reaches", l, \A k \in DOMAIN E.smp : (~border(E.smp[k].i) /\ E.smp[k].z < f.B) => E.smp[k].self = 0)
  /\ UNCHANGED <<bd, bf>> /\ Adv

BInit == l = 1 /\ bd = None /\ bf = None
BNext == TReset \/ TBigGrid \/ TBigQ \/ TBigRoute \/ TBigFill
BSpec == BInit /\ [][BNext]_bvars
BAccepted == IF TLCGet("stats").diameter - 1 = Len(Log) THEN TRUE
             ELSE PrintT(<<"REJECTED at line", TLCGet("stats").diameter, "of", Len(Log)>>) /\ FALSE
=============================================================================
