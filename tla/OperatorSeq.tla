---------------------------- MODULE OperatorSeq ----------------------------
(* Flow operator sequences: static attributes of each operator kind, the    *)
(* incremental bookkeeping of flow_operator_sequence::add_operator (L2) and *)
(* the declarative validity rule a user relies on (L1).  C20.               *)
(*                                                                          *)
(* An operator is a record with field k in                                  *)
(*   "single" (optional thr), "multi" (p), "pflood", "mst" (m, r),          *)
(*   "snap" (name, sg, se),                                                *)
(*   "inject" (d, rec, w8, sd): a user-defined router (the library's        *)
(*   extension point) that installs a given receiver table of direction d.  *)
EXTENDS Util

OpKinds == {"single", "multi", "pflood", "mst", "snap"}

GraphUpdated(op) == op.k \in {"single", "multi", "mst", "inject"}
ElevUpdated(op) == op.k \in {"pflood", "mst"}
InDir(op) == IF op.k = "mst" THEN "single" ELSE "undefined"
OutDir(op) == CASE op.k \in {"single", "mst"} -> "single" [] op.k = "multi" -> "multi" [] op.k = "inject" -> op.d [] OTHER -> "undefined"
SavesGraph(op) == op.k = "snap" /\ op.sg = 1
SavesElev(op) == op.k = "snap" /\ op.se = 1

-----------------------------------------------------------------------------
(* L2: the bookkeeping as the code performs it, one Add per operator.        *)
InitSeqState == [ok |-> TRUE, elevUpd |-> FALSE, graphUpd |-> FALSE, outDir |-> "undefined",
                 allSingle |-> TRUE, gkeys |-> <<>>, ekeys |-> <<>>, snapSingle |-> <<>>]

Add(s, op) ==
  IF ~s.ok THEN s
  ELSE LET s1 == IF SavesGraph(op)
                   THEN IF s.outDir = "undefined" THEN [s EXCEPT !.ok = FALSE]
                        ELSE [s EXCEPT !.gkeys = Append(@, op.name),
                                       !.snapSingle = Append(@, <<op.name, s.outDir = "single">>)]
                   ELSE s
           s2 == IF s1.ok /\ SavesElev(op) THEN [s1 EXCEPT !.ekeys = Append(@, op.name)] ELSE s1
       IN IF ~s2.ok THEN s2
          ELSE IF InDir(op) # "undefined" /\ InDir(op) # s2.outDir THEN [s2 EXCEPT !.ok = FALSE]
          ELSE LET s3 == IF ElevUpdated(op) THEN [s2 EXCEPT !.elevUpd = TRUE] ELSE s2
               IN IF GraphUpdated(op)
                    THEN [s3 EXCEPT !.graphUpd = TRUE,
                                    !.outDir = IF OutDir(op) # "undefined" THEN OutDir(op) ELSE @,
                                    !.allSingle = IF OutDir(op) \notin {"undefined", "single"} THEN FALSE ELSE @]
                    ELSE s3

RECURSIVE Fold(_, _, _)
Fold(s, ops, k) == IF k > Len(ops) THEN s ELSE Fold(Add(s, ops[k]), ops, k + 1)
SeqState(ops) == Fold(InitSeqState, ops, 1)
\* the flow_graph constructor adds two sanity checks
Constructible(ops) == LET s == SeqState(ops) IN s.ok /\ s.graphUpd /\ s.outDir # "undefined"

-----------------------------------------------------------------------------
(* L1: what a user is promised.                                              *)
\* direction of the graph before operator number i (1-based); i = Len+1 gives the final one
DirBefore(ops, i) ==
  LET js == {j \in 1..(i - 1) : GraphUpdated(ops[j])}
  IN IF js = {} THEN "undefined" ELSE OutDir(ops[SetMax(js)])

Valid(ops) ==
  /\ \E i \in DOMAIN ops : GraphUpdated(ops[i])
  /\ \A i \in DOMAIN ops : InDir(ops[i]) # "undefined" => DirBefore(ops, i) = InDir(ops[i])
  /\ \A i \in DOMAIN ops : SavesGraph(ops[i]) => DirBefore(ops, i) # "undefined"

FinalDir(ops) == DirBefore(ops, Len(ops) + 1)
AllSingle(ops) == \A i \in DOMAIN ops : GraphUpdated(ops[i]) => OutDir(ops[i]) = "single"
AnyElevUpdated(ops) == \E i \in DOMAIN ops : ElevUpdated(ops[i])
GraphKeys(ops) == SelectSeq([i \in DOMAIN ops |-> IF SavesGraph(ops[i]) THEN ops[i].name ELSE ""], LAMBDA x : x # "")
ElevKeys(ops) == SelectSeq([i \in DOMAIN ops |-> IF SavesElev(ops[i]) THEN ops[i].name ELSE ""], LAMBDA x : x # "")
OpName(op) == CASE op.k = "single" -> "single_flow_router" [] op.k = "multi" -> "multi_flow_router"
                [] op.k = "pflood" -> "pflood_sink_resolver" [] op.k = "mst" -> "mst_sink_resolver"
                [] op.k = "snap" -> "flow_snapshot" [] op.k = "inject" -> "inject_router"

\* the refinement checked by TLC on every sequence of bounded length (MCOperatorSeq)
AddRefinesValid(ops) ==
  /\ Constructible(ops) = Valid(ops)
  /\ Valid(ops) => LET s == SeqState(ops) IN
        /\ s.outDir = FinalDir(ops)
        /\ s.allSingle = AllSingle(ops)
        /\ s.elevUpd = AnyElevUpdated(ops)
        /\ s.gkeys = GraphKeys(ops)
        /\ s.ekeys = ElevKeys(ops)
        /\ \A k \in DOMAIN s.snapSingle :
             \E i \in DOMAIN ops : SavesGraph(ops[i]) /\ ops[i].name = s.snapSingle[k][1]
                                   /\ s.snapSingle[k][2] = (DirBefore(ops, i) = "single")

-----------------------------------------------------------------------------
(* Semantic attributes used by the flow contracts.                           *)
LastGraphOp(ops) == SetMax({j \in DOMAIN ops : GraphUpdated(ops[j])})
\* The graph after operator i drains every depression when
\*  - its last graph-updating operator is the spanning-tree resolver, or
\*  - it is a router and some elevation-updating operator (priority flood, spanning-tree resolver)
\*    runs before it: the resolver documents that the surface it leaves lets the operators applied
\*    after it route the flow naturally.
\* (With the "basic" spanning-tree method that promise does not hold - the pit's receiver is not a
\* grid neighbour, so the tilted surface keeps the pit as a local minimum: recorded as a known
\* finding, not excluded here.)
ResolvedAt(ops, i) ==
  LET js == {j \in 1..i : GraphUpdated(ops[j])}
      last == SetMax(js)
      es == {j \in 1..(last - 1) : ElevUpdated(ops[j])}
  IN js # {} /\ (ops[last].k = "mst" \/ es # {})
Resolved(ops) == ResolvedAt(ops, Len(ops))
ElevFilledAt(ops, i) == \E j \in 1..i : ElevUpdated(ops[j])
=============================================================================
