---------------------------- MODULE MCOperatorSeq ----------------------------
(* C20, model-checking part and generator (B1):                              *)
(*  - for EVERY sequence of at most MaxLen operators over the 8 operator     *)
(*    kinds, the incremental bookkeeping of add_operator (OperatorSeq!Add,   *)
(*    L2) agrees with the declarative validity rule and derived attributes   *)
(*    (L1): ASSUME AllRefine, evaluated by TLC;                              *)
(*  - the same enumeration is written out, one sequence per line, to be      *)
(*    replayed through the real flow_graph constructor.                      *)
EXTENDS OperatorSeq, Json, IOUtils, SequencesExt
CONSTANT MaxLen

\* snapshot names in non-alphabetical order of position (so that "listed as given" is distinguishable
\* from "listed sorted")
SnapName(pos) == <<"e", "d", "c", "b", "a">>[pos]
Kind(k, pos) ==
  CASE k = 1 -> [k |-> "single"]
    [] k = 2 -> [k |-> "single", thr |-> 2]
    [] k = 3 -> [k |-> "multi", p |-> 4]
    [] k = 4 -> [k |-> "pflood"]
    [] k = 5 -> [k |-> "mst", m |-> "kruskal", r |-> "carve"]
    [] k = 6 -> [k |-> "snap", name |-> SnapName(pos), sg |-> 1, se |-> 0]
    [] k = 7 -> [k |-> "snap", name |-> SnapName(pos), sg |-> 0, se |-> 1]
    [] k = 8 -> [k |-> "snap", name |-> SnapName(pos), sg |-> 1, se |-> 1]
Codes == UNION {[1..n -> 1..8] : n \in 1..MaxLen}
OpsOf(c) == [i \in DOMAIN c |-> Kind(c[i], i)]
AllRefine == \A c \in Codes : AddRefinesValid(OpsOf(c))
ASSUME AllRefine
NValid == Cardinality({c \in Codes : Valid(OpsOf(c))})
ASSUME PrintT(<<"sequences", Cardinality(Codes), "valid", NValid>>)
ASSUME IF "OPSEQ_OUT" \in DOMAIN IOEnv /\ IOEnv.OPSEQ_OUT # ""
         THEN ndJsonSerialize(IOEnv.OPSEQ_OUT, SetToSeq({[ops |-> OpsOf(c)] : c \in Codes})) ELSE TRUE
VARIABLE x
Init == x = 0
Next == UNCHANGED x
Spec == Init /\ [][Next]_x
=============================================================================
