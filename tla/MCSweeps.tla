------------------------------ MODULE MCSweeps ------------------------------
(* Bounded configurations of Sweeps, and generator (B1): the graphs (with    *)
(* every partition of the flow) that the model ranges over are written out,  *)
(* one per line, to be installed in a real flow graph through a user-defined *)
(* operator and run through the real traversal-order algorithms, accumulate, *)
(* basins and kernels; the recorded calls are validated by FlowTrace.        *)
EXTENDS Sweeps, Json, IOUtils
S_m102 == {0 - 1, 0, 2}
S_m12 == {0 - 1, 2}
S_02 == {0, 2}
S_0 == {0}
GraphCases == {[rec |-> SeqFrom0(rc), w8 |-> SeqFrom0(wt)] : <<rc, wt>> \in {p \in Graphs \X UNION {WeightsOf(g) : g \in Graphs} : p[2] \in WeightsOf(p[1])}}
ASSUME IF "SWEEPS_OUT" \in DOMAIN IOEnv /\ IOEnv.SWEEPS_OUT # ""
         THEN /\ ndJsonSerialize(IOEnv.SWEEPS_OUT, SetToSeq(GraphCases))
              /\ PrintT(<<"graphs", Cardinality(Graphs), "with weights", Cardinality(GraphCases)>>)
         ELSE TRUE
=============================================================================
