---------------------------- MODULE FlowContract ----------------------------
(* L1 contracts of the flow graph: what every public observation must       *)
(* satisfy, stated over the abstract state only.  Nothing about tie-breaks, *)
(* scan orders or scratch data is fixed here.                               *)
(*                                                                          *)
(* x : context record [n, nb, mask, bl]                                     *)
(*       n    number of nodes, nodes are 0..n-1                             *)
(*       nb   neighbour table (Grid!NeighTable): node -> sequence of [j,dsq]*)
(*       mask sequence of 0/1 (1 = node excluded from the graph)            *)
(*       bl   set of base-level nodes                                       *)
(* r : observation record (one logged update_routes / snapshot state)       *)
(*       zin, zout  elevations as ulp-ranks (order and small ulp gaps exact)*)
(*       same       1 iff zout is bit-identical to zin at that node         *)
(*       nrec, rec  receiver counts and receiver lists                      *)
(*       dq         squared receiver distances (integers), rd their ranks   *)
(*       wq, wc, rw weights in Q(20), value class (0 = finite), ranks       *)
(*       ndon, don  donor counts and lists                                  *)
(*       dfs, bfs, lev  traversal orders                                    *)
(*       zm, zk, ze  the integer mantissas of the input field (zk = "int":  *)
(*                   elevation = zm * 2^ze)                                 *)
EXTENDS Util

NodesOf(x) == 0..(x.n - 1)
Msk(x, i) == At(x.mask, i) = 1
\* unmasked neighbour entries / nodes of i
UEntries(x, i) == SelectSeq(x.nb[i], LAMBDA e : ~Msk(x, e.j))
UNb(x, i) == {x.nb[i][k].j : k \in {k \in DOMAIN x.nb[i] : ~Msk(x, x.nb[i][k].j)}}

RECURSIVE Grow(_, _)
Grow(x, S) == LET T == S \cup UNION {UNb(x, i) : i \in S} IN IF T = S THEN S ELSE Grow(x, T)
\* nodes connected to an (unmasked) base level through unmasked neighbours
Conn(x) == Grow(x, {b \in x.bl : ~Msk(x, b)})

\* spill level: lowest level from which water can reach a base level (min over neighbour
\* paths of the highest input elevation on the path); least fixpoint, INF where unreachable
RECURSIVE SpillFix(_, _, _, _)
SpillStep(x, zin, S) == TLCEval([i \in NodesOf(x) |->
     IF Msk(x, i) THEN INF
     ELSE IF i \in x.bl THEN At(zin, i)
     ELSE LET c == {S[m] : m \in UNb(x, i)}
              mn == IF c = {} THEN INF ELSE SetMin(c)
          IN IF mn = INF THEN INF ELSE Max2(mn, At(zin, i))])
SpillFix(x, zin, S, k) == IF k = 0 THEN S
                          ELSE LET T == SpillStep(x, zin, S) IN IF T = S THEN S ELSE SpillFix(x, zin, T, k - 1)
Spill(x, zin) == SpillFix(x, zin, [i \in NodesOf(x) |-> IF i \in x.bl /\ ~Msk(x, i) THEN At(zin, i) ELSE INF], x.n + 1)

RecSeq(r, i) == At(r.rec, i)
RecSetOf(r, i) == RangeS(RecSeq(r, i))
SelfOnly(r, i) == At(r.nrec, i) = 1 /\ RecSeq(r, i) = <<i>>

-----------------------------------------------------------------------------
(* Well-formedness of an observation: every table has the grid's size and    *)
(* every index is a node.  Checked first; the contracts below are only       *)
(* evaluated on well-formed observations (an ill-formed one is a violation   *)
(* of every property that reads the tables - and the in-bounds precondition  *)
(* of the fixed-width tables, the proxy kept for C08).                       *)
IsNodeSeq(x, sq) == \A k \in DOMAIN sq : sq[k] \in NodesOf(x)
WellFormedGraph(x, r) ==
  /\ Len(r.nrec) = x.n /\ Len(r.rec) = x.n /\ Len(r.dq) = x.n /\ Len(r.wq) = x.n /\ Len(r.wc) = x.n
  /\ Len(r.ndon) = x.n /\ Len(r.don) = x.n /\ Len(r.dfs) = x.n /\ Len(r.bfs) = x.n /\ Len(r.lev) >= 1
  /\ \A i \in NodesOf(x) :
        /\ At(r.nrec, i) >= 1 /\ At(r.nrec, i) <= r.width /\ Len(At(r.rec, i)) = At(r.nrec, i)
        /\ Len(At(r.dq, i)) = At(r.nrec, i) /\ Len(At(r.wq, i)) = At(r.nrec, i) /\ Len(At(r.wc, i)) = At(r.nrec, i)
        /\ IsNodeSeq(x, At(r.rec, i))
        /\ At(r.ndon, i) >= 0 /\ At(r.ndon, i) <= r.dwidth /\ Len(At(r.don, i)) = At(r.ndon, i)
        /\ IsNodeSeq(x, At(r.don, i))
  /\ IsNodeSeq(x, r.dfs) /\ IsNodeSeq(x, r.bfs)
WellFormedElev(x, r) == Len(r.zin) = x.n /\ Len(r.zout) = x.n /\ Len(r.same) = x.n

-----------------------------------------------------------------------------
(* C01 - sink-resolved flow paths reach a base level.                        *)
C01Terminals(x, r) == \A i \in NodesOf(x) : (Msk(x, i) \/ i \in x.bl) => SelfOnly(r, i)
C01Descent(x, r) ==
  LET conn == Conn(x) IN
  \A i \in conn \ x.bl :
     /\ At(r.nrec, i) >= 1 /\ Len(RecSeq(r, i)) = At(r.nrec, i)
     /\ \A k \in DOMAIN RecSeq(r, i) : LET j == RecSeq(r, i)[k] IN
           j \in NodesOf(x) /\ j # i /\ ~Msk(x, j) /\ At(r.zout, j) < At(r.zout, i)
\* the literal statement: following receivers reaches a base level in finitely many steps
RECURSIVE Walk(_, _, _, _)
Walk(x, r, i, k) == IF i \in x.bl THEN TRUE
                    ELSE IF k = 0 \/ RecSeq(r, i) = <<>> \/ RecSeq(r, i)[1] \notin NodesOf(x) THEN FALSE
                    ELSE Walk(x, r, RecSeq(r, i)[1], k - 1)
C01Reaches(x, r) == \A i \in Conn(x) : Walk(x, r, i, x.n)
C01(x, r) == C01Terminals(x, r) /\ C01Descent(x, r) /\ C01Reaches(x, r)

-----------------------------------------------------------------------------
(* C02 - filling raises terrain exactly to the spill level (+ at most one    *)
(* floating-point increment per node).                                       *)
C02NotBelow(x, r) == \A i \in NodesOf(x) : At(r.zout, i) >= At(r.zin, i)
C02Fixed(x, r) == \A i \in NodesOf(x) : (Msk(x, i) \/ i \in x.bl) => (At(r.zout, i) = At(r.zin, i) /\ At(r.same, i) = 1)
\* The least fixpoint above costs (number of nodes) x (longest flood path) evaluations.  The harness also
\* logs a CERTIFICATE for it (untrusted): spn[i] = a node whose input elevation is the spill level of i
\* (-1: none), spp[i] = the neighbour through which the flood reaches i, spo[i] = flood order.  TLC verifies
\* in one pass that the certified levels are a fixpoint of SpillStep with the same finite / INF pattern
\* (hence <= the least fixpoint: along any path S(v_j) <= max(z(v_j), S(v_j-1))) and that every level is
\* witnessed by a path (parents decrease in flood order down to a base level, S(i) = max(z(i), S(parent)),
\* hence >= the least fixpoint).  A certificate that fails is ignored and the fixpoint is computed.
HasSpillCert(r) == "spn" \in DOMAIN r /\ "spp" \in DOMAIN r /\ "spo" \in DOMAIN r
SpillOfCert(x, r) == [i \in NodesOf(x) |-> IF At(r.spn, i) = 0 - 1 THEN INF ELSE At(r.zin, At(r.spn, i))]
SpillCertOK(x, r) ==
  /\ Len(r.spn) = x.n /\ Len(r.spp) = x.n /\ Len(r.spo) = x.n
  /\ \A i \in NodesOf(x) : At(r.spn, i) \in (0 - 1)..(x.n - 1) /\ At(r.spp, i) \in (0 - 1)..(x.n - 1)
  /\ LET S == TLCEval(SpillOfCert(x, r)) IN
     \A i \in NodesOf(x) :
        IF Msk(x, i) THEN S[i] = INF
        ELSE IF i \in x.bl THEN S[i] = At(r.zin, i)
        ELSE LET c == {S[m] : m \in UNb(x, i)}
                 mn == IF c = {} THEN INF ELSE SetMin(c)
             IN IF mn = INF THEN S[i] = INF
                ELSE /\ S[i] = Max2(mn, At(r.zin, i))
                     /\ LET p == At(r.spp, i) IN
                          /\ p \in UNb(x, i)
                          /\ S[p] = mn
                          /\ At(r.spo, p) < At(r.spo, i)
SpillLevels(x, r) == IF HasSpillCert(r) /\ SpillCertOK(x, r) THEN TLCEval(SpillOfCert(x, r)) ELSE Spill(x, r.zin)
\* (machinery self-check on small worlds: an accepted certificate equals the computed fixpoint)
SpillCertAgrees(x, r) == (HasSpillCert(r) /\ SpillCertOK(x, r) /\ x.n <= 30) => SpillOfCert(x, r) = Spill(x, r.zin)
C02Level(x, r) == LET S == SpillLevels(x, r) IN
   \A i \in NodesOf(x) : (~Msk(x, i) /\ S[i] # INF) => (At(r.zout, i) >= S[i] /\ At(r.zout, i) <= S[i] + x.n)
C02(x, r) == C02NotBelow(x, r) /\ C02Fixed(x, r) /\ C02Level(x, r)
\* without any elevation-updating operator the result is the input itself
ElevUntouched(x, r) == \A i \in NodesOf(x) : At(r.same, i) = 1

-----------------------------------------------------------------------------
(* C04 - single-direction routing follows steepest descent.  ze is the       *)
(* elevation seen by the router as ranks; when exact is TRUE the integer     *)
(* mantissas r.zm are that same elevation and slopes are compared exactly.   *)
LowerEntries(x, ze, i) == SelectSeq(UEntries(x, i), LAMBDA e : At(ze, e.j) < At(ze, i))
C04Node(x, r, ze, exact, i) ==
  IF Msk(x, i) \/ i \in x.bl THEN SelfOnly(r, i)
  ELSE LET L == LowerEntries(x, ze, i) IN
       IF L = <<>> THEN SelfOnly(r, i)
       ELSE /\ At(r.nrec, i) = 1 /\ Len(RecSeq(r, i)) = 1
            /\ At(r.wq, i) = <<1048576>> /\ At(r.wc, i) = <<0>>
            /\ LET j == RecSeq(r, i)[1]
                   q == At(r.dq, i)[1]
               IN /\ \E k \in DOMAIN L : L[k].j = j /\ L[k].dsq = q
                  /\ exact => LET dj == At(r.zm, i) - At(r.zm, j) IN
                        \A k \in DOMAIN L : LET dk == At(r.zm, i) - At(r.zm, L[k].j) IN
                            dj * dj * L[k].dsq >= dk * dk * q
C04(x, r, ze, exact) == \A i \in NodesOf(x) : C04Node(x, r, ze, exact, i)

-----------------------------------------------------------------------------
(* C05 - multiple-direction routing partitions flow over all lower           *)
(* neighbours.  pc is the slope exponent times 4.                            *)
IsSquare(q) == \E s \in 1..64 : s * s = q
Root(q) == CHOOSE s \in 1..64 : s * s = q
\* routed nodes (non-terminal with at least one strictly lower unmasked neighbour)
C05Routed(x, ze) == {i \in NodesOf(x) : ~Msk(x, i) /\ i \notin x.bl /\ LowerEntries(x, ze, i) # <<>>}
C05Ent(r, i) == [k \in DOMAIN RecSeq(r, i) |-> [j |-> RecSeq(r, i)[k], dsq |-> At(r.dq, i)[k]]]
C05Terminals(x, r, ze) == \A i \in NodesOf(x) \ C05Routed(x, ze) : SelfOnly(r, i)
C05Receivers(x, r, ze) == \A i \in C05Routed(x, ze) :
   LET L == LowerEntries(x, ze, i) IN
   /\ At(r.nrec, i) = Len(L) /\ Len(RecSeq(r, i)) = Len(L)
   /\ BagOfSeq(C05Ent(r, i)) = BagOfSeq(L)
C05Finite(x, r, ze) == \A i \in C05Routed(x, ze) :
   \A k \in DOMAIN RecSeq(r, i) : At(r.wc, i)[k] = 0 /\ At(r.wq, i)[k] >= 0
C05SumToOne(x, r, ze) == \A i \in C05Routed(x, ze) :
   Abs(SumSeq(At(r.wq, i)) - 1048576) <= Len(RecSeq(r, i))
C05Proportional(x, r, ze, pc) == \A i \in C05Routed(x, ze) :
   LET R == RecSeq(r, i)
       ent == C05Ent(r, i)
       W == [k \in DOMAIN R |-> At(r.wq, i)[k] \div 16]     \* Q(16), error < 2 units
   IN /\ pc = 0 => \A k \in DOMAIN R : Abs(At(r.wq, i)[k] - At(r.wq, i)[1]) <= 1
      /\ pc = 8 => \A k, m \in DOMAIN R :
            LET dk == At(r.zm, i) - At(r.zm, R[k])   dm == At(r.zm, i) - At(r.zm, R[m])
                X == dm * dm * ent[k].dsq            Y == dk * dk * ent[m].dsq
            IN (dk < 100 /\ dm < 100 /\ X < 16384 /\ Y < 16384) => Abs(W[k] * X - W[m] * Y) <= 2 * (X + Y) + 2
      /\ pc = 4 => \A k, m \in DOMAIN R :
            (IsSquare(ent[k].dsq) /\ IsSquare(ent[m].dsq)) =>
            LET dk == At(r.zm, i) - At(r.zm, R[k])   dm == At(r.zm, i) - At(r.zm, R[m])
                X == dm * Root(ent[k].dsq)            Y == dk * Root(ent[m].dsq)
            IN (dk < 1000 /\ dm < 1000 /\ X < 16384 /\ Y < 16384) => Abs(W[k] * X - W[m] * Y) <= 2 * (X + Y) + 2

-----------------------------------------------------------------------------
(* C06 - tables and traversal orders are mutually consistent.                *)
\* receiver -> donor pairs and donor-table pairs, self entries dropped, as bags
RecPairs(x, r) == [p \in {<<RecSeq(r, j)[k], j>> : j \in NodesOf(x), k \in 1..8} \cap (NodesOf(x) \X NodesOf(x)) |-> 0]
PairCountRec(x, r, i, j) == Cardinality({k \in DOMAIN RecSeq(r, j) : RecSeq(r, j)[k] = i})
PairCountDon(x, r, i, j) == Cardinality({k \in DOMAIN At(r.don, i) : At(r.don, i)[k] = j})
C06Donors(x, r) ==
  /\ \A i \in NodesOf(x) : /\ At(r.ndon, i) <= r.dwidth /\ Len(At(r.don, i)) = At(r.ndon, i)
                          /\ At(r.nrec, i) >= 1 /\ At(r.nrec, i) <= r.width /\ Len(RecSeq(r, i)) = At(r.nrec, i)
                          /\ RecSetOf(r, i) \subseteq NodesOf(x)
                          /\ RangeS(At(r.don, i)) \subseteq NodesOf(x)
  /\ \A i \in NodesOf(x) :
       \* every donor entry of i is a receiver entry of that donor, and every receiver entry of i is a donor
       \* entry of that receiver, with the same multiplicity (both directions, linear in the table sizes)
       /\ \A j \in RangeS(At(r.don, i)) \ {i} : PairCountDon(x, r, i, j) = PairCountRec(x, r, i, j)
       /\ \A j \in RecSetOf(r, i) \ {i} : PairCountDon(x, r, j, i) = PairCountRec(x, r, j, i)
\* Positions in a traversal order.  On large worlds the harness logs the inverse permutation as an
\* UNTRUSTED certificate (dpos / bpos, and blev = level of each node): it is used only after TLC has
\* verified, in one pass, that it is the inverse of the logged order (which also shows that the order
\* has no duplicate); without a certificate the positions are computed here.
CertInverse(sq, inv, n) == Len(sq) = n /\ Len(inv) = n /\ \A k \in 1..n : sq[k] \in 0..(n - 1) /\ At(inv, sq[k]) = k - 1
C06Dfs(x, r) ==
  IF "dpos" \in DOMAIN r
    THEN /\ CertInverse(r.dfs, r.dpos, x.n)
         /\ \A i \in NodesOf(x) : \A j \in RecSetOf(r, i) \ {i} : At(r.dpos, j) < At(r.dpos, i)
    ELSE /\ IsPerm0(r.dfs, x.n)
         /\ LET pos == TLCEval([i \in NodesOf(x) |-> PosIn(r.dfs, i)]) IN
            \A i \in NodesOf(x) : \A j \in RecSetOf(r, i) \ {i} : pos[j] < pos[i]
C06Bfs(x, r) ==
  /\ Len(r.lev) >= 2 /\ r.lev[1] = 0 /\ r.lev[Len(r.lev)] = x.n
  /\ \A k \in 1..(Len(r.lev) - 1) : r.lev[k] < r.lev[k + 1]
  /\ IF "bpos" \in DOMAIN r
       THEN /\ CertInverse(r.bfs, r.bpos, x.n)
            /\ Len(r.blev) = x.n
            /\ \A i \in NodesOf(x) : LET k == At(r.blev, i) IN
                  k \in 1..(Len(r.lev) - 1) /\ r.lev[k] <= At(r.bpos, i) /\ At(r.bpos, i) < r.lev[k + 1]
            /\ \A i \in NodesOf(x) : \A j \in RecSetOf(r, i) \ {i} : At(r.blev, j) < At(r.blev, i)
       ELSE /\ IsPerm0(r.bfs, x.n)
            /\ LET pos == TLCEval([i \in NodesOf(x) |-> PosIn(r.bfs, i)])
                   level == TLCEval([i \in NodesOf(x) |-> CHOOSE k \in 1..(Len(r.lev) - 1) : r.lev[k] <= pos[i] /\ pos[i] < r.lev[k + 1]])
               IN \A i \in NodesOf(x) : \A j \in RecSetOf(r, i) \ {i} : level[j] < level[i]
C06(x, r) == C06Donors(x, r) /\ C06Dfs(x, r) /\ C06Bfs(x, r)

-----------------------------------------------------------------------------
(* C19 - basin labels partition a single-direction graph by outlet.          *)
(* b: [lab (label per node, -1 = reserved maximum), outlets, pits]           *)
C19(x, r, b) ==
  LET outl == {i \in NodesOf(x) : ~Msk(x, i) /\ RecSeq(r, i) = <<i>>}
      pos == TLCEval([i \in outl |-> PosIn(r.dfs, i)])      \* (only compared between outlets)
      k == Cardinality(outl)
      labels == {At(b.lab, i) : i \in {i \in NodesOf(x) : ~Msk(x, i)}}
  IN /\ \A i \in NodesOf(x) : IF Msk(x, i) THEN At(b.lab, i) = 0 - 1
                                          ELSE At(b.lab, i) = At(b.lab, RecSeq(r, i)[1])
     \* (set-level forms: each of outl, k, labels is evaluated once, whatever the size of the world)
     /\ labels \subseteq 0..(k - 1)
     /\ \A i, j \in outl : (pos[i] < pos[j]) => At(b.lab, i) < At(b.lab, j)
     /\ {At(b.lab, i) : i \in outl} = 0..(k - 1)
     /\ Cardinality(labels) = k
     /\ RangeS(b.outlets) = outl /\ Len(b.outlets) = k
     /\ RangeS(b.pits) = outl \ x.bl /\ Len(b.pits) = Cardinality(outl \ x.bl)

-----------------------------------------------------------------------------
(* C03 - accumulation is the upstream integral and conserves the source.     *)
(* a: [src, K, racc, ai, ax, area, areax]; exact integer balance when every  *)
(* quantity involved is an exact integer (single direction: weights are 1;   *)
(* multiple direction: weights that are multiples of 2^-8, logged as w8).    *)
AccOverloadsAgree(a) == \A k \in DOMAIN a.racc : a.racc[k] = a.racc[1]
AccExactDomain(x, r, a) == /\ \A i \in NodesOf(x) : At(a.ax, i) = 1 /\ At(a.areax, i) = 1
                           /\ \A i \in NodesOf(x) : \A k \in DOMAIN RecSeq(r, i) : At(r.w8, i)[k] >= 0
Pow2(k) == IF k = 0 THEN 1 ELSE 2 ^ k
AccBalance(x, r, a) ==
  \A i \in NodesOf(x) :
     At(a.ai, i) * 256 = At(a.area, i) * At(a.src, i) * Pow2(a.K) * 256
        + SumSeq([q \in 1..(x.n * r.width) |->
             LET j == (q - 1) \div r.width   k == ((q - 1) % r.width) + 1
             IN IF k <= Len(RecSeq(r, j)) /\ RecSeq(r, j)[k] = i /\ j # i
                  THEN At(a.ai, j) * At(r.w8, j)[k] ELSE 0])
\* The same balance on EVERY graph whose values are in range, in fixed point: acc in units of 2^-5 (aq),
\* weights cut to 2^-9 (from the logged Q(20) weights), both sides in units of 2^-14.  The tolerance is
\* the quantisation alone: half a unit of aq on the left (256), and per donor term |acc_d| 2^-9 for the
\* weight (= |aq_d| units) plus 2^-6 for the donor's accumulation (256 units) plus one for the cut.
AccApproxDomain(x, r, a) == "aqx" \in DOMAIN a /\ a.aqx = 1 /\ \A i \in NodesOf(x) : At(a.areax, i) = 1
AccApproxBalance(x, r, a) ==
  \A i \in NodesOf(x) :
     LET slot(q) == LET j == (q - 1) \div r.width   k == ((q - 1) % r.width) + 1
                    IN IF k <= Len(RecSeq(r, j)) /\ RecSeq(r, j)[k] = i /\ j # i
                         THEN <<At(a.aq, j) * (At(r.wq, j)[k] \div 2048), Abs(At(a.aq, j)) + 257>>
                         ELSE <<0, 0>>
         sl == [q \in 1..(x.n * r.width) |-> slot(q)]
         sum == SumSeq([q \in 1..(x.n * r.width) |-> sl[q][1]])
         tol == 256 + SumSeq([q \in 1..(x.n * r.width) |-> sl[q][2]])
     IN Abs(At(a.aq, i) * 512 - (At(a.area, i) * At(a.src, i) * 16384 + sum)) <= tol
AccConserves(x, r, a) ==
  LET term == {i \in NodesOf(x) : RecSetOf(r, i) = {i}}
      ai == [i \in NodesOf(x) |-> At(a.ai, i)]
      loc == [i \in NodesOf(x) |-> At(a.area, i) * At(a.src, i) * Pow2(a.K)]
  IN SumOver(ai, term) = SumOver(loc, NodesOf(x))
AccLocalBound(x, a) == (\A i \in NodesOf(x) : At(a.src, i) >= 0) =>
                       \A i \in NodesOf(x) : At(a.ai, i) >= At(a.area, i) * At(a.src, i) * Pow2(a.K)
\* indicator runs (src = unit at u) on single-direction graphs: acc is bit-exactly 0 or area[u]
\* and is non-zero exactly on the nodes downstream of u
RECURSIVE DownChain(_, _, _, _)
DownChain(x, r, i, k) == IF k = 0 \/ RecSeq(r, i)[1] = i THEN {i} ELSE {i} \cup DownChain(x, r, RecSeq(r, i)[1], k - 1)
AccIndicator(x, r, a) ==
  LET us == {i \in NodesOf(x) : At(a.src, i) # 0} IN
  (Cardinality(us) = 1 /\ r.width = 1) =>
     LET u == CHOOSE i \in us : TRUE
         down == DownChain(x, r, u, x.n)
     IN (At(a.src, u) = 1) =>
        \A i \in NodesOf(x) : At(a.racc[1], i) = (IF i \in down THEN At(a.rarea, u) ELSE a.rzero)
-----------------------------------------------------------------------------
(* C10 - kernels.  k: [dir, thr, calls, begin, end, out, threw]              *)
\* expected output of the test kernel on an ordered traversal: length of the longest receiver
\* path to a terminal node (computed along the bottom-up order, receivers first)
RECURSIVE LongestFold(_, _, _, _)
LongestFold(x, r, k, f) ==
  IF k > Len(r.dfs) THEN f
  ELSE LET i == r.dfs[k]
           up == RecSetOf(r, i) \ {i}
           v == IF up = {} THEN 0 ELSE 1 + SetMax({f[j] : j \in up})
       IN LongestFold(x, r, k + 1, (i :> v) @@ f)
Longest(x, r) == LongestFold(x, r, 1, [z \in {} |-> 0])
KernelExactlyOnce(x, k) == \A i \in NodesOf(x) : At(k.calls, i) = 1
KernelReceiversFirst(x, r, k) == \A i \in NodesOf(x) : \A j \in RecSetOf(r, i) \ {i} : At(k.end, j) < At(k.begin, i)
KernelOutput(x, r, k) == IF k.dir = "any" THEN \A i \in NodesOf(x) : At(k.out, i) = 3 * i + 1
                         ELSE LET lp == Longest(x, r) IN \A i \in NodesOf(x) : At(k.out, i) = lp[i]

-----------------------------------------------------------------------------
(* C12 - stream-power erosion is non-negative and never reverses a slope.    *)
(* e: [rh, re, rhn, rzero, ez, ecls]; rhn = fl(h - e) as the eroder computes *)
MinRecNext(r, e, i) == SetMin({At(e.rhn, j) : j \in RecSetOf(r, i)})
SplTerminalsZero(x, r, e) == \A i \in NodesOf(x) : (Msk(x, i) \/ SelfOnly(r, i)) => At(e.ez, i) = 1
SplLakesZero(x, r, e) == \A i \in NodesOf(x) : (~SelfOnly(r, i) /\ At(e.rh, i) <= MinRecNext(r, e, i)) => At(e.ez, i) = 1
SplFinite(x, e) == \A i \in NodesOf(x) : At(e.ecls, i) = 0
\* "never negative beyond rounding": the new elevation is (h + sum f_k h_k) / (1 + sum f_k) evaluated in
\* floating point, one product and two additions per receiver plus the division and the final
\* subtraction; each contributes at most one ulp at the magnitude of h, hence 2 + 2 nrec ulps
SplNonNegative(x, r, e) == \A i \in NodesOf(x) : At(e.rhn, i) <= At(e.rh, i) + 2 + 2 * At(r.nrec, i)
\* a node that is eroded (non-zero erosion) is not lowered below its lowest receiver
\* (rhnu: the recomputed elevation plus two ulps of the node's own magnitude - the erosion is
\* returned rounded at that magnitude, so "not below" can only be meant up to it)
SplNoReversal(x, r, e) == \A i \in NodesOf(x) : (~SelfOnly(r, i) /\ At(e.ez, i) = 0) => At(e.rhnu, i) >= MinRecNext(r, e, i)

-----------------------------------------------------------------------------
(* C13 - the step solves the implicit (backward Euler) equation.  Exact      *)
(* cases: integer elevations hi, claimed exact solution e.expect (integers), *)
(* integer factors e.f[i] = K dt (A w)^m / d^n, slope exponent code ncode    *)
(* (1: n = 1/2, 2: n = 1, 4: n = 2, 6: n = 3).  TLC first checks that the    *)
(* claimed solution satisfies the equation exactly, then that the erosion    *)
(* returned by the real eroder encloses it.                                  *)
ISqrt(v) == CHOOSE s \in 0..64 : s * s = v
PowN(d, ncode) == CASE ncode = 1 -> ISqrt(d) [] ncode = 2 -> d [] ncode = 4 -> d * d [] ncode = 6 -> d * d * d
SplExactSolution(x, r, e) ==
  \A i \in NodesOf(x) :
     IF SelfOnly(r, i) THEN At(e.expect, i) = At(e.hi, i)
     ELSE At(e.hi, i) = At(e.expect, i)
            + SumSeq([k \in DOMAIN RecSeq(r, i) |->
                 LET j == RecSeq(r, i)[k] IN At(e.f, i)[k] * PowN(At(e.expect, i) - At(e.expect, j), e.ncode)])
\* The property speaks of the nodes whose erosion was NOT limited: nodes at the limiter's value
\* (e.lim) and the nodes upstream of them (their receivers no longer have the expected elevation)
\* are left out; the error of the others accumulates along the receiver path.
SplClean(x, r, e) ==
  LET RECURSIVE Up(_, _)
      Up(S, k) == IF k = 0 THEN S
                  ELSE LET T == S \cup {i \in NodesOf(x) : RecSetOf(r, i) \cap S # {}} IN IF T = S THEN S ELSE Up(T, k - 1)
  IN NodesOf(x) \ Up({i \in NodesOf(x) : At(e.lim, i) = 1}, x.n)
SplLimitedCount(x, e) == Cardinality({i \in NodesOf(x) : At(e.lim, i) = 1}) >= e.ncorr
SplEncloses(x, r, e) ==
  LET lp == Longest(x, r) IN
  \A i \in SplClean(x, r, e) :
     Abs(At(e.eq, i) - (At(e.hi, i) - At(e.expect, i)) * 1048576) <= (lp[i] + 1) * (e.tolq + 4)
\* The residual of the implicit equation itself, for n = 1 and n = 2 on single-direction graphs.  With
\* eps_i = (returned new elevation) - (exact solution) in units of 2^-20 and u = eps_i - eps_r, the
\* residual at node i, given the receiver's RETURNED new elevation, is
\*    eps_i + F ((d + u)^n - d^n)        d = exact drop to the receiver (an integer), F = K dt A^m / L^n
\* i.e. eps_i + F u (n = 1), eps_i + F (2 d u + u^2) (n = 2).  The Newton loop leaves |residual| <= tol;
\* the slack is the quantisation of eps (one unit each) propagated through the same expression.
\* An exponent close to one is not one.  The exact n = 1 case (new elevations e.expect, coefficients F, drops d)
\* given to an eroder with n = 1 + 2^-27 and tolerance 2^-40: at the n = 1 solution the residual of its equation
\* is F d (s^delta - 1) >= F d delta ln s with s = d / L the slope, and its derivative is at most 1 + 1.02 F, so
\* for s >= 4 (ln s > 1.38) the solution lies at least delta F d / (1 + F) below the n = 1 solution - and lower
\* still when the receiver's own solution is lower.  dn40 = (n = 1 solution) - (returned elevation) in units of
\* 2^-40; the Newton tolerance and the rounding of the subtraction are worth a few units; half the bound is asked.
SplNearOneIsNotOne(x, r, e) ==
  \A i \in SplClean(x, r, e) :
     (~SelfOnly(r, i) /\ Len(RecSeq(r, i)) = 1 /\ e.ncode = 2 /\ At(e.f, i)[1] >= 1) =>
        LET j == RecSeq(r, i)[1]
            F == At(e.f, i)[1]
            d == At(e.expect, i) - At(e.expect, j)
            L2 == At(r.dq, i)[1]
        IN (d > 0 /\ d * d >= 16 * L2 /\ d < 4096 /\ F < 4096) => At(e.dn40, i) >= (8192 * F * d) \div (2 * (1 + F))
SplEps(e, i) == (At(e.hi, i) - At(e.expect, i)) * 1048576 - At(e.eq, i)
SplResidualSharp(x, r, e) ==
  \A i \in SplClean(x, r, e) :
     (~SelfOnly(r, i) /\ Len(RecSeq(r, i)) = 1 /\ e.ncode \in {2, 4}) =>
        LET j == RecSeq(r, i)[1]
            F == At(e.f, i)[1]
            d == At(e.expect, i) - At(e.expect, j)
            u == SplEps(e, i) - SplEps(e, j)
            guard == Abs(u) <= 1073741824 \div (2 * F * Abs(d) + 1) /\ Abs(SplEps(e, i)) < 536870912
            res == IF e.ncode = 2 THEN SplEps(e, i) + F * u
                   ELSE SplEps(e, i) + F * (2 * d * u + (u \div 1024) * (u \div 1024))
            slack == 4 + F * (4 * Abs(d) + (Abs(u) \div 256) + 4)
        IN guard => Abs(res) <= e.tolq + slack
-----------------------------------------------------------------------------
(* C15 - the basin graph tree is a minimum spanning tree over the lowest     *)
(* passes.  b: [nb, lab, outlets, edges (<<l0, l1, p0, p1, w>>, p = -1 for   *)
(* the virtual root edges), tree (edge indices, 0-based), z (ranks)]         *)
BgBasins(b) == 0..(b.nb - 1)
BgInner(x, b, A) == At(b.outlets, A) \notin x.bl
BgNodesOf(x, b, A) == {i \in NodesOf(x) : At(b.lab, i) = A}
\* every neighbouring pair of unmasked nodes lying in two different basins, with the higher of
\* the two elevations: <<basin, basin, weight>> (evaluated once per observation)
BgCross(x, b) == TLCEval(UNION {{<<At(b.lab, i), At(b.lab, j), Max2(At(b.z, i), At(b.z, j))>> :
                                   j \in {j \in UNb(x, i) : At(b.lab, j) # At(b.lab, i)}} :
                                i \in {i \in NodesOf(x) : ~Msk(x, i)}})
\* lowest pass between two adjacent basins
BgPassWIn(cross, A, B) == SetMin({t[3] : t \in {t \in cross : t[1] = A /\ t[2] = B}})
BgExpectedLinksIn(x, b, cross) == {{t[1], t[2]} : t \in {t \in cross : BgInner(x, b, t[1]) \/ BgInner(x, b, t[2])}}
BgReal(b) == {k \in DOMAIN b.edges : b.edges[k][3] # 0 - 1}
BgVirtual(b) == {k \in DOMAIN b.edges : b.edges[k][3] = 0 - 1}
BgWellFormed(x, b) ==
  /\ Len(b.lab) = x.n /\ Len(b.z) = x.n /\ Len(b.outlets) = b.nb /\ IsNodeSeq(x, b.outlets)
  /\ \A i \in NodesOf(x) : At(b.lab, i) \in (0 - 1)..(b.nb - 1)
  /\ \A k \in DOMAIN b.edges : LET e == b.edges[k] IN
        /\ Len(e) = 5 /\ e[1] \in 0..(b.nb - 1) /\ e[2] \in 0..(b.nb - 1)
        /\ (e[3] = 0 - 1 /\ e[4] = 0 - 1) \/ (e[3] \in NodesOf(x) /\ e[4] \in NodesOf(x))
BgLabelsOK(x, b) == /\ Len(b.outlets) = b.nb
                    /\ \A A \in BgBasins(b) : At(b.lab, At(b.outlets, A)) = A
BgEdgesOK(x, b) ==
  LET cross == BgCross(x, b)
      links == BgExpectedLinksIn(x, b, cross)
  IN /\ \A k \in BgReal(b) : LET e == b.edges[k] IN
          /\ {e[1], e[2]} \in links
          /\ At(b.lab, e[3]) = e[1] /\ At(b.lab, e[4]) = e[2] /\ e[4] \in UNb(x, e[3])
          /\ e[5] = Max2(At(b.z, e[3]), At(b.z, e[4]))
          /\ e[5] = BgPassWIn(cross, e[1], e[2])
     /\ \A S \in links : Cardinality({k \in BgReal(b) : {b.edges[k][1], b.edges[k][2]} = S}) = 1
BgVirtualOK(x, b) ==
  LET outer == {A \in BgBasins(b) : ~BgInner(x, b, A)} IN
  /\ \A k \in BgVirtual(b) : b.edges[k][1] \in outer /\ b.edges[k][2] \in outer /\ b.edges[k][1] # b.edges[k][2]
  /\ Cardinality(BgVirtual(b)) = (IF outer = {} THEN 0 ELSE Cardinality(outer) - 1)
  /\ \A k, m \in BgVirtual(b) : k # m => {b.edges[k][1], b.edges[k][2]} # {b.edges[m][1], b.edges[m][2]}
  \* all virtual edges share one end (the root)
  /\ BgVirtual(b) # {} => \E rt \in outer : \A k \in BgVirtual(b) : rt \in {b.edges[k][1], b.edges[k][2]}
\* connectivity over a set of edge indices
BgLink(b, k) == {b.edges[k][1], b.edges[k][2]}
RECURSIVE BgReach(_, _, _)
BgReach(b, K, S) == LET T == S \cup UNION {BgLink(b, k) : k \in {k \in K : BgLink(b, k) \cap S # {}}} IN
                    IF T = S THEN S ELSE BgReach(b, K, T)
BgComponents(b, K) == {BgReach(b, K, {A}) : A \in BgBasins(b)}
BgTreeRaw(b) == {At(b.tree, k) + 1 : k \in Idx0(b.tree)}
\* (indices outside the edge list are reported by BgTreeOK and ignored by the other predicates)
BgTreeIdx(b) == BgTreeRaw(b) \cap DOMAIN b.edges
BgW(b, k) == b.edges[k][5]
BgTreeOK(x, b) ==
  LET T == BgTreeIdx(b)
      all == DOMAIN b.edges
  IN /\ BgTreeRaw(b) \subseteq all /\ Cardinality(BgTreeRaw(b)) = Len(b.tree)
     \* spanning forest of the edge graph: same components, as few edges as possible (so acyclic)
     /\ BgComponents(b, T) = BgComponents(b, all)
     /\ Cardinality(T) = b.nb - Cardinality(BgComponents(b, all))
BgMinimal(x, b) ==
  LET T == BgTreeIdx(b) IN
  \* cycle property: the ends of every non-tree edge are joined by tree edges that are not heavier
  \A k \in (DOMAIN b.edges) \ T :
     b.edges[k][2] \in BgReach(b, {t \in T : BgW(b, t) <= BgW(b, k)}, {b.edges[k][1]})
BgOriented(x, b) ==
  LET T == BgTreeIdx(b)
      indeg(A) == Cardinality({t \in T : b.edges[t][2] = A})
      roots == {A \in BgBasins(b) : indeg(A) = 0}
  IN /\ \A A \in BgBasins(b) : indeg(A) <= 1
     /\ Cardinality(roots) = Cardinality(BgComponents(b, T))
     \* the component that holds the base-level (outer) basins is rooted at one of them
     /\ \A A \in roots : (\E O \in BgReach(b, T, {A}) : ~BgInner(x, b, O)) => ~BgInner(x, b, A)
BgSortedWeights(b) == LET T == BgTreeIdx(b)
                          ws == {BgW(b, t) : t \in T}
                      IN [w \in ws |-> Cardinality({t \in T : BgW(b, t) = w})]
=============================================================================
