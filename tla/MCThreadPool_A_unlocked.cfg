CONSTANTS
  MaxW = 2
  InitSize = 1
  Program <- ProgA
  RelPublish = TRUE
  AcqWorker = TRUE
  RelDone = TRUE
  AcqWait = TRUE
  LockedNotify = FALSE
  SpuriousWake = FALSE
SPECIFICATION FairSpec
INVARIANTS NoDataRace ExactlyOnce TypeOK MutexOK
PROPERTY Termination
CHECK_DEADLOCK FALSE
