------------------------------ MODULE SPLSweep ------------------------------
(* L2 model of spl_eroder::erode (eroders/spl.hpp): the bottom-up sweep with *)
(* its per-node case analysis {terminal, lake, solved, limited}.  The        *)
(* numerical solver (direct formula for n = 1, Newton iterations otherwise)  *)
(* is abstracted as returning ANY integer elevation between (lowest          *)
(* receiver's new elevation - 2) and (the node's elevation + 1): whatever    *)
(* the solver does - undershoot, overshoot, early exit - the clamp must      *)
(* make the L1 contract of C12 hold.  Graphs: every forest / DAG with at     *)
(* most MaxRec receivers on N nodes whose receivers have lower indices (the  *)
(* sweep order is the node order), elevations over Levels.                   *)
EXTENDS Util, FlowContract

CONSTANTS N, MaxRec, Levels

NodeSet == 0..(N - 1)
RecChoices(i) == {<<i>>} \cup {SortedSeq(S) : S \in {S \in SUBSET (0..(i - 1)) : S # {} /\ Cardinality(S) <= MaxRec}}
Graphs == {rc \in [NodeSet -> UNION {RecChoices(i) : i \in NodeSet}] : \A i \in NodeSet : rc[i] \in RecChoices(i)}

VARIABLES rec, h, e, i, kind
svars == <<rec, h, e, i, kind>>
Init == /\ rec \in Graphs /\ h \in [NodeSet -> Levels] /\ e = [j \in NodeSet |-> 0] /\ i = 0
        /\ kind = [j \in NodeSet |-> "none"]

Flooded(j) == SetMin({h[r] - e[r] : r \in RangeS(rec[j])})
Step ==
  /\ i < N
  /\ IF rec[i] = <<i>> THEN e' = e /\ kind' = [kind EXCEPT ![i] = "terminal"]
     ELSE IF h[i] <= Flooded(i) THEN e' = e /\ kind' = [kind EXCEPT ![i] = "lake"]
     ELSE \E cand \in (Flooded(i) - 2)..(h[i] + 1) :      \* whatever the solver returns
            IF cand < Flooded(i)
              THEN e' = [e EXCEPT ![i] = h[i] - Flooded(i)] /\ kind' = [kind EXCEPT ![i] = "limited"]
              ELSE e' = [e EXCEPT ![i] = h[i] - cand] /\ kind' = [kind EXCEPT ![i] = "solved"]
  /\ i' = i + 1 /\ UNCHANGED <<rec, h>>
Spec == Init /\ [][Step]_svars /\ WF_svars(Step)

\* L1 contract on the final state (the predicates used for trace validation; elevations are
\* integers here, so ranks are the values themselves and the rounding slack is not needed)
X == [n |-> N, nb |-> [j \in NodeSet |-> <<>>], mask |-> [k \in 1..N |-> 0], bl |-> {}]
R == [rec |-> [k \in 1..N |-> rec[k - 1]], nrec |-> [k \in 1..N |-> Len(rec[k - 1])]]
E == [rh |-> [k \in 1..N |-> h[k - 1]], rhn |-> [k \in 1..N |-> h[k - 1] - e[k - 1]],
      rhnu |-> [k \in 1..N |-> h[k - 1] - e[k - 1]],
      ez |-> [k \in 1..N |-> IF e[k - 1] = 0 THEN 1 ELSE 0], ecls |-> [k \in 1..N |-> 0]]
RefinesC12 == i = N => /\ SplTerminalsZero(X, R, E) /\ SplLakesZero(X, R, E) /\ SplNoReversal(X, R, E)
\* an overshooting solver (cand = h + 1) gives erosion -1: "negative beyond rounding" would need
\* the solver to be wrong by more than its rounding; the model shows where it can enter
NonNegativeUnlessOvershoot == i = N => \A j \in NodeSet : e[j] >= 0 - 1
Terminates == <>(i = N)
=============================================================================
