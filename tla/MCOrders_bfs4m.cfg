CONSTANTS
  N = 4
  MaxRec = 2
  Algo = "bfs"
SPECIFICATION Spec
INVARIANTS DfsOK BfsOK Bounded
PROPERTY Terminates
CHECK_DEADLOCK FALSE
