------------------------------- MODULE Orders -------------------------------
(* L2 models of the three traversal-order algorithms of flow_graph_impl      *)
(* (compute_dfs_indices_bottomup, compute_dfs_indices_topdown,              *)
(* compute_bfs_indices_bottomup), one action per loop iteration, over        *)
(* explicit stack / queue variables.  The graph (receivers) is chosen        *)
(* arbitrarily in the initial state among ALL forests (single direction) or  *)
(* DAGs with at most MaxRec receivers per node (multiple direction) on N     *)
(* nodes; donors are built in node order as the routers do.                  *)
(* TLC checks that every terminal state satisfies the L1 predicates that     *)
(* recorded traces are validated against (FlowContract!C06Dfs / C06Bfs /     *)
(* C06Donors) and that every algorithm terminates.                           *)
EXTENDS Util, FlowContract, SequencesExt

CONSTANTS N, MaxRec, Algo      \* Algo in {"dfs_bottomup", "dfs_topdown", "bfs"}

NodeSet == 0..(N - 1)
\* a receiver assignment is a function node -> sequence of receivers (self-receiver = terminal)
Terminal(rc, i) == rc[i] = <<i>>
RECURSIVE Desc(_, _, _)
Desc(rc, S, k) == IF k = 0 THEN S ELSE Desc(rc, S \cup UNION {RangeS(rc[i]) : i \in S}, k - 1)
Acyclic(rc) == \A i \in NodeSet : Terminal(rc, i) \/ i \notin Desc(rc, RangeS(rc[i]), N)
RecChoices(i) == {<<i>>} \cup {SortedSeq(S) : S \in {S \in SUBSET (NodeSet \ {i}) : S # {} /\ Cardinality(S) <= MaxRec}}
Graphs == {rc \in [NodeSet -> UNION {RecChoices(i) : i \in NodeSet}] :
             (\A i \in NodeSet : rc[i] \in RecChoices(i)) /\ Acyclic(rc)}
\* donors in the order the routers produce them (increasing donor index)
DonorsOf(rc, i) == SortedSeq({j \in NodeSet : j # i /\ i \in RangeS(rc[j])})

VARIABLES rec, pc, i, stack, out, visited, vcount, lvl, scan
ovars == <<rec, pc, i, stack, out, visited, vcount, lvl, scan>>

Init == /\ rec \in Graphs /\ pc = "outer" /\ i = 0 /\ stack = <<>> /\ out = <<>>
        /\ visited = [j \in NodeSet |-> 0] /\ vcount = [j \in NodeSet |-> 0]
        /\ lvl = <<>> /\ scan = 0

\* ---------------- compute_dfs_indices_bottomup (single direction: first receiver only)
DfsBU_Outer == /\ Algo = "dfs_bottomup" /\ pc = "outer" /\ stack = <<>>
               /\ IF i = N THEN pc' = "done" /\ UNCHANGED <<i, stack, out>>
                  ELSE /\ i' = i + 1 /\ pc' = "outer"
                       /\ IF rec[i][1] = i THEN stack' = <<i>> /\ out' = Append(out, i)
                          ELSE UNCHANGED <<stack, out>>
               /\ UNCHANGED <<rec, visited, vcount, lvl, scan>>
DfsBU_Pop == /\ Algo = "dfs_bottomup" /\ pc = "outer" /\ stack # <<>>
             /\ LET top == stack[Len(stack)]
                    ds == SelectSeq(DonorsOf(rec, top), LAMBDA d : rec[d][1] = top)
                IN /\ out' = out \o ds
                   /\ stack' = SubSeq(stack, 1, Len(stack) - 1) \o ds
             /\ UNCHANGED <<rec, pc, i, visited, vcount, lvl, scan>>

\* ---------------- compute_dfs_indices_topdown (any direction), result reversed at the end
DfsTD_Outer == /\ Algo = "dfs_topdown" /\ pc = "outer" /\ stack = <<>>
               /\ IF i = N THEN pc' = "done" /\ out' = Reverse(out) /\ UNCHANGED <<i, stack>>
                  ELSE /\ i' = i + 1 /\ pc' = "outer" /\ UNCHANGED out
                       /\ stack' = IF DonorsOf(rec, i) = <<>> THEN <<i>> ELSE <<>>
               /\ UNCHANGED <<rec, visited, vcount, lvl, scan>>
RECURSIVE VisitRecs(_, _, _, _)
\* receivers of node t in order: bump their visit counts, push those whose donors are all seen
VisitRecs(rs, k, vc, st) ==
  IF k > Len(rs) THEN <<vc, st>>
  ELSE LET r == rs[k]
           vc2 == [vc EXCEPT ![r] = @ + 1]
       IN VisitRecs(rs, k + 1, vc2, IF vc2[r] = Len(DonorsOf(rec, r)) THEN Append(st, r) ELSE st)
DfsTD_Pop == /\ Algo = "dfs_topdown" /\ pc = "outer" /\ stack # <<>>
             /\ LET top == stack[Len(stack)]
                    rs == SelectSeq(rec[top], LAMBDA r : TRUE)
                    res == VisitRecs(rs, 1, vcount, SubSeq(stack, 1, Len(stack) - 1))
                IN /\ out' = Append(out, top) /\ vcount' = res[1] /\ stack' = res[2]
             /\ UNCHANGED <<rec, pc, i, visited, lvl, scan>>

\* ---------------- compute_bfs_indices_bottomup
Bfs_Start == /\ Algo = "bfs" /\ pc = "outer"
             /\ out' = SortedSeq({j \in NodeSet : rec[j][1] = j})
             /\ lvl' = <<0, Cardinality({j \in NodeSet : rec[j][1] = j})>>
             /\ pc' = "level" /\ scan' = 0
             /\ UNCHANGED <<rec, i, stack, visited, vcount>>
RECURSIVE BfsDonors(_, _, _, _)
\* donors of node t in order: queue those not yet visited whose receivers are all finished (= 1)
BfsDonors(ds, k, vis, o) ==
  IF k > Len(ds) THEN <<vis, o>>
  ELSE LET d == ds[k] IN
       IF vis[d] > 0 \/ (\E r \in RangeS(rec[d]) : vis[r] # 1) THEN BfsDonors(ds, k + 1, vis, o)
       ELSE BfsDonors(ds, k + 1, [vis EXCEPT ![d] = 2], Append(o, d))
Bfs_Level == /\ Algo = "bfs" /\ pc = "level"
             /\ IF Len(out) = N /\ scan = 0 THEN pc' = "done" /\ UNCHANGED <<out, visited, lvl, scan>>
                ELSE LET lo == lvl[Len(lvl) - 1]   hi == lvl[Len(lvl)] IN
                     IF lo + scan < hi
                       THEN LET t == out[lo + scan + 1]
                                vis1 == [visited EXCEPT ![t] = 1]
                                res == BfsDonors(DonorsOf(rec, t), 1, vis1, out)
                            IN visited' = res[1] /\ out' = res[2] /\ scan' = scan + 1 /\ UNCHANGED <<lvl, pc>>
                       ELSE /\ visited' = [j \in NodeSet |-> IF \E k \in (lo + 1)..hi : out[k] = j THEN 1 ELSE visited[j]]
                            /\ lvl' = Append(lvl, Len(out)) /\ scan' = 0 /\ UNCHANGED <<out, pc>>
             /\ UNCHANGED <<rec, i, stack, vcount>>

Next == DfsBU_Outer \/ DfsBU_Pop \/ DfsTD_Outer \/ DfsTD_Pop \/ Bfs_Start \/ Bfs_Level
Spec == Init /\ [][Next]_ovars /\ WF_ovars(Next)

\* ---------------- L1 predicates on the terminal state
X == [n |-> N, nb |-> [j \in NodeSet |-> <<>>], mask |-> [k \in 1..N |-> 0], bl |-> {}]
R == [rec |-> [k \in 1..N |-> rec[k - 1]], nrec |-> [k \in 1..N |-> Len(rec[k - 1])],
      dfs |-> out, bfs |-> out, lev |-> lvl]
DfsOK == (pc = "done" /\ Algo # "bfs") => C06Dfs(X, R)
BfsOK == (pc = "done" /\ Algo = "bfs") => C06Bfs(X, R)
\* no array is ever written past its end (the fixed-size tables of the implementation)
Bounded == Len(out) <= N /\ Len(lvl) <= N + 1
\* what compute_basins needs beyond C06Dfs (see Sweeps): each outlet is followed by its whole catchment
RECURSIVE OutletOf(_, _)
OutletOf(j, m) == IF m = 0 \/ rec[j][1] = j THEN j ELSE OutletOf(rec[j][1], m - 1)
ContigOK == (pc = "done" /\ Algo = "dfs_bottomup") =>
   \A q \in 1..N : LET os == {m \in 1..q : rec[out[m]][1] = out[m]} IN os # {} /\ out[SetMax(os)] = OutletOf(out[q], N)
Terminates == <>(pc = "done")
=============================================================================
