CONSTANTS
  N = 5
  MaxRec = 1
  Algo = "bfs"
SPECIFICATION Spec
INVARIANTS DfsOK BfsOK Bounded
PROPERTY Terminates
CHECK_DEADLOCK FALSE
