CONSTANTS
  MaxLast = 16
  MaxN = 6
  MaxMin = 6
SPECIFICATION Spec
