---------------------------- MODULE MCUnionFind ----------------------------
(* Exhaustive state graph of the L2 forest for at most MaxN elements; every  *)
(* transition is printed with a shortest history reaching its source state   *)
(* (hist is hidden from the state fingerprint by the VIEW): one              *)
(* implementation test per transition of the model.                          *)
EXTENDS UnionFind, TLC, Json
CONSTANTS MaxN, UsePush, Emit
VARIABLES hist

Op(name, a, b) == <<name, a, b>>
Emitting(o) == IF Emit THEN PrintT(<<"UFCASE", ToJson([n0 |-> hist[1][2], ops |-> Tail(hist) \o <<o>>])>>) ELSE TRUE

MCInit == \E n \in 0..MaxN : UFInit(n) /\ hist = <<Op("new", n, 0)>>
Step(o, A) == A /\ hist' = Append(hist, o) /\ Emitting(o)
MCFind == \E x \in Elems : Step(Op("find", x, 0), Find(x))
MCMerge == \E x, y \in Elems : Step(Op("merge", x, y), Merge(x, y))
MCClear == Clear /\ hist' = Append(hist, Op("clear", 0, 0)) /\ Emitting(Op("clear", 0, 0))
MCResize == \E n \in 0..MaxN : Resize(n) /\ hist' = Append(hist, Op("resize", n, 0)) /\ Emitting(Op("resize", n, 0))
MCPush == UsePush /\ N < MaxN /\ \E c \in 0..N : Step(Op("push", c, 0), PushBack(c))
MCNext == MCFind \/ MCMerge \/ MCClear \/ MCResize \/ MCPush
MCSpec == MCInit /\ [][MCNext]_<<ufvars, hist>>
View == ufvars
=============================================================================
