CONSTANTS
  MaxLast = 40
  MaxN = 12
  MaxMin = 12
SPECIFICATION Spec
