CONSTANTS
  D <- Queen23A
  Levels = {0, 1, 3}
  Masks <- M23
  BLSets <- B23
  Threshold = 0
SPECIFICATION Spec
INVARIANTS SingleRefinesC04 MultiRefinesC05
CHECK_DEADLOCK FALSE
