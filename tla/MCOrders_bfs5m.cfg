CONSTANTS
  N = 5
  MaxRec = 2
  Algo = "bfs"
SPECIFICATION Spec
INVARIANTS DfsOK BfsOK Bounded
PROPERTY Terminates
CHECK_DEADLOCK FALSE
