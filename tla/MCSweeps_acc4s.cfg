CONSTANTS
  N = 4
  MaxRec = 1
  Algo = "accumulate"
  Order = "contract"
  Variant = "code"
  Sources <- S_m102
SPECIFICATION Spec
INVARIANTS RefinesC03 RefinesC19
PROPERTY Terminates
CHECK_DEADLOCK FALSE
