---- MODULE MCParDispatch_TTrace_1790867855 ----
EXTENDS Sequences, TLCExt, MCParDispatch, Toolbox, Naturals, TLC

_expression ==
    LET MCParDispatch_TEExpression == INSTANCE MCParDispatch_TEExpression
    IN MCParDispatch_TEExpression!expression
----

_trace ==
    LET MCParDispatch_TETrace == INSTANCE MCParDispatch_TETrace
    IN MCParDispatch_TETrace!trace
----

_inv ==
    ~(
        TLCGet("level") = Len(_TETrace)
        /\
        phase = ("kernel")
        /\
        blk = (<<<<0>>, <<1>>>>)
        /\
        rec = ((0 :> 100 @@ 1 :> 101 @@ 2 :> 104 @@ 3 :> 103 @@ 4 :> 104 @@ 5 :> 105))
        /\
        bad = (FALSE)
        /\
        level = (1)
        /\
        calls = ((0 :> 0 @@ 1 :> 0 @@ 2 :> 0 @@ 3 :> 0 @@ 4 :> 0 @@ 5 :> 0))
        /\
        tmp = (<<4, 5>>)
        /\
        scratch = (<<5, -1>>)
        /\
        step = (<<"fill", "fill">>)
        /\
        out = ((0 :> -1 @@ 1 :> -1 @@ 2 :> -1 @@ 3 :> -1 @@ 4 :> -1 @@ 5 :> -1))
    )
----

_init ==
    /\ phase = _TETrace[1].phase
    /\ bad = _TETrace[1].bad
    /\ level = _TETrace[1].level
    /\ tmp = _TETrace[1].tmp
    /\ out = _TETrace[1].out
    /\ rec = _TETrace[1].rec
    /\ scratch = _TETrace[1].scratch
    /\ step = _TETrace[1].step
    /\ blk = _TETrace[1].blk
    /\ calls = _TETrace[1].calls
----

_next ==
    /\ \E i,j \in DOMAIN _TETrace:
        /\ \/ /\ j = i + 1
              /\ i = TLCGet("level")
        /\ phase  = _TETrace[i].phase
        /\ phase' = _TETrace[j].phase
        /\ bad  = _TETrace[i].bad
        /\ bad' = _TETrace[j].bad
        /\ level  = _TETrace[i].level
        /\ level' = _TETrace[j].level
        /\ tmp  = _TETrace[i].tmp
        /\ tmp' = _TETrace[j].tmp
        /\ out  = _TETrace[i].out
        /\ out' = _TETrace[j].out
        /\ rec  = _TETrace[i].rec
        /\ rec' = _TETrace[j].rec
        /\ scratch  = _TETrace[i].scratch
        /\ scratch' = _TETrace[j].scratch
        /\ step  = _TETrace[i].step
        /\ step' = _TETrace[j].step
        /\ blk  = _TETrace[i].blk
        /\ blk' = _TETrace[j].blk
        /\ calls  = _TETrace[i].calls
        /\ calls' = _TETrace[j].calls

\* Uncomment the ASSUME below to write the states of the error trace
\* to the given file in Json format. Note that you can pass any tuple
\* to `JsonSerialize`. For example, a sub-sequence of _TETrace.
    \* ASSUME
    \*     LET J == INSTANCE Json
    \*         IN J!JsonSerialize("MCParDispatch_TTrace_1790867855.json", _TETrace)

=============================================================================

 Note that you can extract this module `MCParDispatch_TEExpression`
  to a dedicated file to reuse `expression` (the module in the 
  dedicated `MCParDispatch_TEExpression.tla` file takes precedence 
  over the module `MCParDispatch_TEExpression` below).

---- MODULE MCParDispatch_TEExpression ----
EXTENDS Sequences, TLCExt, MCParDispatch, Toolbox, Naturals, TLC

expression == 
    [
        \* To hide variables of the `MCParDispatch` spec from the error trace,
        \* remove the variables below.  The trace will be written in the order
        \* of the fields of this record.
        phase |-> phase
        ,bad |-> bad
        ,level |-> level
        ,tmp |-> tmp
        ,out |-> out
        ,rec |-> rec
        ,scratch |-> scratch
        ,step |-> step
        ,blk |-> blk
        ,calls |-> calls
        
        \* Put additional constant-, state-, and action-level expressions here:
        \* ,_stateNumber |-> _TEPosition
        \* ,_phaseUnchanged |-> phase = phase'
        
        \* Format the `phase` variable as Json value.
        \* ,_phaseJson |->
        \*     LET J == INSTANCE Json
        \*     IN J!ToJson(phase)
        
        \* Lastly, you may build expressions over arbitrary sets of states by
        \* leveraging the _TETrace operator.  For example, this is how to
        \* count the number of times a spec variable changed up to the current
        \* state in the trace.
        \* ,_phaseModCount |->
        \*     LET F[s \in DOMAIN _TETrace] ==
        \*         IF s = 1 THEN 0
        \*         ELSE IF _TETrace[s].phase # _TETrace[s-1].phase
        \*             THEN 1 + F[s-1] ELSE F[s-1]
        \*     IN F[_TEPosition - 1]
    ]

=============================================================================



Parsing and semantic processing can take forever if the trace below is long.
 In this case, it is advised to uncomment the module below to deserialize the
 trace from a generated binary file.

\*
\*---- MODULE MCParDispatch_TETrace ----
\*EXTENDS IOUtils, MCParDispatch, TLC
\*
\*trace == IODeserialize("MCParDispatch_TTrace_1790867855.bin", TRUE)
\*
\*=============================================================================
\*

---- MODULE MCParDispatch_TETrace ----
EXTENDS MCParDispatch, TLC

trace == 
    <<
    ([phase |-> "route",blk |-> <<<<0, 1, 2>>, <<3, 4, 5>>>>,rec |-> (0 :> -1 @@ 1 :> -1 @@ 2 :> -1 @@ 3 :> -1 @@ 4 :> -1 @@ 5 :> -1),bad |-> FALSE,level |-> 0,calls |-> (0 :> 0 @@ 1 :> 0 @@ 2 :> 0 @@ 3 :> 0 @@ 4 :> 0 @@ 5 :> 0),tmp |-> <<-1, -1>>,scratch |-> <<-1, -1>>,step |-> <<"fill", "fill">>,out |-> (0 :> -1 @@ 1 :> -1 @@ 2 :> -1 @@ 3 :> -1 @@ 4 :> -1 @@ 5 :> -1)]),
    ([phase |-> "route",blk |-> <<<<0, 1, 2>>, <<3, 4, 5>>>>,rec |-> (0 :> -1 @@ 1 :> -1 @@ 2 :> -1 @@ 3 :> -1 @@ 4 :> -1 @@ 5 :> -1),bad |-> FALSE,level |-> 0,calls |-> (0 :> 0 @@ 1 :> 0 @@ 2 :> 0 @@ 3 :> 0 @@ 4 :> 0 @@ 5 :> 0),tmp |-> <<-1, -1>>,scratch |-> <<0, -1>>,step |-> <<"read", "fill">>,out |-> (0 :> -1 @@ 1 :> -1 @@ 2 :> -1 @@ 3 :> -1 @@ 4 :> -1 @@ 5 :> -1)]),
    ([phase |-> "route",blk |-> <<<<0, 1, 2>>, <<3, 4, 5>>>>,rec |-> (0 :> -1 @@ 1 :> -1 @@ 2 :> -1 @@ 3 :> -1 @@ 4 :> -1 @@ 5 :> -1),bad |-> FALSE,level |-> 0,calls |-> (0 :> 0 @@ 1 :> 0 @@ 2 :> 0 @@ 3 :> 0 @@ 4 :> 0 @@ 5 :> 0),tmp |-> <<0, -1>>,scratch |-> <<0, -1>>,step |-> <<"write", "fill">>,out |-> (0 :> -1 @@ 1 :> -1 @@ 2 :> -1 @@ 3 :> -1 @@ 4 :> -1 @@ 5 :> -1)]),
    ([phase |-> "route",blk |-> <<<<1, 2>>, <<3, 4, 5>>>>,rec |-> (0 :> 100 @@ 1 :> -1 @@ 2 :> -1 @@ 3 :> -1 @@ 4 :> -1 @@ 5 :> -1),bad |-> FALSE,level |-> 0,calls |-> (0 :> 0 @@ 1 :> 0 @@ 2 :> 0 @@ 3 :> 0 @@ 4 :> 0 @@ 5 :> 0),tmp |-> <<0, -1>>,scratch |-> <<0, -1>>,step |-> <<"fill", "fill">>,out |-> (0 :> -1 @@ 1 :> -1 @@ 2 :> -1 @@ 3 :> -1 @@ 4 :> -1 @@ 5 :> -1)]),
    ([phase |-> "route",blk |-> <<<<1, 2>>, <<3, 4, 5>>>>,rec |-> (0 :> 100 @@ 1 :> -1 @@ 2 :> -1 @@ 3 :> -1 @@ 4 :> -1 @@ 5 :> -1),bad |-> FALSE,level |-> 0,calls |-> (0 :> 0 @@ 1 :> 0 @@ 2 :> 0 @@ 3 :> 0 @@ 4 :> 0 @@ 5 :> 0),tmp |-> <<0, -1>>,scratch |-> <<1, -1>>,step |-> <<"read", "fill">>,out |-> (0 :> -1 @@ 1 :> -1 @@ 2 :> -1 @@ 3 :> -1 @@ 4 :> -1 @@ 5 :> -1)]),
    ([phase |-> "route",blk |-> <<<<1, 2>>, <<3, 4, 5>>>>,rec |-> (0 :> 100 @@ 1 :> -1 @@ 2 :> -1 @@ 3 :> -1 @@ 4 :> -1 @@ 5 :> -1),bad |-> FALSE,level |-> 0,calls |-> (0 :> 0 @@ 1 :> 0 @@ 2 :> 0 @@ 3 :> 0 @@ 4 :> 0 @@ 5 :> 0),tmp |-> <<1, -1>>,scratch |-> <<1, -1>>,step |-> <<"write", "fill">>,out |-> (0 :> -1 @@ 1 :> -1 @@ 2 :> -1 @@ 3 :> -1 @@ 4 :> -1 @@ 5 :> -1)]),
    ([phase |-> "route",blk |-> <<<<2>>, <<3, 4, 5>>>>,rec |-> (0 :> 100 @@ 1 :> 101 @@ 2 :> -1 @@ 3 :> -1 @@ 4 :> -1 @@ 5 :> -1),bad |-> FALSE,level |-> 0,calls |-> (0 :> 0 @@ 1 :> 0 @@ 2 :> 0 @@ 3 :> 0 @@ 4 :> 0 @@ 5 :> 0),tmp |-> <<1, -1>>,scratch |-> <<1, -1>>,step |-> <<"fill", "fill">>,out |-> (0 :> -1 @@ 1 :> -1 @@ 2 :> -1 @@ 3 :> -1 @@ 4 :> -1 @@ 5 :> -1)]),
    ([phase |-> "route",blk |-> <<<<2>>, <<3, 4, 5>>>>,rec |-> (0 :> 100 @@ 1 :> 101 @@ 2 :> -1 @@ 3 :> -1 @@ 4 :> -1 @@ 5 :> -1),bad |-> FALSE,level |-> 0,calls |-> (0 :> 0 @@ 1 :> 0 @@ 2 :> 0 @@ 3 :> 0 @@ 4 :> 0 @@ 5 :> 0),tmp |-> <<1, -1>>,scratch |-> <<2, -1>>,step |-> <<"read", "fill">>,out |-> (0 :> -1 @@ 1 :> -1 @@ 2 :> -1 @@ 3 :> -1 @@ 4 :> -1 @@ 5 :> -1)]),
    ([phase |-> "route",blk |-> <<<<2>>, <<3, 4, 5>>>>,rec |-> (0 :> 100 @@ 1 :> 101 @@ 2 :> -1 @@ 3 :> -1 @@ 4 :> -1 @@ 5 :> -1),bad |-> FALSE,level |-> 0,calls |-> (0 :> 0 @@ 1 :> 0 @@ 2 :> 0 @@ 3 :> 0 @@ 4 :> 0 @@ 5 :> 0),tmp |-> <<1, -1>>,scratch |-> <<3, -1>>,step |-> <<"read", "read">>,out |-> (0 :> -1 @@ 1 :> -1 @@ 2 :> -1 @@ 3 :> -1 @@ 4 :> -1 @@ 5 :> -1)]),
    ([phase |-> "route",blk |-> <<<<2>>, <<3, 4, 5>>>>,rec |-> (0 :> 100 @@ 1 :> 101 @@ 2 :> -1 @@ 3 :> -1 @@ 4 :> -1 @@ 5 :> -1),bad |-> FALSE,level |-> 0,calls |-> (0 :> 0 @@ 1 :> 0 @@ 2 :> 0 @@ 3 :> 0 @@ 4 :> 0 @@ 5 :> 0),tmp |-> <<1, 3>>,scratch |-> <<3, -1>>,step |-> <<"read", "write">>,out |-> (0 :> -1 @@ 1 :> -1 @@ 2 :> -1 @@ 3 :> -1 @@ 4 :> -1 @@ 5 :> -1)]),
    ([phase |-> "route",blk |-> <<<<2>>, <<4, 5>>>>,rec |-> (0 :> 100 @@ 1 :> 101 @@ 2 :> -1 @@ 3 :> 103 @@ 4 :> -1 @@ 5 :> -1),bad |-> FALSE,level |-> 0,calls |-> (0 :> 0 @@ 1 :> 0 @@ 2 :> 0 @@ 3 :> 0 @@ 4 :> 0 @@ 5 :> 0),tmp |-> <<1, 3>>,scratch |-> <<3, -1>>,step |-> <<"read", "fill">>,out |-> (0 :> -1 @@ 1 :> -1 @@ 2 :> -1 @@ 3 :> -1 @@ 4 :> -1 @@ 5 :> -1)]),
    ([phase |-> "route",blk |-> <<<<2>>, <<4, 5>>>>,rec |-> (0 :> 100 @@ 1 :> 101 @@ 2 :> -1 @@ 3 :> 103 @@ 4 :> -1 @@ 5 :> -1),bad |-> FALSE,level |-> 0,calls |-> (0 :> 0 @@ 1 :> 0 @@ 2 :> 0 @@ 3 :> 0 @@ 4 :> 0 @@ 5 :> 0),tmp |-> <<1, 3>>,scratch |-> <<4, -1>>,step |-> <<"read", "read">>,out |-> (0 :> -1 @@ 1 :> -1 @@ 2 :> -1 @@ 3 :> -1 @@ 4 :> -1 @@ 5 :> -1)]),
    ([phase |-> "route",blk |-> <<<<2>>, <<4, 5>>>>,rec |-> (0 :> 100 @@ 1 :> 101 @@ 2 :> -1 @@ 3 :> 103 @@ 4 :> -1 @@ 5 :> -1),bad |-> FALSE,level |-> 0,calls |-> (0 :> 0 @@ 1 :> 0 @@ 2 :> 0 @@ 3 :> 0 @@ 4 :> 0 @@ 5 :> 0),tmp |-> <<4, 3>>,scratch |-> <<4, -1>>,step |-> <<"write", "read">>,out |-> (0 :> -1 @@ 1 :> -1 @@ 2 :> -1 @@ 3 :> -1 @@ 4 :> -1 @@ 5 :> -1)]),
    ([phase |-> "route",blk |-> <<<<>>, <<4, 5>>>>,rec |-> (0 :> 100 @@ 1 :> 101 @@ 2 :> 104 @@ 3 :> 103 @@ 4 :> -1 @@ 5 :> -1),bad |-> FALSE,level |-> 0,calls |-> (0 :> 0 @@ 1 :> 0 @@ 2 :> 0 @@ 3 :> 0 @@ 4 :> 0 @@ 5 :> 0),tmp |-> <<4, 3>>,scratch |-> <<4, -1>>,step |-> <<"fill", "read">>,out |-> (0 :> -1 @@ 1 :> -1 @@ 2 :> -1 @@ 3 :> -1 @@ 4 :> -1 @@ 5 :> -1)]),
    ([phase |-> "route",blk |-> <<<<>>, <<4, 5>>>>,rec |-> (0 :> 100 @@ 1 :> 101 @@ 2 :> 104 @@ 3 :> 103 @@ 4 :> -1 @@ 5 :> -1),bad |-> FALSE,level |-> 0,calls |-> (0 :> 0 @@ 1 :> 0 @@ 2 :> 0 @@ 3 :> 0 @@ 4 :> 0 @@ 5 :> 0),tmp |-> <<4, 4>>,scratch |-> <<4, -1>>,step |-> <<"fill", "write">>,out |-> (0 :> -1 @@ 1 :> -1 @@ 2 :> -1 @@ 3 :> -1 @@ 4 :> -1 @@ 5 :> -1)]),
    ([phase |-> "route",blk |-> <<<<>>, <<5>>>>,rec |-> (0 :> 100 @@ 1 :> 101 @@ 2 :> 104 @@ 3 :> 103 @@ 4 :> 104 @@ 5 :> -1),bad |-> FALSE,level |-> 0,calls |-> (0 :> 0 @@ 1 :> 0 @@ 2 :> 0 @@ 3 :> 0 @@ 4 :> 0 @@ 5 :> 0),tmp |-> <<4, 4>>,scratch |-> <<4, -1>>,step |-> <<"fill", "fill">>,out |-> (0 :> -1 @@ 1 :> -1 @@ 2 :> -1 @@ 3 :> -1 @@ 4 :> -1 @@ 5 :> -1)]),
    ([phase |-> "route",blk |-> <<<<>>, <<5>>>>,rec |-> (0 :> 100 @@ 1 :> 101 @@ 2 :> 104 @@ 3 :> 103 @@ 4 :> 104 @@ 5 :> -1),bad |-> FALSE,level |-> 0,calls |-> (0 :> 0 @@ 1 :> 0 @@ 2 :> 0 @@ 3 :> 0 @@ 4 :> 0 @@ 5 :> 0),tmp |-> <<4, 4>>,scratch |-> <<5, -1>>,step |-> <<"fill", "read">>,out |-> (0 :> -1 @@ 1 :> -1 @@ 2 :> -1 @@ 3 :> -1 @@ 4 :> -1 @@ 5 :> -1)]),
    ([phase |-> "route",blk |-> <<<<>>, <<5>>>>,rec |-> (0 :> 100 @@ 1 :> 101 @@ 2 :> 104 @@ 3 :> 103 @@ 4 :> 104 @@ 5 :> -1),bad |-> FALSE,level |-> 0,calls |-> (0 :> 0 @@ 1 :> 0 @@ 2 :> 0 @@ 3 :> 0 @@ 4 :> 0 @@ 5 :> 0),tmp |-> <<4, 5>>,scratch |-> <<5, -1>>,step |-> <<"fill", "write">>,out |-> (0 :> -1 @@ 1 :> -1 @@ 2 :> -1 @@ 3 :> -1 @@ 4 :> -1 @@ 5 :> -1)]),
    ([phase |-> "route",blk |-> <<<<>>, <<>>>>,rec |-> (0 :> 100 @@ 1 :> 101 @@ 2 :> 104 @@ 3 :> 103 @@ 4 :> 104 @@ 5 :> 105),bad |-> FALSE,level |-> 0,calls |-> (0 :> 0 @@ 1 :> 0 @@ 2 :> 0 @@ 3 :> 0 @@ 4 :> 0 @@ 5 :> 0),tmp |-> <<4, 5>>,scratch |-> <<5, -1>>,step |-> <<"fill", "fill">>,out |-> (0 :> -1 @@ 1 :> -1 @@ 2 :> -1 @@ 3 :> -1 @@ 4 :> -1 @@ 5 :> -1)]),
    ([phase |-> "kernel",blk |-> <<<<0>>, <<1>>>>,rec |-> (0 :> 100 @@ 1 :> 101 @@ 2 :> 104 @@ 3 :> 103 @@ 4 :> 104 @@ 5 :> 105),bad |-> FALSE,level |-> 1,calls |-> (0 :> 0 @@ 1 :> 0 @@ 2 :> 0 @@ 3 :> 0 @@ 4 :> 0 @@ 5 :> 0),tmp |-> <<4, 5>>,scratch |-> <<5, -1>>,step |-> <<"fill", "fill">>,out |-> (0 :> -1 @@ 1 :> -1 @@ 2 :> -1 @@ 3 :> -1 @@ 4 :> -1 @@ 5 :> -1)])
    >>
----


=============================================================================

---- CONFIG MCParDispatch_TTrace_1790867855 ----
CONSTANTS
    N = 6
    T = 2
    SharedScratch = TRUE
    Levels <- L6
    Recv <- R6
    Barrier = TRUE
    MinLevel = 0

INVARIANT
    _inv

CHECK_DEADLOCK
    \* CHECK_DEADLOCK off because of PROPERTY or INVARIANT above.
    FALSE

INIT
    _init

NEXT
    _next

CONSTANT
    _TETrace <- _trace

ALIAS
    _expression
=============================================================================
\* Generated on Thu Oct 01 15:17:37 UTC 2026