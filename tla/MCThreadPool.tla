---------------------------- MODULE MCThreadPool ----------------------------
EXTENDS ThreadPool
\* the call pattern of the parallel router / kernels, twice, then the destructor
ProgA == << <<"resume">>, <<"resize", 2>>, <<"run", 0, 5, 0>>, <<"pause">>,
            <<"resume">>, <<"resize", 1>>, <<"run", 0, 1, 0>>, <<"pause">>, <<"stop">> >>
\* two resizes, several runs per cycle (level loop of apply_kernel_par), min block size
ProgB == << <<"resume">>, <<"resize", 3>>, <<"run", 0, 7, 0>>, <<"run", 2, 6, 2>>, <<"pause">>,
            <<"resume">>, <<"resize", 2>>, <<"run", 0, 4, 0>>, <<"pause">>,
            <<"resume">>, <<"resize", 3>>, <<"run", 3, 4, 0>>, <<"pause">>, <<"stop">> >>
\* destruction of a pool that never ran / that is paused / idempotent calls
ProgC == << <<"pause">>, <<"pause">>, <<"resume">>, <<"resume">>, <<"run", 0, 0, 0>>, <<"run", 0, 3, 0>>, <<"stop">>, <<"stop">> >>
ProgD == << <<"resume">>, <<"resize", 2>>, <<"run", 0, 2, 0>>, <<"pause">>, <<"stop">> >>
ProgE == << <<"stop">> >>
ProgF == << <<"resume">>, <<"resize", 4>>, <<"run", 0, 9, 2>>, <<"run", 0, 3, 0>>, <<"pause">>,
            <<"resume">>, <<"resize", 4>>, <<"run", 1, 3, 0>>, <<"pause">>, <<"stop">> >>
=============================================================================
