CONSTANTS
  N = 3
  MaxRec = 2
  Algo = "accumulate"
  Order = "contract"
  Variant = "skip_nonpositive"
  Sources <- S_m12
SPECIFICATION Spec
INVARIANTS RefinesC03 RefinesC19
PROPERTY Terminates
CHECK_DEADLOCK FALSE
