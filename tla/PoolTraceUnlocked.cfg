SPECIFICATION TraceSpec
CONSTANTS
  MaxW = 4
  InitSize = 1
  Program = "unused"
  RelPublish = TRUE
  AcqWorker = TRUE
  RelDone = TRUE
  AcqWait = TRUE
  LockedNotify = FALSE
  SpuriousWake = FALSE
CONSTRAINT Track
INVARIANT TraceInv
POSTCONDITION TraceAccepted
CHECK_DEADLOCK FALSE
