CONSTANTS
  N = 7
  T = 3
  SharedScratch = FALSE
  Levels <- L7
  Recv <- R7
  Barrier = TRUE
  MinLevel = 2
SPECIFICATION Spec
INVARIANTS RouterEqualsSequential KernelAfterReceivers KernelExactlyOnce
PROPERTY Terminates
CHECK_DEADLOCK FALSE
