CONSTANTS
  D <- Rook33L
  Levels = {0, 1, 2}
  BLSets <- BL33
  Masks <- M33
  TotalOrder = FALSE
SPECIFICATION PSpec
INVARIANTS RefinesC02 Drains QueuesOK
CHECK_DEADLOCK FALSE
