CONSTANTS
  N = 4
  MaxRec = 1
  Algo = "bfs"
SPECIFICATION Spec
INVARIANTS DfsOK BfsOK Bounded
PROPERTY Terminates
CHECK_DEADLOCK FALSE
