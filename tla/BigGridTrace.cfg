SPECIFICATION BSpec
POSTCONDITION BAccepted
CHECK_DEADLOCK FALSE
