CONSTANTS
  D <- Profile4L
  Levels = {0, 1, 2}
  Masks <- MNone
  BLSets <- B4
  Threshold = 0
SPECIFICATION Spec
INVARIANTS SingleRefinesC04 MultiRefinesC05
CHECK_DEADLOCK FALSE
