-------------------------------- MODULE ADI --------------------------------
(* L1 specification of diffusion_adi_eroder::erode (C14): the two half      *)
(* steps of the Peaceman-Rachford alternating-direction-implicit scheme for *)
(* linear diffusion with face-averaged diffusivity and fixed-value borders, *)
(* written as the tridiagonal systems themselves (residual form, integer    *)
(* coefficients: every equation is multiplied by D = 8 q dy^2 dx^2 where    *)
(* dt = p / q), so that no division is needed and nothing is rounded.       *)
(*   first half step, implicit along columns (for every interior row r):    *)
(*     -A0 t(r,c-1) + (D + 2 A1) t(r,c) - A2 t(r,c+1)                       *)
(*            = (D - 2 B1) h(r,c) + B0 h(r-1,c) + B2 h(r+1,c)               *)
(*   second half step, implicit along rows (for every interior column c):   *)
(*     -B0 n(r-1,c) + (D + 2 B1) n(r,c) - B2 n(r+1,c)                       *)
(*            = (D - 2 A1) t(r,c) + A0 t(r,c-1) + A2 t(r,c+1)               *)
(*   with t = h and n = h on the four borders; erosion = h - n.             *)
(* Both systems are strictly diagonally dominant M-matrices (inverse norm   *)
(* <= 1), so a residual within the quantisation error bounds the error of   *)
(* the solution by the same amount.                                         *)
EXTENDS Util

\* k: node -> integer diffusivity (scalar K is the uniform field), idx(r, c) = r * nc + c
Idx(nc, r, c) == r * nc + c
KAt(e, r, c) == IF e.K = <<>> THEN e.Ks ELSE At(e.K, Idx(e.d.nc, r, c))
P(e) == e.dt[1]
Q(e) == e.dt[2]
D(e) == 8 * Q(e) * e.d.dy * e.d.dy * e.d.dx * e.d.dx
\* column-direction (along c) coefficients, spacing dx; row-direction (along r), spacing dy
A0(e, r, c) == 2 * P(e) * e.d.dy * e.d.dy * (KAt(e, r, c - 1) + KAt(e, r, c))
A1(e, r, c) == P(e) * e.d.dy * e.d.dy * (KAt(e, r, c - 1) + 2 * KAt(e, r, c) + KAt(e, r, c + 1))
A2(e, r, c) == 2 * P(e) * e.d.dy * e.d.dy * (KAt(e, r, c) + KAt(e, r, c + 1))
B0(e, r, c) == 2 * P(e) * e.d.dx * e.d.dx * (KAt(e, r - 1, c) + KAt(e, r, c))
B1(e, r, c) == P(e) * e.d.dx * e.d.dx * (KAt(e, r - 1, c) + 2 * KAt(e, r, c) + KAt(e, r + 1, c))
B2(e, r, c) == 2 * P(e) * e.d.dx * e.d.dx * (KAt(e, r, c) + KAt(e, r + 1, c))

Interior(e) == {<<r, c>> \in (1..(e.d.nr - 2)) \X (1..(e.d.nc - 2)) : TRUE}
Border(e) == {<<r, c>> \in (0..(e.d.nr - 1)) \X (0..(e.d.nc - 1)) : r = 0 \/ c = 0 \/ r = e.d.nr - 1 \/ c = e.d.nc - 1}
Scale(e) == 2 ^ e.S
HQ(e, r, c) == At(e.h, Idx(e.d.nc, r, c)) * Scale(e)
TQ(e, r, c) == At(e.tq, Idx(e.d.nc, r, c))
NQ(e, r, c) == At(e.nq, Idx(e.d.nc, r, c))

\* the four borders carry exactly zero erosion (bit zero) and the half step leaves them alone
BordersFixed(e) == \A rc \in Border(e) : /\ At(e.ez, Idx(e.d.nc, rc[1], rc[2])) = 1
                                         /\ TQ(e, rc[1], rc[2]) = HQ(e, rc[1], rc[2])
Finite(e) == \A i \in DOMAIN e.cls : e.cls[i] = 0
FirstHalfStep(e) ==
  \A rc \in Interior(e) : LET r == rc[1]  c == rc[2] IN
     Abs(0 - A0(e, r, c) * TQ(e, r, c - 1) + (D(e) + 2 * A1(e, r, c)) * TQ(e, r, c) - A2(e, r, c) * TQ(e, r, c + 1)
         - ((D(e) - 2 * B1(e, r, c)) * HQ(e, r, c) + B0(e, r, c) * HQ(e, r - 1, c) + B2(e, r, c) * HQ(e, r + 1, c)))
       <= A0(e, r, c) + D(e) + 2 * A1(e, r, c) + A2(e, r, c) + 2
SecondHalfStep(e) ==
  \A rc \in Interior(e) : LET r == rc[1]  c == rc[2] IN
     Abs(0 - B0(e, r, c) * NQ(e, r - 1, c) + (D(e) + 2 * B1(e, r, c)) * NQ(e, r, c) - B2(e, r, c) * NQ(e, r + 1, c)
         - ((D(e) - 2 * A1(e, r, c)) * TQ(e, r, c) + A0(e, r, c) * TQ(e, r, c - 1) + A2(e, r, c) * TQ(e, r, c + 1)))
       <= B0(e, r, c) + D(e) + 2 * B1(e, r, c) + B2(e, r, c) + Abs(D(e) - 2 * A1(e, r, c)) + A0(e, r, c) + A2(e, r, c) + 2
=============================================================================
