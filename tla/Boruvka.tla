------------------------------ MODULE Boruvka ------------------------------
(* basin_graph::compute_tree_boruvka (flow/basin_graph.hpp), transcribed:    *)
(* the "linear-time" Boruvka variant for planar-like graphs.  Nodes whose    *)
(* adjacency list is not longer than MaxLow ("low degree") pick their        *)
(* lightest outgoing edge and are collapsed into the opposite node (edge     *)
(* ends renamed, adjacency lists concatenated); nodes with longer lists wait *)
(* in the "large degree" list, are cleaned after each round (duplicates and  *)
(* self loops removed through a bucket per neighbour, lightest edge kept,    *)
(* smallest id on ties) and move to the low-degree list once short enough.   *)
(* The large-degree list is compacted IN PLACE (cur_large_degree), which is  *)
(* where three seeded changes lived; the Variant constant reproduces them as *)
(* negative controls.                                                        *)
(*                                                                           *)
(* L1 (what callers rely on, C15): the tree is a spanning forest of the      *)
(* basin graph and satisfies the cycle property (minimum weight).            *)
(* Assumption of the algorithm (documented in the source: "16 for            *)
(* 8-connectivity raster grid, 8 for planar graph"): after every clean-up    *)
(* some live node has at most MaxLow neighbours; on graphs without that      *)
(* property the loop ends with an incomplete tree (config Boruvka_k4: a      *)
(* negative control for the assumption itself).                              *)
EXTENDS Naturals, Sequences, FiniteSets, TLC

CONSTANTS NNodes,        \* nodes 0..NNodes-1
          EdgeEnds,      \* sequence of <<a, b>>: the basin graph (edge id = position)
          Levels,        \* weights are drawn from this set (all assignments are explored)
          MaxLow,        \* m_max_low_degree
          Variant        \* "code" | "no_increment" | "cleared" | "inverted"  (negative controls)

VARIABLES w,       \* weight of every edge (chosen in Init)
          link,    \* current ends of every edge (m_link_basins)
          adj,     \* adjacency list of every node: sequence of edge ids; <<>> = removed from the graph
          low, large,   \* the two work lists (sequences of nodes)
          tree,    \* sequence of edge ids
          pc, k, keep   \* program counter ("low" | "clean" | "done"), position in the list, cur_large_degree

vars == <<w, link, adj, low, large, tree, pc, k, keep>>
Nodes == 0..(NNodes - 1)
Edges == 1..Len(EdgeEnds)
At0(s, i) == s[i + 1]

Incident(n) == SelectSeq([e \in Edges |-> e], LAMBDA e : EdgeEnds[e][1] = n \/ EdgeEnds[e][2] = n)
\* (an edge <<a, a>> would be listed twice by the code; the basin graph has none)
InitAdj == [n \in Nodes |-> Incident(n)]
NodeSeq == [i \in 1..NNodes |-> i - 1]

Init ==
  /\ w \in [Edges -> Levels]
  /\ link = EdgeEnds
  /\ adj = InitAdj
  /\ low = SelectSeq(NodeSeq, LAMBDA n : Len(InitAdj[n]) <= MaxLow)
  /\ large = SelectSeq(NodeSeq, LAMBDA n : Len(InitAdj[n]) > MaxLow)
  /\ tree = <<>>
  /\ pc = "low" /\ k = 1 /\ keep = 0

Opp(lk, e, n) == IF lk[e][1] = n THEN lk[e][2] ELSE lk[e][1]

\* lightest valid edge leaving n, scanning its list in order with a strict comparison (first wins ties)
RECURSIVE Scan(_, _, _, _)
Scan(n, i, best, bw) ==     \* best = 0: none yet
  IF i > Len(adj[n]) THEN best
  ELSE LET e == adj[n][i]
           o == Opp(link, e, n)
       IN IF o # n /\ adj[o] # <<>> /\ (best = 0 \/ w[e] < bw)
            THEN Scan(n, i + 1, e, w[e])
            ELSE Scan(n, i + 1, best, bw)

LowStep ==
  /\ pc = "low" /\ k <= Len(low)
  /\ LET n == low[k] IN
     IF Len(adj[n]) > MaxLow
       THEN \* the node may have large degree after collapse
            /\ large' = Append(large, n)
            /\ UNCHANGED <<link, adj, tree>>
       ELSE LET f == Scan(n, 1, 0, 0) IN
            IF f = 0 THEN UNCHANGED <<link, adj, tree, large>>
            ELSE LET b == Opp(link, f, n)
                     ren == [e \in Edges |-> IF e \in {adj[n][i] : i \in 1..Len(adj[n])}
                                               THEN (IF link[e][1] = n THEN <<b, link[e][2]>> ELSE <<link[e][1], b>>)
                                               ELSE link[e]]
                 IN /\ tree' = Append(tree, f)
                    /\ link' = ren
                    /\ adj' = [adj EXCEPT ![b] = adj[n] \o adj[b], ![n] = <<>>]
                    /\ UNCHANGED large
  /\ k' = k + 1
  /\ UNCHANGED <<w, low, pc, keep>>

EndLow ==
  /\ pc = "low" /\ k > Len(low)
  /\ low' = <<>>
  /\ pc' = "clean" /\ k' = 1 /\ keep' = 0
  /\ UNCHANGED <<w, link, adj, large, tree>>

\* clean-up of one large-degree node: one bucket per live neighbour, lightest edge, smallest id on ties
RECURSIVE Bucket(_, _, _, _)
Bucket(a, i, order, bk) ==   \* order: neighbours in order of first appearance; bk: neighbour -> edge
  IF i > Len(adj[a]) THEN <<order, bk>>
  ELSE LET e == adj[a][i]
           b == Opp(link, e, a)
       IN IF adj[b] # <<>> /\ b # a
            THEN IF b \notin DOMAIN bk
                   THEN Bucket(a, i + 1, Append(order, b), (b :> e) @@ bk)
                   ELSE LET old == bk[b]
                            new == IF w[old] = w[e] THEN (IF old < e THEN old ELSE e)
                                   ELSE IF w[e] < w[old] THEN e ELSE old
                        IN Bucket(a, i + 1, order, (b :> new) @@ bk)
            ELSE Bucket(a, i + 1, order, bk)

EmptyFn == [x \in {} |-> 0]
CleanStep ==
  /\ pc = "clean" /\ k <= Len(large)
  /\ LET a == large[k]
         r == Bucket(a, 1, <<>>, EmptyFn)
         nl == [i \in 1..Len(r[1]) |-> r[2][r[1][i]]]
         stays == Len(nl) > MaxLow
     IN /\ adj' = [adj EXCEPT ![a] = nl]
        /\ IF ~stays
             THEN /\ low' = IF Len(nl) > 0 THEN Append(low, a) ELSE low
                  /\ IF Variant = "inverted"      \* remove_if with the keep-condition as removal condition
                       THEN large' = [large EXCEPT ![keep + 1] = a] /\ keep' = keep + 1
                       ELSE UNCHANGED <<large, keep>>
             ELSE /\ UNCHANGED low
                  /\ CASE Variant = "code" -> large' = [large EXCEPT ![keep + 1] = a] /\ keep' = keep + 1
                       [] Variant = "no_increment" -> large' = [large EXCEPT ![keep + 1] = a] /\ keep' = keep
                       [] Variant = "cleared" -> UNCHANGED <<large, keep>>
                       [] Variant = "inverted" -> UNCHANGED <<large, keep>>
  /\ k' = k + 1
  /\ UNCHANGED <<w, link, tree, pc>>

EndClean ==
  /\ pc = "clean" /\ k > Len(large)
  /\ large' = SubSeq(large, 1, keep)      \* m_large_degrees.resize(cur_large_degree)
  /\ pc' = IF low = <<>> THEN "done" ELSE "low"
  /\ k' = 1 /\ keep' = 0
  /\ UNCHANGED <<w, link, adj, low, tree>>

Next == LowStep \/ EndLow \/ CleanStep \/ EndClean
Spec == Init /\ [][Next]_vars /\ WF_vars(Next)

----------------------------------------------------------------------------
\* L1, on the ORIGINAL graph
TreeSet == {tree[i] : i \in 1..Len(tree)}
Ends(e) == {EdgeEnds[e][1], EdgeEnds[e][2]}
RECURSIVE Reach(_, _)
Reach(K, S) == LET T == S \cup UNION {Ends(e) : e \in {e \in K : Ends(e) \cap S # {}}} IN IF T = S THEN S ELSE Reach(K, T)
Components(K) == {Reach(K, {n}) : n \in Nodes}
SpanningForest == /\ Cardinality(TreeSet) = Len(tree)
                  /\ Components(TreeSet) = Components(Edges)
                  /\ Len(tree) = NNodes - Cardinality(Components(Edges))
CycleProperty == \A e \in Edges \ TreeSet :
                    EdgeEnds[e][2] \in Reach({t \in TreeSet : w[t] <= w[e]}, {EdgeEnds[e][1]})
\* invariants
TypeOK == /\ pc \in {"low", "clean", "done"}
          /\ \A i \in 1..Len(low) : low[i] \in Nodes
          /\ \A i \in 1..Len(large) : large[i] \in Nodes
          /\ keep <= Len(large)                       \* the compaction never writes past the list
          /\ Len(tree) <= NNodes - 1                  \* m_tree.reserve(nbasins - 1) is never exceeded
Acyclic == Cardinality(Components(TreeSet)) = NNodes - Cardinality(TreeSet)   \* a forest at every step
\* every live node with a non-trivial list is in one of the work lists or being collapsed into: no node
\* that still has live neighbours is ever forgotten (what the three seeded changes broke)
LiveNeighbours(n) == {Opp(link, adj[n][i], n) : i \in 1..Len(adj[n])} \ {n}
NothingForgotten ==
  (pc = "low" /\ k = 1) =>
     \A n \in Nodes : (adj[n] # <<>> /\ \E m \in LiveNeighbours(n) : adj[m] # <<>>) =>
        (\E i \in 1..Len(low) : low[i] = n) \/ (\E i \in 1..Len(large) : large[i] = n)
Result == pc = "done" => SpanningForest /\ CycleProperty
Termination == <>(pc = "done")
=============================================================================
