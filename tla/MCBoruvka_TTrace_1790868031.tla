---- MODULE MCBoruvka_TTrace_1790868031 ----
EXTENDS MCBoruvka, Sequences, TLCExt, Toolbox, Naturals, TLC

_expression ==
    LET MCBoruvka_TEExpression == INSTANCE MCBoruvka_TEExpression
    IN MCBoruvka_TEExpression!expression
----

_trace ==
    LET MCBoruvka_TETrace == INSTANCE MCBoruvka_TETrace
    IN MCBoruvka_TETrace!trace
----

_inv ==
    ~(
        TLCGet("level") = Len(_TETrace)
        /\
        pc = ("low")
        /\
        large = (<<>>)
        /\
        low = (<<2, 3, 4>>)
        /\
        adj = ((0 :> <<1, 2, 3>> @@ 1 :> <<4, 5, 6>> @@ 2 :> <<1, 4>> @@ 3 :> <<2, 5>> @@ 4 :> <<3, 6>> @@ 5 :> <<>> @@ 6 :> <<>> @@ 7 :> <<>>))
        /\
        w = (<<1, 1, 1, 1, 1, 1, 2, 1, 1>>)
        /\
        keep = (0)
        /\
        link = (<<<<0, 2>>, <<0, 3>>, <<0, 4>>, <<1, 2>>, <<1, 3>>, <<1, 4>>, <<2, 2>>, <<3, 3>>, <<4, 4>>>>)
        /\
        tree = (<<7, 8, 9>>)
        /\
        k = (1)
    )
----

_init ==
    /\ large = _TETrace[1].large
    /\ link = _TETrace[1].link
    /\ k = _TETrace[1].k
    /\ low = _TETrace[1].low
    /\ w = _TETrace[1].w
    /\ pc = _TETrace[1].pc
    /\ tree = _TETrace[1].tree
    /\ keep = _TETrace[1].keep
    /\ adj = _TETrace[1].adj
----

_next ==
    /\ \E i,j \in DOMAIN _TETrace:
        /\ \/ /\ j = i + 1
              /\ i = TLCGet("level")
        /\ large  = _TETrace[i].large
        /\ large' = _TETrace[j].large
        /\ link  = _TETrace[i].link
        /\ link' = _TETrace[j].link
        /\ k  = _TETrace[i].k
        /\ k' = _TETrace[j].k
        /\ low  = _TETrace[i].low
        /\ low' = _TETrace[j].low
        /\ w  = _TETrace[i].w
        /\ w' = _TETrace[j].w
        /\ pc  = _TETrace[i].pc
        /\ pc' = _TETrace[j].pc
        /\ tree  = _TETrace[i].tree
        /\ tree' = _TETrace[j].tree
        /\ keep  = _TETrace[i].keep
        /\ keep' = _TETrace[j].keep
        /\ adj  = _TETrace[i].adj
        /\ adj' = _TETrace[j].adj

\* Uncomment the ASSUME below to write the states of the error trace
\* to the given file in Json format. Note that you can pass any tuple
\* to `JsonSerialize`. For example, a sub-sequence of _TETrace.
    \* ASSUME
    \*     LET J == INSTANCE Json
    \*         IN J!JsonSerialize("MCBoruvka_TTrace_1790868031.json", _TETrace)

=============================================================================

 Note that you can extract this module `MCBoruvka_TEExpression`
  to a dedicated file to reuse `expression` (the module in the 
  dedicated `MCBoruvka_TEExpression.tla` file takes precedence 
  over the module `MCBoruvka_TEExpression` below).

---- MODULE MCBoruvka_TEExpression ----
EXTENDS MCBoruvka, Sequences, TLCExt, Toolbox, Naturals, TLC

expression == 
    [
        \* To hide variables of the `MCBoruvka` spec from the error trace,
        \* remove the variables below.  The trace will be written in the order
        \* of the fields of this record.
        large |-> large
        ,link |-> link
        ,k |-> k
        ,low |-> low
        ,w |-> w
        ,pc |-> pc
        ,tree |-> tree
        ,keep |-> keep
        ,adj |-> adj
        
        \* Put additional constant-, state-, and action-level expressions here:
        \* ,_stateNumber |-> _TEPosition
        \* ,_largeUnchanged |-> large = large'
        
        \* Format the `large` variable as Json value.
        \* ,_largeJson |->
        \*     LET J == INSTANCE Json
        \*     IN J!ToJson(large)
        
        \* Lastly, you may build expressions over arbitrary sets of states by
        \* leveraging the _TETrace operator.  For example, this is how to
        \* count the number of times a spec variable changed up to the current
        \* state in the trace.
        \* ,_largeModCount |->
        \*     LET F[s \in DOMAIN _TETrace] ==
        \*         IF s = 1 THEN 0
        \*         ELSE IF _TETrace[s].large # _TETrace[s-1].large
        \*             THEN 1 + F[s-1] ELSE F[s-1]
        \*     IN F[_TEPosition - 1]
    ]

=============================================================================



Parsing and semantic processing can take forever if the trace below is long.
 In this case, it is advised to uncomment the module below to deserialize the
 trace from a generated binary file.

\*
\*---- MODULE MCBoruvka_TETrace ----
\*EXTENDS MCBoruvka, IOUtils, TLC
\*
\*trace == IODeserialize("MCBoruvka_TTrace_1790868031.bin", TRUE)
\*
\*=============================================================================
\*

---- MODULE MCBoruvka_TETrace ----
EXTENDS MCBoruvka, TLC

trace == 
    <<
    ([pc |-> "low",large |-> <<0, 1, 2, 3, 4>>,low |-> <<5, 6, 7>>,adj |-> (0 :> <<1, 2, 3>> @@ 1 :> <<4, 5, 6>> @@ 2 :> <<1, 4, 7>> @@ 3 :> <<2, 5, 8>> @@ 4 :> <<3, 6, 9>> @@ 5 :> <<7>> @@ 6 :> <<8>> @@ 7 :> <<9>>),w |-> <<1, 1, 1, 1, 1, 1, 2, 1, 1>>,keep |-> 0,link |-> <<<<0, 2>>, <<0, 3>>, <<0, 4>>, <<1, 2>>, <<1, 3>>, <<1, 4>>, <<2, 5>>, <<3, 6>>, <<4, 7>>>>,tree |-> <<>>,k |-> 1]),
    ([pc |-> "low",large |-> <<0, 1, 2, 3, 4>>,low |-> <<5, 6, 7>>,adj |-> (0 :> <<1, 2, 3>> @@ 1 :> <<4, 5, 6>> @@ 2 :> <<7, 1, 4, 7>> @@ 3 :> <<2, 5, 8>> @@ 4 :> <<3, 6, 9>> @@ 5 :> <<>> @@ 6 :> <<8>> @@ 7 :> <<9>>),w |-> <<1, 1, 1, 1, 1, 1, 2, 1, 1>>,keep |-> 0,link |-> <<<<0, 2>>, <<0, 3>>, <<0, 4>>, <<1, 2>>, <<1, 3>>, <<1, 4>>, <<2, 2>>, <<3, 6>>, <<4, 7>>>>,tree |-> <<7>>,k |-> 2]),
    ([pc |-> "low",large |-> <<0, 1, 2, 3, 4>>,low |-> <<5, 6, 7>>,adj |-> (0 :> <<1, 2, 3>> @@ 1 :> <<4, 5, 6>> @@ 2 :> <<7, 1, 4, 7>> @@ 3 :> <<8, 2, 5, 8>> @@ 4 :> <<3, 6, 9>> @@ 5 :> <<>> @@ 6 :> <<>> @@ 7 :> <<9>>),w |-> <<1, 1, 1, 1, 1, 1, 2, 1, 1>>,keep |-> 0,link |-> <<<<0, 2>>, <<0, 3>>, <<0, 4>>, <<1, 2>>, <<1, 3>>, <<1, 4>>, <<2, 2>>, <<3, 3>>, <<4, 7>>>>,tree |-> <<7, 8>>,k |-> 3]),
    ([pc |-> "low",large |-> <<0, 1, 2, 3, 4>>,low |-> <<5, 6, 7>>,adj |-> (0 :> <<1, 2, 3>> @@ 1 :> <<4, 5, 6>> @@ 2 :> <<7, 1, 4, 7>> @@ 3 :> <<8, 2, 5, 8>> @@ 4 :> <<9, 3, 6, 9>> @@ 5 :> <<>> @@ 6 :> <<>> @@ 7 :> <<>>),w |-> <<1, 1, 1, 1, 1, 1, 2, 1, 1>>,keep |-> 0,link |-> <<<<0, 2>>, <<0, 3>>, <<0, 4>>, <<1, 2>>, <<1, 3>>, <<1, 4>>, <<2, 2>>, <<3, 3>>, <<4, 4>>>>,tree |-> <<7, 8, 9>>,k |-> 4]),
    ([pc |-> "clean",large |-> <<0, 1, 2, 3, 4>>,low |-> <<>>,adj |-> (0 :> <<1, 2, 3>> @@ 1 :> <<4, 5, 6>> @@ 2 :> <<7, 1, 4, 7>> @@ 3 :> <<8, 2, 5, 8>> @@ 4 :> <<9, 3, 6, 9>> @@ 5 :> <<>> @@ 6 :> <<>> @@ 7 :> <<>>),w |-> <<1, 1, 1, 1, 1, 1, 2, 1, 1>>,keep |-> 0,link |-> <<<<0, 2>>, <<0, 3>>, <<0, 4>>, <<1, 2>>, <<1, 3>>, <<1, 4>>, <<2, 2>>, <<3, 3>>, <<4, 4>>>>,tree |-> <<7, 8, 9>>,k |-> 1]),
    ([pc |-> "clean",large |-> <<0, 1, 2, 3, 4>>,low |-> <<>>,adj |-> (0 :> <<1, 2, 3>> @@ 1 :> <<4, 5, 6>> @@ 2 :> <<7, 1, 4, 7>> @@ 3 :> <<8, 2, 5, 8>> @@ 4 :> <<9, 3, 6, 9>> @@ 5 :> <<>> @@ 6 :> <<>> @@ 7 :> <<>>),w |-> <<1, 1, 1, 1, 1, 1, 2, 1, 1>>,keep |-> 0,link |-> <<<<0, 2>>, <<0, 3>>, <<0, 4>>, <<1, 2>>, <<1, 3>>, <<1, 4>>, <<2, 2>>, <<3, 3>>, <<4, 4>>>>,tree |-> <<7, 8, 9>>,k |-> 2]),
    ([pc |-> "clean",large |-> <<0, 1, 2, 3, 4>>,low |-> <<>>,adj |-> (0 :> <<1, 2, 3>> @@ 1 :> <<4, 5, 6>> @@ 2 :> <<7, 1, 4, 7>> @@ 3 :> <<8, 2, 5, 8>> @@ 4 :> <<9, 3, 6, 9>> @@ 5 :> <<>> @@ 6 :> <<>> @@ 7 :> <<>>),w |-> <<1, 1, 1, 1, 1, 1, 2, 1, 1>>,keep |-> 0,link |-> <<<<0, 2>>, <<0, 3>>, <<0, 4>>, <<1, 2>>, <<1, 3>>, <<1, 4>>, <<2, 2>>, <<3, 3>>, <<4, 4>>>>,tree |-> <<7, 8, 9>>,k |-> 3]),
    ([pc |-> "clean",large |-> <<0, 1, 2, 3, 4>>,low |-> <<2>>,adj |-> (0 :> <<1, 2, 3>> @@ 1 :> <<4, 5, 6>> @@ 2 :> <<1, 4>> @@ 3 :> <<8, 2, 5, 8>> @@ 4 :> <<9, 3, 6, 9>> @@ 5 :> <<>> @@ 6 :> <<>> @@ 7 :> <<>>),w |-> <<1, 1, 1, 1, 1, 1, 2, 1, 1>>,keep |-> 0,link |-> <<<<0, 2>>, <<0, 3>>, <<0, 4>>, <<1, 2>>, <<1, 3>>, <<1, 4>>, <<2, 2>>, <<3, 3>>, <<4, 4>>>>,tree |-> <<7, 8, 9>>,k |-> 4]),
    ([pc |-> "clean",large |-> <<0, 1, 2, 3, 4>>,low |-> <<2, 3>>,adj |-> (0 :> <<1, 2, 3>> @@ 1 :> <<4, 5, 6>> @@ 2 :> <<1, 4>> @@ 3 :> <<2, 5>> @@ 4 :> <<9, 3, 6, 9>> @@ 5 :> <<>> @@ 6 :> <<>> @@ 7 :> <<>>),w |-> <<1, 1, 1, 1, 1, 1, 2, 1, 1>>,keep |-> 0,link |-> <<<<0, 2>>, <<0, 3>>, <<0, 4>>, <<1, 2>>, <<1, 3>>, <<1, 4>>, <<2, 2>>, <<3, 3>>, <<4, 4>>>>,tree |-> <<7, 8, 9>>,k |-> 5]),
    ([pc |-> "clean",large |-> <<0, 1, 2, 3, 4>>,low |-> <<2, 3, 4>>,adj |-> (0 :> <<1, 2, 3>> @@ 1 :> <<4, 5, 6>> @@ 2 :> <<1, 4>> @@ 3 :> <<2, 5>> @@ 4 :> <<3, 6>> @@ 5 :> <<>> @@ 6 :> <<>> @@ 7 :> <<>>),w |-> <<1, 1, 1, 1, 1, 1, 2, 1, 1>>,keep |-> 0,link |-> <<<<0, 2>>, <<0, 3>>, <<0, 4>>, <<1, 2>>, <<1, 3>>, <<1, 4>>, <<2, 2>>, <<3, 3>>, <<4, 4>>>>,tree |-> <<7, 8, 9>>,k |-> 6]),
    ([pc |-> "low",large |-> <<>>,low |-> <<2, 3, 4>>,adj |-> (0 :> <<1, 2, 3>> @@ 1 :> <<4, 5, 6>> @@ 2 :> <<1, 4>> @@ 3 :> <<2, 5>> @@ 4 :> <<3, 6>> @@ 5 :> <<>> @@ 6 :> <<>> @@ 7 :> <<>>),w |-> <<1, 1, 1, 1, 1, 1, 2, 1, 1>>,keep |-> 0,link |-> <<<<0, 2>>, <<0, 3>>, <<0, 4>>, <<1, 2>>, <<1, 3>>, <<1, 4>>, <<2, 2>>, <<3, 3>>, <<4, 4>>>>,tree |-> <<7, 8, 9>>,k |-> 1])
    >>
----


=============================================================================

---- CONFIG MCBoruvka_TTrace_1790868031 ----
CONSTANTS
    NNodes = 8
    EdgeEnds <- TwoHubEdges
    Levels <- L12
    MaxLow = 2
    Variant = "cleared"

INVARIANT
    _inv

CHECK_DEADLOCK
    \* CHECK_DEADLOCK off because of PROPERTY or INVARIANT above.
    FALSE

INIT
    _init

NEXT
    _next

CONSTANT
    _TETrace <- _trace

ALIAS
    _expression
=============================================================================
\* Generated on Thu Oct 01 15:20:34 UTC 2026