------------------------------- MODULE Util -------------------------------
(* Helpers shared by every module of the fastscapelib specification.       *)
(* Node indices are 0-based everywhere (as in the library and in the logs); *)
(* TLA+ sequences are 1-based, hence At / Idx0.                             *)
EXTENDS Integers, Sequences, FiniteSets, TLC

At(s, i) == s[i + 1]
Idx0(s) == 0..(Len(s) - 1)
RangeS(s) == {s[i] : i \in DOMAIN s}

SetMin(S) == CHOOSE x \in S : \A y \in S : x <= y
SetMax(S) == CHOOSE x \in S : \A y \in S : x >= y
Abs(x) == IF x < 0 THEN -x ELSE x
Max2(a, b) == IF a >= b THEN a ELSE b
Min2(a, b) == IF a <= b THEN a ELSE b

\* multiset of the elements of a sequence
BagOfSeq(s) == [x \in RangeS(s) |-> Cardinality({i \in DOMAIN s : s[i] = x})]

\* s is a permutation of 0..n-1
IsPerm0(s, n) == Len(s) = n /\ RangeS(s) = 0..(n - 1)

RECURSIVE SumSeqFrom(_, _)
SumSeqFrom(s, k) == IF k > Len(s) THEN 0 ELSE s[k] + SumSeqFrom(s, k + 1)
SumSeq(s) == SumSeqFrom(s, 1)

RECURSIVE SumOver(_, _)
\* sum of f[x] over a finite set S
SumOver(f, S) == IF S = {} THEN 0
                ELSE LET x == CHOOSE y \in S : TRUE IN f[x] + SumOver(f, S \ {x})

\* position (0-based) of x in a sequence without duplicates
PosIn(s, x) == (CHOOSE i \in DOMAIN s : s[i] = x) - 1

\* a set as a sequence in increasing order (integers)
RECURSIVE SortedSeq(_)
SortedSeq(S) == IF S = {} THEN <<>> ELSE LET m == SetMin(S) IN <<m>> \o SortedSeq(S \ {m})

INF == 2000000000
=============================================================================
