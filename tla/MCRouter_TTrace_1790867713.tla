---- MODULE MCRouter_TTrace_1790867713 ----
EXTENDS Sequences, TLCExt, MCRouter, Toolbox, Naturals, TLC

_expression ==
    LET MCRouter_TEExpression == INSTANCE MCRouter_TEExpression
    IN MCRouter_TEExpression!expression
----

_trace ==
    LET MCRouter_TETrace == INSTANCE MCRouter_TETrace
    IN MCRouter_TETrace!trace
----

_inv ==
    ~(
        TLCGet("level") = Len(_TETrace)
        /\
        routed = (TRUE)
        /\
        distM = (<<<<0>>, <<0>>, <<0>>, <<0>>, <<0>>, <<5, 1, 4>>>>)
        /\
        recS = (<<<<0>>, <<1>>, <<2>>, <<3>>, <<4>>, <<5>>>>)
        /\
        recM = (<<<<0>>, <<1>>, <<2>>, <<3>>, <<4>>, <<1, 2, 4>>>>)
        /\
        bl = ({0})
        /\
        z = ((0 :> 0 @@ 1 :> 0 @@ 2 :> 0 @@ 3 :> 0 @@ 4 :> 0 @@ 5 :> 1))
        /\
        distS = (<<<<0>>, <<0>>, <<0>>, <<0>>, <<0>>, <<0>>>>)
        /\
        mask = ({})
    )
----

_init ==
    /\ distM = _TETrace[1].distM
    /\ distS = _TETrace[1].distS
    /\ bl = _TETrace[1].bl
    /\ z = _TETrace[1].z
    /\ routed = _TETrace[1].routed
    /\ recM = _TETrace[1].recM
    /\ recS = _TETrace[1].recS
    /\ mask = _TETrace[1].mask
----

_next ==
    /\ \E i,j \in DOMAIN _TETrace:
        /\ \/ /\ j = i + 1
              /\ i = TLCGet("level")
        /\ distM  = _TETrace[i].distM
        /\ distM' = _TETrace[j].distM
        /\ distS  = _TETrace[i].distS
        /\ distS' = _TETrace[j].distS
        /\ bl  = _TETrace[i].bl
        /\ bl' = _TETrace[j].bl
        /\ z  = _TETrace[i].z
        /\ z' = _TETrace[j].z
        /\ routed  = _TETrace[i].routed
        /\ routed' = _TETrace[j].routed
        /\ recM  = _TETrace[i].recM
        /\ recM' = _TETrace[j].recM
        /\ recS  = _TETrace[i].recS
        /\ recS' = _TETrace[j].recS
        /\ mask  = _TETrace[i].mask
        /\ mask' = _TETrace[j].mask

\* Uncomment the ASSUME below to write the states of the error trace
\* to the given file in Json format. Note that you can pass any tuple
\* to `JsonSerialize`. For example, a sub-sequence of _TETrace.
    \* ASSUME
    \*     LET J == INSTANCE Json
    \*         IN J!JsonSerialize("MCRouter_TTrace_1790867713.json", _TETrace)

=============================================================================

 Note that you can extract this module `MCRouter_TEExpression`
  to a dedicated file to reuse `expression` (the module in the 
  dedicated `MCRouter_TEExpression.tla` file takes precedence 
  over the module `MCRouter_TEExpression` below).

---- MODULE MCRouter_TEExpression ----
EXTENDS Sequences, TLCExt, MCRouter, Toolbox, Naturals, TLC

expression == 
    [
        \* To hide variables of the `MCRouter` spec from the error trace,
        \* remove the variables below.  The trace will be written in the order
        \* of the fields of this record.
        distM |-> distM
        ,distS |-> distS
        ,bl |-> bl
        ,z |-> z
        ,routed |-> routed
        ,recM |-> recM
        ,recS |-> recS
        ,mask |-> mask
        
        \* Put additional constant-, state-, and action-level expressions here:
        \* ,_stateNumber |-> _TEPosition
        \* ,_distMUnchanged |-> distM = distM'
        
        \* Format the `distM` variable as Json value.
        \* ,_distMJson |->
        \*     LET J == INSTANCE Json
        \*     IN J!ToJson(distM)
        
        \* Lastly, you may build expressions over arbitrary sets of states by
        \* leveraging the _TETrace operator.  For example, this is how to
        \* count the number of times a spec variable changed up to the current
        \* state in the trace.
        \* ,_distMModCount |->
        \*     LET F[s \in DOMAIN _TETrace] ==
        \*         IF s = 1 THEN 0
        \*         ELSE IF _TETrace[s].distM # _TETrace[s-1].distM
        \*             THEN 1 + F[s-1] ELSE F[s-1]
        \*     IN F[_TEPosition - 1]
    ]

=============================================================================



Parsing and semantic processing can take forever if the trace below is long.
 In this case, it is advised to uncomment the module below to deserialize the
 trace from a generated binary file.

\*
\*---- MODULE MCRouter_TETrace ----
\*EXTENDS IOUtils, MCRouter, TLC
\*
\*trace == IODeserialize("MCRouter_TTrace_1790867713.bin", TRUE)
\*
\*=============================================================================
\*

---- MODULE MCRouter_TETrace ----
EXTENDS MCRouter, TLC

trace == 
    <<
    ([routed |-> FALSE,distM |-> <<>>,recS |-> <<>>,recM |-> <<>>,bl |-> {0},z |-> (0 :> 0 @@ 1 :> 0 @@ 2 :> 0 @@ 3 :> 0 @@ 4 :> 0 @@ 5 :> 1),distS |-> <<>>,mask |-> {}]),
    ([routed |-> TRUE,distM |-> <<<<0>>, <<0>>, <<0>>, <<0>>, <<0>>, <<5, 1, 4>>>>,recS |-> <<<<0>>, <<1>>, <<2>>, <<3>>, <<4>>, <<5>>>>,recM |-> <<<<0>>, <<1>>, <<2>>, <<3>>, <<4>>, <<1, 2, 4>>>>,bl |-> {0},z |-> (0 :> 0 @@ 1 :> 0 @@ 2 :> 0 @@ 3 :> 0 @@ 4 :> 0 @@ 5 :> 1),distS |-> <<<<0>>, <<0>>, <<0>>, <<0>>, <<0>>, <<0>>>>,mask |-> {}])
    >>
----


=============================================================================

---- CONFIG MCRouter_TTrace_1790867713 ----
CONSTANTS
    D <- Queen23A
    Levels = { 0 , 1 , 3 }
    Masks <- M23
    BLSets <- B23
    Threshold = 1

INVARIANT
    _inv

CHECK_DEADLOCK
    \* CHECK_DEADLOCK off because of PROPERTY or INVARIANT above.
    FALSE

INIT
    _init

NEXT
    _next

CONSTANT
    _TETrace <- _trace

ALIAS
    _expression
=============================================================================
\* Generated on Thu Oct 01 15:15:15 UTC 2026