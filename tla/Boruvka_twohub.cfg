CONSTANTS
  NNodes = 8
  EdgeEnds <- TwoHubEdges
  Levels <- L123
  MaxLow = 2
  Variant = "code"
SPECIFICATION Spec
INVARIANT TypeOK
INVARIANT Acyclic
INVARIANT NothingForgotten
INVARIANT Result
PROPERTY Termination
CHECK_DEADLOCK FALSE
