SPECIFICATION GSpec
POSTCONDITION GAccepted
CHECK_DEADLOCK FALSE
