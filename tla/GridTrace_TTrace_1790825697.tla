---- MODULE GridTrace_TTrace_1790825697 ----
EXTENDS Sequences, TLCExt, Toolbox, GridTrace, Naturals, TLC

_expression ==
    LET GridTrace_TEExpression == INSTANCE GridTrace_TEExpression
    IN GridTrace_TEExpression!expression
----

_trace ==
    LET GridTrace_TETrace == INSTANCE GridTrace_TETrace
    IN GridTrace_TETrace!trace
----

_inv ==
    ~(
        TLCGet("level") = Len(_TETrace)
        /\
        l = (2)
        /\
        gd = ([t |-> "none"])
    )
----

_init ==
    /\ l = _TETrace[1].l
    /\ gd = _TETrace[1].gd
----

_next ==
    /\ \E i,j \in DOMAIN _TETrace:
        /\ \/ /\ j = i + 1
              /\ i = TLCGet("level")
        /\ l  = _TETrace[i].l
        /\ l' = _TETrace[j].l
        /\ gd  = _TETrace[i].gd
        /\ gd' = _TETrace[j].gd

\* Uncomment the ASSUME below to write the states of the error trace
\* to the given file in Json format. Note that you can pass any tuple
\* to `JsonSerialize`. For example, a sub-sequence of _TETrace.
    \* ASSUME
    \*     LET J == INSTANCE Json
    \*         IN J!JsonSerialize("GridTrace_TTrace_1790825697.json", _TETrace)

=============================================================================

 Note that you can extract this module `GridTrace_TEExpression`
  to a dedicated file to reuse `expression` (the module in the 
  dedicated `GridTrace_TEExpression.tla` file takes precedence 
  over the module `GridTrace_TEExpression` below).

---- MODULE GridTrace_TEExpression ----
EXTENDS Sequences, TLCExt, Toolbox, GridTrace, Naturals, TLC

expression == 
    [
        \* To hide variables of the `GridTrace` spec from the error trace,
        \* remove the variables below.  The trace will be written in the order
        \* of the fields of this record.
        l |-> l
        ,gd |-> gd
        
        \* Put additional constant-, state-, and action-level expressions here:
        \* ,_stateNumber |-> _TEPosition
        \* ,_lUnchanged |-> l = l'
        
        \* Format the `l` variable as Json value.
        \* ,_lJson |->
        \*     LET J == INSTANCE Json
        \*     IN J!ToJson(l)
        
        \* Lastly, you may build expressions over arbitrary sets of states by
        \* leveraging the _TETrace operator.  For example, this is how to
        \* count the number of times a spec variable changed up to the current
        \* state in the trace.
        \* ,_lModCount |->
        \*     LET F[s \in DOMAIN _TETrace] ==
        \*         IF s = 1 THEN 0
        \*         ELSE IF _TETrace[s].l # _TETrace[s-1].l
        \*             THEN 1 + F[s-1] ELSE F[s-1]
        \*     IN F[_TEPosition - 1]
    ]

=============================================================================



Parsing and semantic processing can take forever if the trace below is long.
 In this case, it is advised to uncomment the module below to deserialize the
 trace from a generated binary file.

\*
\*---- MODULE GridTrace_TETrace ----
\*EXTENDS IOUtils, GridTrace, TLC
\*
\*trace == IODeserialize("GridTrace_TTrace_1790825697.bin", TRUE)
\*
\*=============================================================================
\*

---- MODULE GridTrace_TETrace ----
EXTENDS GridTrace, TLC

trace == 
    <<
    ([l |-> 1,gd |-> [t |-> "none"]]),
    ([l |-> 2,gd |-> [t |-> "none"]])
    >>
----


=============================================================================

---- CONFIG GridTrace_TTrace_1790825697 ----

INVARIANT
    _inv

CHECK_DEADLOCK
    \* CHECK_DEADLOCK off because of PROPERTY or INVARIANT above.
    FALSE

INIT
    _init

NEXT
    _next

CONSTANT
    _TETrace <- _trace

ALIAS
    _expression
=============================================================================
\* Generated on Thu Oct 01 03:35:01 UTC 2026