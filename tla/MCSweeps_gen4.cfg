CONSTANTS
  N = 4
  MaxRec = 2
  Algo = "accumulate"
  Order = "contract"
  Variant = "code"
  Sources <- S_0
SPECIFICATION Spec
INVARIANTS RefinesC03 RefinesC19
PROPERTY Terminates
CHECK_DEADLOCK FALSE
