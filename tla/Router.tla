------------------------------- MODULE Router -------------------------------
(* L2 models of the flow routers (flow_router.hpp) in exact arithmetic on    *)
(* integer elevations: the single-direction router scans the neighbours of a *)
(* node in grid order and keeps the steepest strictly lower one (slopes      *)
(* drop / distance compared exactly through drop^2 * dsq); the multiple-     *)
(* direction router keeps every strictly lower unmasked neighbour.           *)
(* Threshold = 0 is the repaired behaviour ("any strictly lower neighbour    *)
(* is a candidate"); Threshold > 0 models a minimum-slope test (the defect   *)
(* slope > DBL_MIN at subnormal scale): squared slopes not above Threshold   *)
(* are ignored - negative control.                                           *)
(* TLC checks, for EVERY field over Levels on grid D, every mask and base-   *)
(* level set given, that the result satisfies the L1 contracts C04 / C05     *)
(* that recorded traces are validated against.                               *)
EXTENDS Grid, FlowContract

CONSTANTS D, Levels, Masks, BLSets, Threshold

N == Size(D)
NodeSet == Nodes(D)
NB == NeighTable(D)

VARIABLES z, mask, bl, routed, recS, distS, recM, distM
rvars == <<z, mask, bl, routed, recS, distS, recM, distM>>

Init == /\ z \in [NodeSet -> Levels] /\ mask \in Masks /\ bl \in BLSets /\ bl \cap mask = {}
        /\ routed = FALSE /\ recS = <<>> /\ distS = <<>> /\ recM = <<>> /\ distM = <<>>

\* scan of the neighbours of i, in grid order: <<receiver, dsq of the receiver, drop of the receiver>>
RECURSIVE Scan(_, _, _)
Scan(i, k, best) ==
  IF k > Len(NB[i]) THEN best
  ELSE LET e == NB[i][k]
           drop == z[i] - z[e.j]
       IN IF e.j \in mask \/ drop <= 0 THEN Scan(i, k + 1, best)
          \* candidate: strictly lower; its squared slope drop^2 / dsq must exceed the threshold
          ELSE IF drop * drop <= Threshold * e.dsq THEN Scan(i, k + 1, best)
          ELSE IF best[1] = i \/ drop * drop * best[2] > best[3] * best[3] * e.dsq
                 THEN Scan(i, k + 1, <<e.j, e.dsq, drop>>)
                 ELSE Scan(i, k + 1, best)
SingleOf(i) == IF i \in mask \/ i \in bl THEN <<i, 0, 0>> ELSE Scan(i, 1, <<i, 0, 0>>)
MultiOf(i) == IF i \in mask \/ i \in bl THEN <<>>
              ELSE SelectSeq(NB[i], LAMBDA e : e.j \notin mask /\ z[e.j] < z[i])

Route == /\ ~routed /\ routed' = TRUE
         /\ recS' = [k \in 1..N |-> <<SingleOf(k - 1)[1]>>]
         /\ distS' = [k \in 1..N |-> <<SingleOf(k - 1)[2]>>]
         /\ recM' = [k \in 1..N |-> IF MultiOf(k - 1) = <<>> THEN <<k - 1>> ELSE [q \in DOMAIN MultiOf(k - 1) |-> MultiOf(k - 1)[q].j]]
         /\ distM' = [k \in 1..N |-> IF MultiOf(k - 1) = <<>> THEN <<0>> ELSE [q \in DOMAIN MultiOf(k - 1) |-> MultiOf(k - 1)[q].dsq]]
         /\ UNCHANGED <<z, mask, bl>>
Spec == Init /\ [][Route]_rvars

X == [n |-> N, nb |-> NB, mask |-> [k \in 1..N |-> IF (k - 1) \in mask THEN 1 ELSE 0], bl |-> bl]
ZS == [k \in 1..N |-> z[k - 1]]
One == [k \in 1..N |-> <<1048576>>]
Zero == [k \in 1..N |-> <<0>>]
RS == [rec |-> recS, nrec |-> [k \in 1..N |-> 1], dq |-> distS, wq |-> One, wc |-> Zero, zm |-> ZS]
\* equal weights (exponent 0) in Q(20)
WM == [k \in 1..N |-> [q \in DOMAIN recM[k] |-> 1048576 \div Len(recM[k])]]
RM == [rec |-> recM, nrec |-> [k \in 1..N |-> Len(recM[k])], dq |-> distM, wq |-> WM,
       wc |-> [k \in 1..N |-> [q \in DOMAIN recM[k] |-> 0]], zm |-> ZS]
SingleRefinesC04 == routed => C04(X, RS, ZS, TRUE)
MultiRefinesC05 == routed => /\ C05Terminals(X, RM, ZS) /\ C05Receivers(X, RM, ZS)
                             /\ C05Finite(X, RM, ZS) /\ C05SumToOne(X, RM, ZS)
                             /\ C05Proportional(X, RM, ZS, 0)
=============================================================================
