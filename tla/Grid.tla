------------------------------- MODULE Grid -------------------------------
(* L1 specification of fastscapelib grids: profile grid, raster grid        *)
(* (rook / queen / bishop), triangular mesh.                                *)
(*                                                                          *)
(* A grid is described by a record d (the same JSON object the harness      *)
(* builds the real grid from):                                              *)
(*   [t |-> "profile", n, dx, bs |-> <<left,right>>, ov |-> <<<<idx,st>>..>>]*)
(*   [t |-> "raster", conn, nr, nc, dy, dx, bs |-> <<left,right,top,bottom>>,*)
(*    ov |-> <<<<row,col,st>>..>>]                                          *)
(*   [t |-> "mesh", pts |-> <<<<x,y>>..>>, tri |-> <<<<a,b,c>>..>>,          *)
(*    st |-> "default"|"map"|"array", stv]                                  *)
(* Status codes: 0 core, 1 fixed value, 2 fixed gradient, 3 looped.         *)
(* Spacings and coordinates are integers (times a common power of two that  *)
(* the specification never needs), so squared distances are exact integers. *)
EXTENDS Util, SequencesExt

CORE == 0
FIXED_VALUE == 1
FIXED_GRADIENT == 2
LOOPED == 3
Statuses == {CORE, FIXED_VALUE, FIXED_GRADIENT, LOOPED}

HasField(d, f) == f \in DOMAIN d

Size(d) == CASE d.t = "profile" -> d.n
             [] d.t = "raster" -> d.nr * d.nc
             [] d.t = "mesh" -> Len(d.pts)
Nodes(d) == 0..(Size(d) - 1)

HLooped(d) == d.t \in {"profile", "raster"} /\ d.bs[1] = LOOPED /\ d.bs[2] = LOOPED
VLooped(d) == d.t = "raster" /\ d.bs[3] = LOOPED /\ d.bs[4] = LOOPED

\* looped statuses must come in opposite pairs
BoundsOK(d) == CASE d.t = "profile" -> (d.bs[1] = LOOPED) = (d.bs[2] = LOOPED)
                 [] d.t = "raster" -> /\ (d.bs[1] = LOOPED) = (d.bs[2] = LOOPED)
                                      /\ (d.bs[3] = LOOPED) = (d.bs[4] = LOOPED)
                 [] OTHER -> TRUE

-----------------------------------------------------------------------------
(* Neighbourhoods.  NeighSeq(d, i) is a sequence of [j, dsq] entries: the    *)
(* nodes one step away from i and the squared step length.  Only the BAG of  *)
(* entries is meaningful (a size-2 looped axis lists the same node twice).   *)

Offsets(conn) ==
  CASE conn = "queen" -> << <<0-1,0-1>>, <<0-1,0>>, <<0-1,1>>, <<0,0-1>>, <<0,1>>, <<1,0-1>>, <<1,0>>, <<1,1>> >>
    [] conn = "rook" -> << <<0-1,0>>, <<0,0-1>>, <<0,1>>, <<1,0>> >>
    [] conn = "bishop" -> << <<0-1,0-1>>, <<0-1,1>>, <<1,0-1>>, <<1,1>> >>

\* coordinate after a step of o in a dimension of size sz, -1 if it leaves a non-looped axis
StepCoord(x, o, sz, looped) ==
  LET y == x + o IN
  IF y >= 0 /\ y < sz THEN y ELSE IF looped THEN (y + sz) % sz ELSE 0 - 1

RasterNeighSeq(d, i) ==
  LET r == i \div d.nc
      c == i % d.nc
      offs == Offsets(d.conn)
      ent(o) == LET rr == StepCoord(r, o[1], d.nr, VLooped(d))
                    cc == StepCoord(c, o[2], d.nc, HLooped(d))
                IN [j |-> IF rr = 0 - 1 \/ cc = 0 - 1 THEN 0 - 1 ELSE rr * d.nc + cc,
                    dsq |-> (IF o[1] # 0 THEN d.dy * d.dy ELSE 0) + (IF o[2] # 0 THEN d.dx * d.dx ELSE 0)]
      all == [k \in 1..Len(offs) |-> ent(offs[k])]
  IN SelectSeq(all, LAMBDA e : e.j # 0 - 1)

ProfileNeighSeq(d, i) ==
  LET e(j) == [j |-> j, dsq |-> d.dx * d.dx]
      left == IF i > 0 THEN <<e(i - 1)>> ELSE IF HLooped(d) THEN <<e(d.n - 1)>> ELSE <<>>
      right == IF i < d.n - 1 THEN <<e(i + 1)>> ELSE IF HLooped(d) THEN <<e(0)>> ELSE <<>>
  IN left \o right

\* undirected edges of a triangulation, as sets {a, b}
TriEdges(t) == {{t[1], t[2]}, {t[2], t[3]}, {t[3], t[1]}}
MeshEdges(d) == UNION {TriEdges(d.tri[k]) : k \in DOMAIN d.tri}
MeshDsq(d, a, b) == LET p == At(d.pts, a)  q == At(d.pts, b)
                    IN (p[1] - q[1]) * (p[1] - q[1]) + (p[2] - q[2]) * (p[2] - q[2])
MeshNeighSeq(d, i) ==
  LET ns == {j \in Nodes(d) : {i, j} \in MeshEdges(d) /\ j # i}
      s == SortedSeq(ns)
  IN [k \in DOMAIN s |-> [j |-> s[k], dsq |-> MeshDsq(d, i, s[k])]]

NeighSeq(d, i) == CASE d.t = "profile" -> ProfileNeighSeq(d, i)
                    [] d.t = "raster" -> RasterNeighSeq(d, i)
                    [] d.t = "mesh" -> MeshNeighSeq(d, i)

\* the whole neighbour table, evaluated once
NeighTable(d) == TLCEval([i \in Nodes(d) |-> NeighSeq(d, i)])
NbSet(nb, i) == {nb[i][k].j : k \in DOMAIN nb[i]}

\* symmetry of the neighbour relation as bags: i lists j with dsq as often as j lists i
NeighSymmetric(d) ==
  LET nb == NeighTable(d)
      cnt(i, j, q) == Cardinality({k \in DOMAIN nb[i] : nb[i][k].j = j /\ nb[i][k].dsq = q})
  IN \A i \in Nodes(d) : \A k \in DOMAIN nb[i] :
        cnt(i, nb[i][k].j, nb[i][k].dsq) = cnt(nb[i][k].j, i, nb[i][k].dsq)

\* expected number of neighbours from the position of a node alone (degree table)
RasterDegree(d, i) ==
  LET r == i \div d.nc   c == i % d.nc
      up == r > 0 \/ VLooped(d)       down == r < d.nr - 1 \/ VLooped(d)
      left == c > 0 \/ HLooped(d)     right == c < d.nc - 1 \/ HLooped(d)
      b(x) == IF x THEN 1 ELSE 0
      orth == b(up) + b(down) + b(left) + b(right)
      diag == b(up /\ left) + b(up /\ right) + b(down /\ left) + b(down /\ right)
  IN CASE d.conn = "rook" -> orth [] d.conn = "bishop" -> diag [] d.conn = "queen" -> orth + diag

-----------------------------------------------------------------------------
(* Node status.                                                              *)

Priority(s) == CASE s = CORE -> 0 [] s = LOOPED -> 1 [] s = FIXED_GRADIENT -> 2 [] s = FIXED_VALUE -> 3
Stronger(a, b) == IF Priority(a) >= Priority(b) THEN a ELSE b

\* status before per-node overrides
BaseStatus(d, i) ==
  CASE d.t = "profile" -> IF i = 0 THEN d.bs[1] ELSE IF i = d.n - 1 THEN d.bs[2] ELSE CORE
    [] d.t = "raster" ->
         LET r == i \div d.nc   c == i % d.nc
             rowB == IF r = 0 THEN <<d.bs[3]>> ELSE IF r = d.nr - 1 THEN <<d.bs[4]>> ELSE <<>>
             colB == IF c = 0 THEN <<d.bs[1]>> ELSE IF c = d.nc - 1 THEN <<d.bs[2]>> ELSE <<>>
         IN IF rowB # <<>> /\ colB # <<>> THEN Stronger(rowB[1], colB[1])
            ELSE IF rowB # <<>> THEN rowB[1] ELSE IF colB # <<>> THEN colB[1] ELSE CORE
    [] OTHER -> CORE

Overrides(d) == IF HasField(d, "ov") THEN d.ov ELSE <<>>
\* (an optional last component 1 marks an index given as 2^63 + e[1] - what a negative integer becomes as
\* an unsigned key; TLC's integers cannot hold it: such an entry is out of range whatever e[1] is)
OvHuge(d, e) == IF d.t = "raster" THEN Len(e) = 4 /\ e[4] = 1 ELSE Len(e) = 3 /\ e[3] = 1
OvIndex(d, e) == IF OvHuge(d, e) THEN 0 - 1
                 ELSE IF d.t = "raster" THEN (IF e[1] >= 0 /\ e[1] < d.nr /\ e[2] >= 0 /\ e[2] < d.nc
                                           THEN e[1] * d.nc + e[2] ELSE 0 - 1)
                 ELSE (IF e[1] >= 0 /\ e[1] < Size(d) THEN e[1] ELSE 0 - 1)
OvStatus(d, e) == IF d.t = "raster" THEN e[3] ELSE e[2]

\* an override entry is admissible: in range, not looped, and not over a looped border node
OvOK(d, e) == /\ OvIndex(d, e) # 0 - 1
              /\ OvStatus(d, e) # LOOPED
              /\ BaseStatus(d, OvIndex(d, e)) # LOOPED

\* boundary nodes of a mesh: end points of edges that belong to exactly one triangle
MeshBoundary(d) ==
  LET cnt(e) == Cardinality({k \in DOMAIN d.tri : e \in TriEdges(d.tri[k])})
  IN UNION {e \in MeshEdges(d) : cnt(e) = 1}

MeshStatusMode(d) == IF HasField(d, "st") THEN d.st ELSE "default"

\* TRUE iff the constructor must succeed
GridAccepted(d) ==
  CASE d.t \in {"profile", "raster"} ->
         BoundsOK(d) /\ \A k \in DOMAIN Overrides(d) : OvOK(d, Overrides(d)[k])
    [] d.t = "mesh" ->
         CASE MeshStatusMode(d) = "map" ->
                \A k \in DOMAIN d.stv : d.stv[k][1] \in Nodes(d) /\ d.stv[k][2] # LOOPED
           [] MeshStatusMode(d) = "array" -> Len(d.stv) = Size(d)
           [] OTHER -> TRUE

\* the status array of an accepted grid (later map entries cannot collide: keys are unique)
StatusArray(d) ==
  TLCEval([i \in Nodes(d) |->
    CASE d.t \in {"profile", "raster"} ->
           LET hits == {k \in DOMAIN Overrides(d) : OvIndex(d, Overrides(d)[k]) = i}
           IN IF hits = {} THEN BaseStatus(d, i) ELSE OvStatus(d, Overrides(d)[SetMax(hits)])
      [] d.t = "mesh" ->
           CASE MeshStatusMode(d) = "map" /\ Len(d.stv) > 0 ->
                  LET hits == {k \in DOMAIN d.stv : d.stv[k][1] = i}
                  IN IF hits = {} THEN CORE ELSE d.stv[SetMax(hits)][2]
             [] MeshStatusMode(d) = "array" -> At(d.stv, i)
             [] OTHER -> IF i \in MeshBoundary(d) THEN FIXED_VALUE ELSE CORE])

NodesWithStatus(d, s) == {i \in Nodes(d) : StatusArray(d)[i] = s}
\* iteration order of nodes_indices(status): increasing; reversed: decreasing
FilteredSeq(d, s) == SortedSeq(NodesWithStatus(d, s))
DefaultBaseLevels(d) == NodesWithStatus(d, FIXED_VALUE)

-----------------------------------------------------------------------------
(* Node areas.  Structured grids: the cell area.  Meshes: circumcentric     *)
(* (Voronoi) share, an exact rational: for vertex A of a triangle with      *)
(* squared edge lengths a2 (opposite A), b2, c2 and twice-area T2,           *)
(*    share(A) = [b2*(a2 + c2 - b2) + c2*(a2 + b2 - c2)] / (16 * T2).        *)
TriTwiceArea(d, t) ==
  LET p == At(d.pts, t[1])  q == At(d.pts, t[2])  r == At(d.pts, t[3])
  IN Abs((q[1] - p[1]) * (r[2] - p[2]) - (r[1] - p[1]) * (q[2] - p[2]))
\* numerator of the share of vertex number v (1..3) of triangle t over denominator 16*T2
TriShareNum(d, t, v) ==
  LET A == t[v]  B == t[(v % 3) + 1]  C == t[((v + 1) % 3) + 1]
      a2 == MeshDsq(d, B, C)  b2 == MeshDsq(d, A, C)  c2 == MeshDsq(d, A, B)
  IN b2 * (a2 + c2 - b2) + c2 * (a2 + b2 - c2)
=============================================================================
