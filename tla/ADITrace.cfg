SPECIFICATION ASpec
POSTCONDITION AAccepted
CHECK_DEADLOCK FALSE
