------------------------------ MODULE UFTrace ------------------------------
(* Conformance of detail::union_find with the L1 partition semantics of the *)
(* UnionFind specification.  Each "UF" line is one complete operation       *)
(* sequence executed by the real class (sequences come from TLC's own state *)
(* graph of the L2 model - one per transition - and from random generators);*)
(* the abstract partition is folded over the operations and every recorded  *)
(* observation (size, representative of every element, result of find) must *)
(* be one the partition allows.                                             *)
EXTENDS Naturals, Sequences, FiniteSets, Json, IOUtils, TLC
ASSUME TLCSet(7, ndJsonDeserialize(IOEnv.TRACE))
Log == TLCGet(7)
Diag == IOEnv.DIAG = "1"
VARIABLE l
Chk(name, line, val) == IF Diag THEN (IF val THEN TRUE ELSE PrintT(<<"FAILED", name, "line", line>>)) ELSE val

Singles(n) == [i \in 1..n |-> {i - 1}]
\* L1 transition function on partitions (UnionFind!Merge / Clear / Resize / PushBack, cls component)
ApplyL1(c, op) ==
  LET n == Len(c) IN
  CASE op[1] = "find" -> c
    [] op[1] = "merge" -> LET u == c[op[2] + 1] \cup c[op[3] + 1] IN [i \in 1..n |-> IF (i - 1) \in u THEN u ELSE c[i]]
    [] op[1] = "clear" -> Singles(n)
    [] op[1] = "resize" -> Singles(op[2])
    [] op[1] = "push" -> IF op[2] = n THEN Append(c, {n})
                         ELSE LET u == c[op[2] + 1] \cup {n} IN [i \in 1..(n + 1) |-> IF (i - 1) \in u THEN u ELSE c[i]]
RECURSIVE Parts(_, _, _)
\* Parts(c, ops, k): sequence of the partitions after each of ops[k..]
Parts(c, ops, k) == IF k > Len(ops) THEN <<>> ELSE LET c2 == ApplyL1(c, ops[k]) IN <<c2>> \o Parts(c2, ops, k + 1)

RootsAgree(r, c) ==
  /\ Len(r) = Len(c)
  /\ \A i \in 1..Len(c) : /\ r[i] \in c[i]
                          /\ r[r[i] + 1] = r[i]
                          /\ \A j \in 1..Len(c) : (r[i] = r[j]) <=> ((j - 1) \in c[i])

InDomain(e) ==   \* the generators only issue calls with valid arguments
  LET ps == <<Singles(e.n0)>> \o Parts(Singles(e.n0), e.ops, 1) IN
  \A k \in 1..Len(e.ops) :
     LET n == Len(ps[k]) op == e.ops[k] IN
     CASE op[1] = "find" -> op[2] < n
       [] op[1] = "merge" -> op[2] < n /\ op[3] < n
       [] op[1] = "push" -> op[2] <= n
       [] OTHER -> TRUE

UFLine(e, line) ==
  LET ps == Parts(Singles(e.n0), e.ops, 1)
      K == Len(e.ops)
      before(k) == IF k = 1 THEN e.roots0 ELSE e.roots[k - 1] IN
  /\ Chk("UF.InitialSingletons", line, RootsAgree(e.roots0, Singles(e.n0)))
  /\ Chk("UF.Size", line, \A k \in 1..K : e.sizes[k] = Len(ps[k]))
  /\ Chk("UF.Partition", line, \A k \in 1..K : RootsAgree(e.roots[k], ps[k]))
  \* find returns the representative every member had before the call and leaves all of them unchanged
  /\ Chk("UF.FindResult", line, \A k \in 1..K : e.ops[k][1] = "find" => e.res[k] = before(k)[e.ops[k][2] + 1])
  /\ Chk("UF.FindStable", line, \A k \in 1..K : e.ops[k][1] = "find" => e.roots[k] = before(k))
  \* merge: classes that are not involved keep their representative; the new one is one of the two old ones
  /\ Chk("UF.MergeLocal", line, \A k \in 1..K : e.ops[k][1] = "merge" =>
          LET b == before(k) x == e.ops[k][2] y == e.ops[k][3] IN
          /\ \A i \in 1..Len(b) : (b[i] # b[x + 1] /\ b[i] # b[y + 1]) => e.roots[k][i] = b[i]
          /\ e.roots[k][x + 1] \in {b[x + 1], b[y + 1]})

UNext == /\ l <= Len(Log)
         /\ \/ Log[l].e = "Reset"
            \/ /\ Log[l].e = "UF"
               /\ Chk("UF.CaseInDomain", l, InDomain(Log[l]))
               /\ UFLine(Log[l], l)
         /\ l' = l + 1
USpec == l = 1 /\ [][UNext]_l
UAccepted == IF TLCGet("stats").diameter - 1 = Len(Log) THEN TRUE
             ELSE PrintT(<<"REJECTED at line", TLCGet("stats").diameter, "of", Len(Log)>>) /\ FALSE
=============================================================================
