----------------------------- MODULE PoolTrace -----------------------------
(* Trace validation of the real thread_pool, run under the controlled       *)
(* scheduler of the harness, against the ThreadPool model.                  *)
(*   g  a thread was granted the step that follows schedule point s         *)
(*   a  a thread arrived at a point that can only be reached holding the    *)
(*      mutex (acquisition)                                                 *)
(*   op / ret  a caller program operation starts / has returned             *)
(*   cb  the user callback ran for block r = [a, b)                         *)
(*   ran the per-index execution counts seen by the caller after run_blocks *)
(* Steps the library performs between two schedule points without touching  *)
(* shared state are silent steps of the caller.                             *)
EXTENDS ThreadPool, Json, IOUtils

ASSUME TLCSet(7, ndJsonDeserialize(IOEnv.TRACE))
ASSUME TLCSet(8, 0)
Log == TLCGet(7)

VARIABLES l,       \* next line
          cur,     \* the run operation in flight: <<first, last, min>> (for the callback ranges)
          fresh,   \* workers that have not yet done their first (unobservable) stop-flag load
          dead,    \* the rest of the segment is not examined (inconclusive run)
          cbseen   \* blocks whose callback has been logged during the run operation in flight
tvars == <<vars, l, cur, fresh, dead, cbseen>>

\* site numbers (utils/verif_hooks.hpp)
c_spawn == 1  c_store == 2  c_load == 3  c_spin_pause == 5  c_prelock == 6  c_locked == 7  c_notify == 8
c_stopflag == 9  c_join == 10  c_reinit == 11  c_publish == 12  c_return == 13  c_setpause == 14
w_loop == 20  w_job == 21  w_done == 22  w_endloop == 23  w_exit == 24
k_prelock == 30  k_locked == 31  k_prewait == 32  k_woken == 33  k_end == 34

E == Log[l]
IsEv(e) == l <= Len(Log) /\ ~dead /\ E.e = e
IsG(t, s) == IsEv("g") /\ E.t = t /\ E.s = s
Adv == l' = l + 1
KeepT == UNCHANGED <<cur, fresh, dead, cbseen>>
Stutter == UNCHANGED vars

TReset == /\ l <= Len(Log) /\ Log[l].e = "Reset"
          /\ ResetTo(<<>>, 1) /\ cur' = <<0, 0, 0>> /\ fresh' = {} /\ dead' = FALSE /\ cbseen' = {} /\ Adv
TNew == /\ IsEv("PoolNew") /\ cpc = "idle" /\ prog = <<>>
        /\ prog' = E.prog \o << <<"stop">> >> /\ size' = E.size
        /\ UNCHANGED <<cpc, cstack, ci, started, paused, stopped, hasJob, hjVer, jobsKind, jobNonNull, jobVer,
                       pcount, mutex, cvWait, wpc, nthreads, seenVer, resVer, callerSeen, execCount, race, dup>>
        /\ KeepT /\ Adv
TInconclusive == IsEv("Inconclusive") /\ dead' = TRUE /\ UNCHANGED <<vars, cur, fresh, cbseen>> /\ Adv
TSkipDead == l <= Len(Log) /\ dead /\ Log[l].e # "Reset" /\ UNCHANGED <<vars, cur, fresh, dead, cbseen>> /\ Adv
TNote == IsEv("note") /\ Stutter /\ KeepT /\ Adv

\* ---- caller program structure
TOp == /\ IsEv("op") /\ cpc = "idle" /\ prog # <<>>
       /\ IF E.op[1] = "destroy" THEN Head(prog)[1] = "stop" /\ Len(prog) = 1 ELSE Head(prog) = E.op
       /\ Idle
       /\ cur' = IF E.op[1] = "run" THEN <<E.op[2], E.op[3], E.op[4]>> ELSE cur
       /\ cbseen' = IF E.op[1] = "run" THEN {} ELSE cbseen
       /\ UNCHANGED <<fresh, dead>> /\ Adv
\* the call has returned: the model must be back at "idle" (e.g. every callback finished and seen)
TRet == IsEv("ret") /\ cpc = "idle" /\ Stutter /\ KeepT /\ Adv

\* ---- caller steps at schedule points
TCaller ==
  \/ IsG(0, c_publish) /\ cpc = "B0" /\ ci = E.i /\ ci > 0 /\ B0 /\ KeepT /\ Adv
  \/ IsG(0, c_spawn) /\ ci = E.i + 1 /\ T0sSpawn /\ fresh' = fresh \cup {E.i + 1} /\ UNCHANGED <<cur, dead, cbseen>> /\ Adv
  \/ IsG(0, c_store) /\ ci = E.i + 1 /\ T2Store /\ KeepT /\ Adv
  \/ IsG(0, c_load) /\ ci = E.i + 1 /\ WlLoad /\ KeepT /\ Adv
  \/ IsG(0, c_spin_pause) /\ cpc = "P3" /\ Stutter /\ KeepT /\ Adv
  \/ IsG(0, c_setpause) /\ P1 /\ KeepT /\ Adv
  \/ IsG(0, c_prelock) /\ cpc = "R1lock" /\ Stutter /\ KeepT /\ Adv
  \/ IsEv("a") /\ E.t = 0 /\ E.s = c_locked /\ R1lock /\ KeepT /\ Adv
  \/ IsG(0, c_locked) /\ R1unlock /\ KeepT /\ Adv
  \/ IsG(0, c_notify) /\ R1 /\ KeepT /\ Adv
  \/ IsG(0, c_stopflag) /\ cpc = "S0" /\ ~stopped /\ S0 /\ KeepT /\ Adv
  \/ IsG(0, c_join) /\ cpc = "S2" /\ ci = E.i + 1 /\ Stutter /\ KeepT /\ Adv
  \/ IsG(0, c_reinit) /\ Z1 /\ fresh' = {} /\ UNCHANGED <<cur, dead, cbseen>> /\ Adv
  \/ IsG(0, c_return) /\ B2 /\ KeepT /\ Adv

\* ---- worker steps at schedule points (thread t = worker index + 1)
TWorker ==
  \E i \in W :
    \/ IsG(i, w_loop) /\ i \notin fresh /\ L1(i) /\ KeepT /\ Adv
    \/ IsG(i, w_job) /\ L2(i) /\ KeepT /\ Adv
    \/ IsG(i, w_done) /\ L3(i) /\ KeepT /\ Adv
    \/ IsG(i, w_endloop) /\ L0(i) /\ KeepT /\ Adv
    \/ IsG(i, w_exit) /\ wpc[i] = "exited" /\ Stutter /\ KeepT /\ Adv
    \/ IsG(i, k_prelock) /\ wpc[i] = "K0" /\ Stutter /\ KeepT /\ Adv
    \/ IsEv("a") /\ E.t = i /\ E.s = k_locked /\ K0(i) /\ KeepT /\ Adv
    \/ IsG(i, k_locked) /\ K1(i) /\ KeepT /\ Adv
    \/ IsG(i, k_prewait) /\ K2(i) /\ KeepT /\ Adv
    \/ IsEv("a") /\ E.t = i /\ E.s = k_woken /\ K3(i) /\ KeepT /\ Adv
    \/ IsG(i, k_woken) /\ K4(i) /\ KeepT /\ Adv
    \/ IsG(i, k_end) /\ K5(i) /\ KeepT /\ Adv

\* ---- what the user callback and the caller observed (C11: exactly once, disjoint contiguous
\*      blocks given by the Blocks specification, at most `size` of them)
TCallback ==
  /\ IsEv("cb")
  /\ LET b == BlockDesc(cur[1], cur[2], size, cur[3]) IN
     /\ E.r < b.nb /\ E.r < size
     /\ E.a = BStart(b, E.r) /\ E.b = BEnd(b, E.r)
     /\ wpc[E.r + 1] = "L3" /\ execCount[E.r + 1] = 1
  /\ E.r \notin cbseen /\ cbseen' = cbseen \cup {E.r}
  /\ Stutter /\ UNCHANGED <<cur, fresh, dead>> /\ Adv
TRan == /\ IsEv("ran")
        /\ cbseen = 0..(NumBlocks(cur[1], cur[2], size, cur[3]) - 1)
        /\ \A k \in DOMAIN E.out : E.out[k] = (IF k - 1 >= cur[1] /\ k - 1 < cur[2] THEN 1 ELSE 0)
        /\ Stutter /\ KeepT /\ Adv

\* ---- silent steps (no shared-state access between two schedule points, or unobservable)
B0Empty == cpc = "B0" /\ ci = 0 /\ B0
P3Exit == cpc = "P3" /\ pcount = size /\ P3
FirstL0 == \E i \in fresh : L0(i) /\ fresh' = fresh \ {i} /\ UNCHANGED <<l, cur, dead, cbseen>>
SilentCaller == (R0 \/ R2 \/ RET \/ W0 \/ WlDone \/ T0 \/ T0sDone \/ T1 \/ T2i \/ T2Done \/ T2Skip \/ P0 \/ P2 \/ P3Exit
                 \/ B0Empty \/ B1 \/ S1 \/ S2i \/ S2Done \/ S2Join \/ Z0
                 \/ (cpc = "S0" /\ stopped /\ S0))
                /\ UNCHANGED <<l, cur, fresh, dead, cbseen>>

TraceInit == InitWith(<<>>, 1) /\ l = 1 /\ cur = <<0, 0, 0>> /\ fresh = {} /\ dead = FALSE /\ cbseen = {}
TraceNext == TReset \/ TNew \/ TInconclusive \/ TSkipDead \/ TNote \/ TOp \/ TRet \/ TCaller \/ TWorker
             \/ TCallback \/ TRan \/ SilentCaller \/ FirstL0
TraceSpec == TraceInit /\ [][TraceNext]_tvars

\* the model's own safety properties are evaluated in every state of every validated trace
TraceInv == NoDataRace /\ ExactlyOnce /\ TypeOK /\ MutexOK
Track == IF l > TLCGet(8) THEN TLCSet(8, l) ELSE TRUE
TraceAccepted ==
  IF TLCGet(8) = Len(Log) + 1 THEN TRUE
  ELSE PrintT(<<"REJECTED at line", TLCGet(8), "of", Len(Log)>>) /\ FALSE
=============================================================================
