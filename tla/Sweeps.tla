------------------------------- MODULE Sweeps -------------------------------
(* L2 models of the two sweeps of flow_graph_impl that consume a traversal   *)
(* order: accumulate (top-down: the bottom-up order read backwards, each     *)
(* node adding its weight-scaled value to its receivers) and compute_basins  *)
(* (bottom-up, labelling every node with the CURRENT basin counter), one     *)
(* action per loop iteration, as coded.                                      *)
(*                                                                           *)
(* The graph is chosen arbitrarily among ALL forests / DAGs with at most     *)
(* MaxRec receivers per node on N nodes; the order is NOT computed: it is    *)
(* any sequence that satisfies the L1 contract the sweep relies on, so the   *)
(* models show which contract is enough:                                     *)
(*   accumulate    - FlowContract!C06Dfs (receivers first) is enough:        *)
(*                   the terminal state satisfies AccBalance / AccConserves /*)
(*                   AccLocalBound (C03) for every partition of the flow;    *)
(*   compute_basins - C06Dfs is NOT enough (negative control): the code      *)
(*                   needs the order to list each outlet followed by its     *)
(*                   whole catchment (BasinContiguous), which is what        *)
(*                   compute_dfs_indices_bottomup delivers (checked on the   *)
(*                   Orders model: ContigOK) - then C19 holds.               *)
(* Values are exact integers: weights are multiples of 1/4 (logged as w8 =   *)
(* multiples of 2^-8), the source is scaled by 4^(N-1) = 2^K, so every       *)
(* product along a path of at most N-1 edges stays an integer.               *)
EXTENDS Util, FlowContract, SequencesExt

CONSTANTS N, MaxRec,
          Algo,       \* "accumulate" | "basins"
          Order,      \* "contract" (C06Dfs) | "contiguous" (C06Dfs + BasinContiguous) | "any" (a permutation)
          Variant,    \* "code" | "skip_nonpositive" (seeded change C03: nodes with acc <= 0 not propagated)
          Sources     \* values a source may take at a node

NodeSet == 0..(N - 1)
Terminal(rc, i) == rc[i] = <<i>>
RECURSIVE Desc(_, _, _)
Desc(rc, S, k) == IF k = 0 THEN S ELSE Desc(rc, S \cup UNION {RangeS(rc[i]) : i \in S}, k - 1)
Acyclic(rc) == \A i \in NodeSet : Terminal(rc, i) \/ i \notin Desc(rc, RangeS(rc[i]), N)
RecChoices(i) == {<<i>>} \cup {SortedSeq(S) : S \in {S \in SUBSET (NodeSet \ {i}) : S # {} /\ Cardinality(S) <= MaxRec}}
Graphs == {rc \in [NodeSet -> UNION {RecChoices(i) : i \in NodeSet}] :
             (\A i \in NodeSet : rc[i] \in RecChoices(i)) /\ Acyclic(rc)}
\* partitions of the flow of a node over k receivers, in units of 2^-8 (a zero share is possible:
\* the multiple-direction router produces them when a slope power underflows)
Shares(k) == CASE k = 1 -> {<<256>>}
               [] k = 2 -> {<<64, 192>>, <<128, 128>>, <<0, 256>>}
               [] OTHER -> {<<64, 64, 128>>, <<0, 192, 64>>}
WeightsOf(rc) == {wt \in [NodeSet -> UNION {Shares(k) : k \in 1..3}] : \A i \in NodeSet : wt[i] \in Shares(Len(rc[i]))}
Perms == {p \in [1..N -> NodeSet] : \A a, b \in 1..N : a # b => p[a] # p[b]}
Pos(p, i) == CHOOSE k \in 1..N : p[k] = i
ReceiversFirst(rc, p) == \A i \in NodeSet : \A j \in RangeS(rc[i]) \ {i} : Pos(p, j) < Pos(p, i)
RECURSIVE OutletOf(_, _, _)
OutletOf(rc, i, k) == IF k = 0 \/ Terminal(rc, i) THEN i ELSE OutletOf(rc, rc[i][1], k - 1)
\* each unmasked node is preceded, at the nearest unmasked outlet before it, by the outlet of its own catchment
BasinContiguous(rc, m, p) ==
  \A k \in 1..N : ~m[p[k]] =>
     LET os == {q \in 1..k : Terminal(rc, p[q]) /\ ~m[p[q]]}
     IN os # {} /\ p[SetMax(os)] = OutletOf(rc, p[k], N)
OrdersOf(rc, m) == CASE Order = "any" -> Perms
                     [] Order = "contract" -> {p \in Perms : ReceiversFirst(rc, p)}
                     [] OTHER -> {p \in Perms : ReceiversFirst(rc, p) /\ BasinContiguous(rc, m, p)}

VARIABLES rec, wgt, dfs, src, area, mask, bl,      \* the inputs (never change)
          pc, k, acc, lab, cur, outlets, pits
svars == <<rec, wgt, dfs, src, area, mask, bl, pc, k, acc, lab, cur, outlets, pits>>
inputs == <<rec, wgt, dfs, src, area, mask, bl>>

Scale == 4 ^ (N - 1)
Areas == [i \in NodeSet |-> 1 + (i % 3)]          \* variable cell areas 1, 2, 3, 1, ...

Init == /\ rec \in Graphs
        /\ wgt \in WeightsOf(rec)
        /\ IF Algo = "basins"
             THEN /\ mask \in {m \in [NodeSet -> BOOLEAN] : \A i \in NodeSet : m[i] => Terminal(rec, i)}
                  /\ bl \in SUBSET {i \in NodeSet : Terminal(rec, i)}
                  /\ src = [i \in NodeSet |-> 0]
             ELSE /\ mask = [i \in NodeSet |-> FALSE] /\ bl = {}
                  /\ src \in [NodeSet -> Sources]
        /\ dfs \in OrdersOf(rec, mask)
        /\ area = Areas
        /\ pc = "loop" /\ k = (IF Algo = "basins" THEN 1 ELSE N)
        /\ acc = [i \in NodeSet |-> 0] /\ lab = [i \in NodeSet |-> 0 - 2] /\ cur = 0 - 1
        /\ outlets = <<>> /\ pits = <<>>

\* ---------------- accumulate: for (inode_ptr = rbegin; ...): acc(i) += area * src; receivers += acc(i) * w
RECURSIVE Spread(_, _, _, _)
Spread(a, i, q, v) == IF q > Len(rec[i]) THEN a
                      ELSE LET r == rec[i][q] IN
                           Spread(IF r # i THEN [a EXCEPT ![r] = @ + (v * wgt[i][q]) \div 256] ELSE a, i, q + 1, v)
AccStep == /\ Algo = "accumulate" /\ pc = "loop" /\ k >= 1
           /\ LET i == dfs[k]
                  v == acc[i] + area[i] * src[i] * Scale
                  a1 == [acc EXCEPT ![i] = v]
              IN acc' = IF Variant = "skip_nonpositive" /\ v <= 0 THEN a1 ELSE Spread(a1, i, 1, v)
           /\ k' = k - 1 /\ pc' = (IF k = 1 THEN "done" ELSE "loop")
           /\ UNCHANGED <<inputs, lab, cur, outlets, pits>>

\* ---------------- compute_basins + pits()
BasinStep == /\ Algo = "basins" /\ pc = "loop" /\ k <= N
             /\ LET i == dfs[k] IN
                IF mask[i] THEN lab' = [lab EXCEPT ![i] = 0 - 1] /\ UNCHANGED <<cur, outlets>>
                ELSE LET c == IF rec[i][1] = i THEN cur + 1 ELSE cur IN
                     /\ cur' = c /\ lab' = [lab EXCEPT ![i] = c]
                     /\ outlets' = IF rec[i][1] = i THEN Append(outlets, i) ELSE outlets
             /\ k' = k + 1 /\ pc' = (IF k = N THEN "pits" ELSE "loop")
             /\ UNCHANGED <<inputs, acc, pits>>
PitsStep == /\ Algo = "basins" /\ pc = "pits"
            /\ pits' = SelectSeq(outlets, LAMBDA o : o \notin bl)
            /\ pc' = "done"
            /\ UNCHANGED <<inputs, k, acc, lab, cur, outlets>>

Next == AccStep \/ BasinStep \/ PitsStep
Spec == Init /\ [][Next]_svars /\ WF_svars(Next)

\* ---------------- L1 predicates on the terminal state (the predicates recorded traces are validated against)
SeqFrom0(f) == [q \in 1..N |-> f[q - 1]]
X == [n |-> N, nb |-> [j \in NodeSet |-> <<>>], mask |-> [q \in 1..N |-> IF mask[q - 1] THEN 1 ELSE 0], bl |-> bl]
R == [rec |-> SeqFrom0(rec), nrec |-> [q \in 1..N |-> Len(rec[q - 1])], w8 |-> SeqFrom0(wgt), width |-> MaxRec, dfs |-> dfs]
A == [ai |-> SeqFrom0(acc), area |-> SeqFrom0(area), src |-> SeqFrom0(src), K |-> 2 * (N - 1),
      ax |-> [q \in 1..N |-> 1], areax |-> [q \in 1..N |-> 1]]
B == [lab |-> SeqFrom0(lab), outlets |-> outlets, pits |-> pits]
RefinesC03 == (pc = "done" /\ Algo = "accumulate") =>
                 /\ AccExactDomain(X, R, A)
                 /\ AccBalance(X, R, A) /\ AccConserves(X, R, A) /\ AccLocalBound(X, A)
RefinesC19 == (pc = "done" /\ Algo = "basins") => C19(X, R, B)
Terminates == <>(pc = "done")
=============================================================================
