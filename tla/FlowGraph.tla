----------------------------- MODULE FlowGraph -----------------------------
(* L1 specification of the flow_graph object: one action per public call.   *)
(* The post-state of an update is nondeterministic but constrained by the   *)
(* contracts of FlowContract; the specification has NO hidden state (no     *)
(* scratch buffers, caches, hash-set orders), so the same inputs must give  *)
(* the same observation whatever happened before (memo: C09, C10, C16).     *)
(*                                                                          *)
(* Every action takes the observation r as a parameter: when model checking *)
(* r ranges over candidate observations, when validating a trace it is the  *)
(* logged record (FlowTrace).                                               *)
EXTENDS Grid, OperatorSeq, FlowContract

CONSTANTS Has(_),    \* Has(c): the contracts of property c are enforced
          Diag       \* TRUE: report failed conjuncts instead of disabling the action

VARIABLES grid,      \* [d, n, nb, st] or NoGrid
          graphs,    \* graph id -> [ops, mask, bl, zin, key, cur, snaps, akey]
          memo       \* key -> observation (functional by construction of the actions)

fvars == <<grid, graphs, memo>>

NoGrid == [t |-> "none"]
Empty == [z \in {} |-> 0]

\* named conjunct: in diagnosis mode a failure is printed and the trace goes on
Chk(name, line, val) == IF Diag THEN (IF val THEN TRUE ELSE PrintT(<<"FAILED", name, "line", line>>)) ELSE (val = TRUE)   \* (= TRUE: evaluated as a state-level expression, never expanded as an action)

FInit == grid = NoGrid /\ graphs = Empty /\ memo = Empty

Ctx(G) == [n |-> grid.n, nb |-> grid.nb, mask |-> G.mask, bl |-> G.bl]
\* a snapshot holds the state of the last update: mask and base levels as they were THEN (umask, ubl),
\* whatever set_mask / set_base_levels did to the graph since
CtxOf(G, snap) == IF snap = "" THEN Ctx(G) ELSE [n |-> grid.n, nb |-> grid.nb, mask |-> G.umask, bl |-> G.ubl]

SetGrid(d) ==
  /\ grid' = [t |-> "grid", d |-> d, n |-> Size(d), nb |-> NeighTable(d), st |-> StatusArray(d)]
  /\ graphs' = Empty
  /\ UNCHANGED memo

-----------------------------------------------------------------------------
\* operators without run-time-only attributes (thread counts) and without snapshots
CanonOp(op) == CASE op.k = "single" -> [k |-> "single"]
                 [] op.k = "multi" -> [k |-> "multi", p |-> op.p]
                 [] op.k = "pflood" -> [k |-> "pflood"]
                 [] op.k = "mst" -> [k |-> "mst", m |-> op.m, r |-> op.r]
                 [] op.k = "inject" -> [k |-> "inject", d |-> op.d, rec |-> op.rec, w8 |-> op.w8, sd |-> op.sd]
                 [] OTHER -> [k |-> "snap"]
Canon(ops) == SelectSeq([i \in DOMAIN ops |-> CanonOp(ops[i])], LAMBDA o : o.k # "snap")
Parallel(ops) == \E i \in DOMAIN ops : ops[i].k = "single" /\ "thr" \in DOMAIN ops[i] /\ ops[i].thr > 1

\* o: [threw, sf, width, names, gkeys, ekeys, bl]
NewGraph(g, ops, o, line) ==
  /\ grid # NoGrid
  /\ Has("C20") => Chk("C20.ConstructibleIffValid", line, (o.threw = "") = Valid(ops))
  /\ IF o.threw # "" THEN UNCHANGED graphs
     ELSE /\ Has("C20") => /\ Chk("C20.SingleFlowFlag", line, (o.sf = 1) = (FinalDir(ops) = "single"))
                           /\ Chk("C20.ReceiverWidth", line, (o.width = 1) = AllSingle(ops))
                           /\ Chk("C20.OperatorNames", line, o.names = [i \in DOMAIN ops |-> OpName(ops[i])])
                           /\ Chk("C20.SnapshotKeys", line, o.gkeys = GraphKeys(ops) /\ o.ekeys = ElevKeys(ops))
          /\ Has("C17") => Chk("C17.DefaultBaseLevels", line, RangeS(o.bl) = DefaultBaseLevels(grid.d))
          /\ graphs' = (g :> [ops |-> ops, mask |-> [i \in 1..grid.n |-> 0], bl |-> RangeS(o.bl),
                              umask |-> [i \in 1..grid.n |-> 0], ubl |-> RangeS(o.bl),
                              zin |-> <<>>, key |-> <<>>, cur |-> <<>>, snaps |-> Empty]) @@ graphs
  /\ UNCHANGED <<grid, memo>>

DropGraph(g) ==
  /\ g \in DOMAIN graphs
  /\ graphs' = [h \in DOMAIN graphs \ {g} |-> graphs[h]]
  /\ UNCHANGED <<grid, memo>>

SetMask(g, m, back, line) ==
  /\ g \in DOMAIN graphs
  /\ Chk("MaskReadBack", line, back = m)
  /\ graphs' = [graphs EXCEPT ![g].mask = m]
  /\ UNCHANGED <<grid, memo>>

SetBaseLevels(g, bl, back, line) ==
  /\ g \in DOMAIN graphs
  /\ Chk("BaseLevelsReadBack", line, back = SortedSeq(RangeS(bl)))
  /\ graphs' = [graphs EXCEPT ![g].bl = RangeS(bl)]
  /\ UNCHANGED <<grid, memo>>

SetParam(g, i, e) ==
  /\ g \in DOMAIN graphs
  /\ graphs' = [graphs EXCEPT ![g].ops[i + 1] =
                   IF @.k = "multi" THEN [@ EXCEPT !.p = e.p]
                   ELSE [@ EXCEPT !.r = IF "r" \in DOMAIN e THEN e.r ELSE @,
                                  !.m = IF "m" \in DOMAIN e THEN e.m ELSE @]]
  /\ UNCHANGED <<grid, memo>>

-----------------------------------------------------------------------------
\* donors with the (meaningless) self entries removed, as a bag per node
CanonDonors(r) == [i \in DOMAIN r.don |-> BagOfSeq(SelectSeq(r.don[i], LAMBDA j : j # i - 1))]
CoreObs(r) == [zout |-> r.zout, same |-> r.same, nrec |-> r.nrec, rec |-> r.rec, rd |-> r.rd,
               rw |-> r.rw, wc |-> r.wc, dfs |-> r.dfs, bfs |-> r.bfs, lev |-> r.lev,
               cdon |-> CanonDonors(r)]
FullObs(r, par) == [core |-> CoreObs(r), par |-> par, ndon |-> r.ndon, don |-> r.don]
\* two observations of the same inputs: identical, except that the raw donor tables are only
\* compared between runs of the same kind (sequential / multi-threaded)
SameObs(a, b) == a.core = b.core /\ (a.par = b.par => a = b)

\* the elevation the last router worked on: <<known, ranks, exact>>
RouterElev(ops, r) ==
  LET last == LastGraphOp(ops)
      after == {j \in (last + 1)..Len(ops) : ElevUpdated(ops[j])}
      before == {j \in 1..(last - 1) : ElevUpdated(ops[j])}
      ex == before = {} /\ r.zk = "int" /\ r.ze >= 0 - 900
  IN IF after = {} THEN <<TRUE, r.zout, ex>>
     ELSE IF before = {} THEN <<TRUE, r.zin, ex>>
     ELSE <<FALSE, r.zin, FALSE>>

UpdateContractsWF(g, r, line) ==
  LET G == graphs[g]
      x == Ctx(G)
      ops == G.ops
      last == ops[LastGraphOp(ops)]
      re == RouterElev(ops, r)
  IN /\ Has("C09") => Chk("C09.ArgumentUntouched", line, r.argsame = 1)
     /\ Has("C20") => Chk("C20.ReturnsOwnArrayIffNoElevOp", line, (r.retarg = 1) = ~AnyElevUpdated(ops))
     /\ Has("C06") => /\ Chk("C06.Donors", line, C06Donors(x, r))
                      /\ Chk("C06.Dfs", line, C06Dfs(x, r))
                      /\ Chk("C06.Bfs", line, C06Bfs(x, r))
     \* a user-defined router that installs a given table: the state is that table (harness self-check)
     /\ (last.k = "inject") => Chk("MACHINERY.InstalledTableIsObserved", line,
                                    r.rec = last.rec /\ r.nrec = [q \in DOMAIN last.rec |-> Len(last.rec[q])]
                                    /\ \A q \in DOMAIN last.rec : Len(last.rec[q]) > 1 => r.w8[q] = last.w8[q])
     /\ (Has("C01") /\ Resolved(ops)) =>
                      /\ Chk("C01.Terminals", line, C01Terminals(x, r))
                      /\ Chk("C01.Descent", line, C01Descent(x, r))
                      /\ Chk("C01.Reaches", line, C01Reaches(x, r))
     /\ Has("C02") => IF AnyElevUpdated(ops)
                        THEN /\ Chk("C02.NotBelow", line, C02NotBelow(x, r))
                             /\ Chk("C02.Fixed", line, C02Fixed(x, r))
                             /\ Chk("MACHINERY.SpillCertificateAgrees", line, SpillCertAgrees(x, r))
                             /\ Chk("C02.Level", line, C02Level(x, r))
                        ELSE Chk("C02.Untouched", line, ElevUntouched(x, r))
     /\ (Has("C04") /\ last.k = "single" /\ re[1]) => Chk("C04.SteepestDescent", line, C04(x, r, re[2], re[3]))
     /\ (Has("C05") /\ last.k = "multi" /\ re[1]) =>
            /\ Chk("C05.Terminals", line, C05Terminals(x, r, re[2]))
            /\ Chk("C05.Receivers", line, C05Receivers(x, r, re[2]))
            /\ Chk("C05.WeightsFinite", line, C05Finite(x, r, re[2]))
            /\ Chk("C05.WeightsSumToOne", line, C05SumToOne(x, r, re[2]))
            /\ re[3] => Chk("C05.WeightsProportional", line, C05Proportional(x, r, re[2], last.p))

UpdateContracts(g, r, line) ==
  LET G == graphs[g]
      x == Ctx(G)
      ops == G.ops
      last == ops[LastGraphOp(ops)]
      re == RouterElev(ops, r)
      wf == WellFormedGraph(x, r) /\ WellFormedElev(x, r)
  IN /\ Chk("TypeOK.TablesInBounds", line, wf)
     /\ wf => UpdateContractsWF(g, r, line)

KeyOf(ops, zin, mask, bl) == [ops |-> Canon(ops), zin |-> zin, mask |-> mask, bl |-> bl]

UpdateRoutes(g, r, line) ==
  /\ g \in DOMAIN graphs
  /\ LET G == graphs[g]
         key == KeyOf(G.ops, r.zin, G.mask, G.bl)
         obs == FullObs(r, Parallel(G.ops))
     IN /\ UpdateContracts(g, r, line)
        /\ (Has("C09") \/ Has("C10")) =>
              (key \in DOMAIN memo => Chk("C09.SameInputsSameState", line, SameObs(memo[key], obs)))
        /\ memo' = IF key \in DOMAIN memo THEN memo ELSE (key :> obs) @@ memo
        /\ graphs' = [graphs EXCEPT ![g].zin = r.zin, ![g].key = key, ![g].cur = r, ![g].snaps = Empty,
                                    ![g].umask = G.mask, ![g].ubl = G.bl]
  /\ UNCHANGED grid

-----------------------------------------------------------------------------
\* the state an accumulate / basins call works on: the graph itself or one of its snapshots
StateOf(G, snap) == IF snap = "" THEN G.cur ELSE G.snaps[snap]
HasState(G, snap) == IF snap = "" THEN G.cur # <<>> ELSE snap \in DOMAIN G.snaps
\* a name used by several snapshot operators denotes ONE snapshot, written by each of them in turn:
\* what it holds after an update is what the last of them saved
SnapPos(ops, nm, graph) == SetMax({i \in DOMAIN ops : ops[i].k = "snap" /\ ops[i].name = nm
                                                      /\ (IF graph THEN ops[i].sg = 1 ELSE ops[i].se = 1)})
PrefixOps(ops, i) == LET p == SubSeq(ops, 1, i - 1) IN
                     IF \E j \in DOMAIN p : GraphUpdated(p[j]) THEN p ELSE Append(p, [k |-> "single"])
\* results computed on a snapshot are those of the prefix graph (C16): same memo entry
ResultKeyGraph(G, snap) == IF snap = "" THEN G.key
                           ELSE KeyOf(PrefixOps(G.ops, SnapPos(G.ops, snap, TRUE)), G.zin, G.umask, G.ubl)
MemoOn(snap) == Has("C09") \/ Has("C10") \/ (Has("C16") /\ snap # "")

Accumulate(g, a, line) ==
  /\ g \in DOMAIN graphs /\ HasState(graphs[g], a.snap)
  /\ LET G == graphs[g]
         x == CtxOf(G, a.snap)
         r == StateOf(G, a.snap)
         key == [k |-> "acc", g |-> ResultKeyGraph(G, a.snap), src |-> <<a.src, IF "E" \in DOMAIN a THEN a.E ELSE 0>>]
     IN /\ Has("C03") => /\ Chk("C03.OverloadsAgree", line, AccOverloadsAgree(a))
                         /\ AccExactDomain(x, r, a) =>
                               /\ Chk("C03.Balance", line, AccBalance(x, r, a))
                               /\ Chk("C03.Conserves", line, AccConserves(x, r, a))
                               /\ Chk("C03.LocalBound", line, AccLocalBound(x, a))
                         /\ AccApproxDomain(x, r, a) => Chk("C03.ApproxBalance", line, AccApproxBalance(x, r, a))
                         /\ ("E" \notin DOMAIN a) => Chk("C03.Indicator", line, AccIndicator(x, r, a))
                         \* single direction, integer data in other units (power-of-two factors): the sweep is exact
                         /\ ("E" \in DOMAIN a /\ r.width = 1) => Chk("C03.ExactInOtherUnits", line, AccExactDomain(x, r, a))
                         \* a finite source in other units: the values are finite (class 0 at every node)
                         /\ ("fin" \in DOMAIN a) => Chk("C03.Finite", line, \A q \in DOMAIN a.fin : a.fin[q] = 1)
        /\ MemoOn(a.snap) =>
              (key \in DOMAIN memo => Chk("C09.SameAccumulation", line, memo[key] = a.racc[1]))
        /\ memo' = IF key \in DOMAIN memo THEN memo ELSE (key :> a.racc[1]) @@ memo
  /\ UNCHANGED <<grid, graphs>>

Basins(g, b, line) ==
  /\ g \in DOMAIN graphs /\ HasState(graphs[g], b.snap)
  /\ LET G == graphs[g]
         x == CtxOf(G, b.snap)
         r == StateOf(G, b.snap)
         key == [k |-> "basins", g |-> ResultKeyGraph(G, b.snap)]
     IN /\ (Has("C19") /\ r.width = 1) => Chk("C19.Labels", line, C19(x, r, b))
        /\ MemoOn(b.snap) =>
              (key \in DOMAIN memo => Chk("C09.SameBasins", line, memo[key] = b.lab))
        /\ memo' = IF key \in DOMAIN memo THEN memo ELSE (key :> b.lab) @@ memo
  /\ UNCHANGED <<grid, graphs>>

-----------------------------------------------------------------------------
(* Snapshots (C16).  A graph snapshot named nm taken by operator number i    *)
(* must expose the state of a graph made of operators 1..i-1 on the same     *)
(* input, mask and base levels: that state is looked up in memo, so the      *)
(* history must contain an update of such a prefix graph (the harness makes  *)
(* one; a missing entry is reported as a machinery error, not a violation).  *)
SnapGraph(g, nm, s, line) ==
  /\ g \in DOMAIN graphs /\ graphs[g].cur # <<>>
  /\ LET G == graphs[g]
         x == CtxOf(G, nm)
         i == SnapPos(G.ops, nm, TRUE)
         pkey == KeyOf(PrefixOps(G.ops, i), G.zin, G.umask, G.ubl)
     IN /\ Has("C16") =>
            /\ Chk("MACHINERY.PrefixGraphInHistory", line, pkey \in DOMAIN memo)
            /\ Chk("TypeOK.TablesInBounds", line, WellFormedGraph(x, s))
            /\ (pkey \in DOMAIN memo /\ WellFormedGraph(x, s)) =>
                 LET m == memo[pkey].core IN
                 /\ Chk("C16.Receivers", line, s.nrec = m.nrec /\ s.rec = m.rec)
                 /\ Chk("C16.DistancesWeights", line, s.rd = m.rd /\ s.rw = m.rw /\ s.wc = m.wc)
                 /\ Chk("C16.Donors", line, CanonDonors(s) = m.cdon)
                 /\ Chk("C16.OwnDfsValid", line, C06Dfs(x, s))
                 /\ Chk("C16.OwnBfsValid", line, C06Bfs(x, s))
                 /\ Chk("C16.OwnDonorsValid", line, C06Donors(x, s))
        \* a snapshot is a flow graph: its own tables are mutually consistent (C06), whatever it should hold
        /\ (Has("C06") /\ ~Has("C16")) =>
            /\ Chk("TypeOK.TablesInBounds", line, WellFormedGraph(x, s))
            /\ WellFormedGraph(x, s) =>
                 /\ Chk("C06.Snapshot.Dfs", line, C06Dfs(x, s))
                 /\ Chk("C06.Snapshot.Bfs", line, C06Bfs(x, s))
                 /\ Chk("C06.Snapshot.Donors", line, C06Donors(x, s))
        /\ graphs' = [graphs EXCEPT ![g].snaps = (nm :> s) @@ @]
  /\ UNCHANGED <<grid, memo>>

SnapElev(g, nm, z, line) ==
  /\ g \in DOMAIN graphs /\ graphs[g].cur # <<>>
  /\ LET G == graphs[g]
         i == SnapPos(G.ops, nm, FALSE)
         before == \E j \in 1..(i - 1) : ElevUpdated(G.ops[j])
         after == \E j \in (i + 1)..Len(G.ops) : ElevUpdated(G.ops[j])
         pkey == KeyOf(PrefixOps(G.ops, i), G.zin, G.umask, G.ubl)
     IN Has("C16") =>
          IF ~before THEN Chk("C16.ElevationIsInput", line, z = G.zin)
          ELSE IF ~after THEN Chk("C16.ElevationIsFinal", line, z = G.cur.zout)
          ELSE /\ Chk("MACHINERY.PrefixGraphInHistory", line, pkey \in DOMAIN memo)
               /\ pkey \in DOMAIN memo => Chk("C16.ElevationIsPrefixResult", line, z = memo[pkey].core.zout)
  /\ UNCHANGED fvars

KernelApply(g, k, line) ==
  /\ g \in DOMAIN graphs /\ HasState(graphs[g], k.snap)
  /\ LET G == graphs[g]
         x == CtxOf(G, k.snap)
         r == StateOf(G, k.snap)
         key == [k |-> "kernel", g |-> ResultKeyGraph(G, k.snap), dir |-> k.dir, init |-> k.init]
         refused == k.thr > 1 /\ k.dir = "depth"
     IN /\ (Has("C10") \/ (Has("C16") /\ k.snap # "")) =>
             /\ Chk("C10.Kernel.UnsupportedOrderRefused", line, (k.threw # "") = refused)
             /\ ~refused =>
                  /\ Chk("C10.Kernel.ExactlyOnce", line, KernelExactlyOnce(x, k))
                  /\ (k.dir # "any") => Chk("C10.Kernel.ReceiversFirst", line, KernelReceiversFirst(x, r, k))
                  /\ Chk("C10.Kernel.Output", line, KernelOutput(x, r, k))
                  /\ (key \in DOMAIN memo) => Chk("C10.Kernel.SameAsOtherRuns", line, memo[key] = k.out)
        /\ memo' = IF key \in DOMAIN memo \/ k.threw # "" THEN memo ELSE (key :> k.out) @@ memo
  /\ UNCHANGED <<grid, graphs>>

Spl(g, e, line) ==
  /\ g \in DOMAIN graphs /\ graphs[g].cur # <<>>
  /\ LET G == graphs[g]
         x == Ctx(G)
         r == G.cur
     IN /\ Has("C12") => Chk("C12.NonlinearOnMultiRefused", line,
                               (e.threw # "") = (e.nlin = 0 /\ FinalDir(G.ops) # "single"))
        \* a history of requests on one eroder: each one refused exactly when it asks for n # 1 on a
        \* multiple-direction graph, whatever was requested (and refused) before
        /\ (Has("C12") /\ "probe" \in DOMAIN e) =>
             Chk("C12.NonlinearOnMultiRefusedEveryTime", line,
                 \A k \in DOMAIN e.probe : e.probe[k][1] \in {0, 1}
                      /\ (e.probe[k][2] = 1) = (e.probe[k][1] = 0 /\ FinalDir(G.ops) # "single"))
        /\ (e.threw = "" /\ Has("C12")) =>
             /\ Chk("C12.Finite", line, SplFinite(x, e))
             /\ Chk("C12.TerminalsZero", line, SplTerminalsZero(x, r, e))
             /\ Chk("C12.LakesZero", line, SplLakesZero(x, r, e))
             /\ Chk("C12.NonNegative", line, SplNonNegative(x, r, e))
             /\ Chk("C12.NoReversal", line, SplNoReversal(x, r, e))
        /\ (e.threw = "" /\ Has("C13") /\ "expect" \in DOMAIN e) =>
             /\ Chk("MACHINERY.GeneratedCaseIsExactSolution", line, SplExactSolution(x, r, e))
             /\ Chk("C13.LimitedNodesIdentified", line, SplLimitedCount(x, e))
             /\ Chk("C13.SolvesImplicitEquation", line, SplEncloses(x, r, e))
             /\ Chk("C13.ResidualWithinTolerance", line, SplResidualSharp(x, r, e))
             /\ ("dn40" \in DOMAIN e) => /\ Chk("C13.NearOneAccepted", line, e.nthrew = "")
                                         /\ (e.nthrew = "") => Chk("C13.ExponentNearOneIsNotOne", line, SplNearOneIsNotOne(x, r, e))
  /\ UNCHANGED fvars

BasinGraphObs(g, b, line) ==
  /\ g \in DOMAIN graphs /\ graphs[g].cur # <<>>
  /\ LET G == graphs[g]
         x == Ctx(G)
         key == [k |-> "bgraph", g |-> G.key]
     IN /\ Has("C15") => Chk("TypeOK.BasinGraphInBounds", line, BgWellFormed(x, b))
        /\ (Has("C15") /\ BgWellFormed(x, b)) =>
             /\ Chk("C15.BasinsAndOutlets", line, BgLabelsOK(x, b))
             /\ Chk("C15.EdgesAreLowestPasses", line, BgEdgesOK(x, b))
             /\ Chk("C15.VirtualRootEdges", line, BgVirtualOK(x, b))
             /\ Chk("C15.TreeSpans", line, BgTreeOK(x, b))
             /\ Chk("C15.TreeIsMinimal", line, BgMinimal(x, b))
             /\ Chk("C15.TreeOriented", line, BgOriented(x, b))
             /\ (key \in DOMAIN memo) => Chk("C15.SameWeightAsOtherMethod", line, memo[key] = BgSortedWeights(b))
        /\ memo' = IF key \in DOMAIN memo \/ ~BgWellFormed(x, b) THEN memo ELSE (key :> BgSortedWeights(b)) @@ memo
  /\ UNCHANGED <<grid, graphs>>

SnapMutate(g, nm, threw, line) ==
  /\ g \in DOMAIN graphs
  /\ Has("C16") => Chk("C16.MutationRefused", line, threw # "")
  /\ UNCHANGED fvars
=============================================================================
