CONSTANTS
  D <- Rook23
  Levels = {0, 1, 2}
  Masks <- M23
  BLSets <- B23
  Method = "carve"
SPECIFICATION Spec
INVARIANTS RefinesC01 RefinesC02 Forest TreeMinimal
PROPERTY Terminates
CHECK_DEADLOCK FALSE
