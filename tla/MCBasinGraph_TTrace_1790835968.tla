---- MODULE MCBasinGraph_TTrace_1790835968 ----
EXTENDS Sequences, TLCExt, MCBasinGraph, Toolbox, Naturals, TLC

_expression ==
    LET MCBasinGraph_TEExpression == INSTANCE MCBasinGraph_TEExpression
    IN MCBasinGraph_TEExpression!expression
----

_trace ==
    LET MCBasinGraph_TETrace == INSTANCE MCBasinGraph_TETrace
    IN MCBasinGraph_TETrace!trace
----

_inv ==
    ~(
        TLCGet("level") = Len(_TETrace)
        /\
        todo = (<<>>)
        /\
        rec = ((0 :> 0 @@ 1 :> 1 @@ 2 :> 2 @@ 3 :> 3 @@ 4 :> 4 @@ 5 :> 5))
        /\
        parent = (<<>>)
        /\
        pc = ("connect")
        /\
        root = (-1)
        /\
        edges = ({})
        /\
        tree = ({})
        /\
        bl = ({0})
        /\
        z = ((0 :> 0 @@ 1 :> 0 @@ 2 :> 0 @@ 3 :> 0 @@ 4 :> 0 @@ 5 :> 0))
        /\
        zin = ((0 :> 0 @@ 1 :> 0 @@ 2 :> 0 @@ 3 :> 0 @@ 4 :> 0 @@ 5 :> 0))
        /\
        cons = ({})
        /\
        mask = ({})
    )
----

_init ==
    /\ rec = _TETrace[1].rec
    /\ bl = _TETrace[1].bl
    /\ z = _TETrace[1].z
    /\ zin = _TETrace[1].zin
    /\ parent = _TETrace[1].parent
    /\ edges = _TETrace[1].edges
    /\ root = _TETrace[1].root
    /\ tree = _TETrace[1].tree
    /\ pc = _TETrace[1].pc
    /\ todo = _TETrace[1].todo
    /\ cons = _TETrace[1].cons
    /\ mask = _TETrace[1].mask
----

_next ==
    /\ \E i,j \in DOMAIN _TETrace:
        /\ \/ /\ j = i + 1
              /\ i = TLCGet("level")
        /\ rec  = _TETrace[i].rec
        /\ rec' = _TETrace[j].rec
        /\ bl  = _TETrace[i].bl
        /\ bl' = _TETrace[j].bl
        /\ z  = _TETrace[i].z
        /\ z' = _TETrace[j].z
        /\ zin  = _TETrace[i].zin
        /\ zin' = _TETrace[j].zin
        /\ parent  = _TETrace[i].parent
        /\ parent' = _TETrace[j].parent
        /\ edges  = _TETrace[i].edges
        /\ edges' = _TETrace[j].edges
        /\ root  = _TETrace[i].root
        /\ root' = _TETrace[j].root
        /\ tree  = _TETrace[i].tree
        /\ tree' = _TETrace[j].tree
        /\ pc  = _TETrace[i].pc
        /\ pc' = _TETrace[j].pc
        /\ todo  = _TETrace[i].todo
        /\ todo' = _TETrace[j].todo
        /\ cons  = _TETrace[i].cons
        /\ cons' = _TETrace[j].cons
        /\ mask  = _TETrace[i].mask
        /\ mask' = _TETrace[j].mask

\* Uncomment the ASSUME below to write the states of the error trace
\* to the given file in Json format. Note that you can pass any tuple
\* to `JsonSerialize`. For example, a sub-sequence of _TETrace.
    \* ASSUME
    \*     LET J == INSTANCE Json
    \*         IN J!JsonSerialize("MCBasinGraph_TTrace_1790835968.json", _TETrace)

=============================================================================

 Note that you can extract this module `MCBasinGraph_TEExpression`
  to a dedicated file to reuse `expression` (the module in the 
  dedicated `MCBasinGraph_TEExpression.tla` file takes precedence 
  over the module `MCBasinGraph_TEExpression` below).

---- MODULE MCBasinGraph_TEExpression ----
EXTENDS Sequences, TLCExt, MCBasinGraph, Toolbox, Naturals, TLC

expression == 
    [
        \* To hide variables of the `MCBasinGraph` spec from the error trace,
        \* remove the variables below.  The trace will be written in the order
        \* of the fields of this record.
        rec |-> rec
        ,bl |-> bl
        ,z |-> z
        ,zin |-> zin
        ,parent |-> parent
        ,edges |-> edges
        ,root |-> root
        ,tree |-> tree
        ,pc |-> pc
        ,todo |-> todo
        ,cons |-> cons
        ,mask |-> mask
        
        \* Put additional constant-, state-, and action-level expressions here:
        \* ,_stateNumber |-> _TEPosition
        \* ,_recUnchanged |-> rec = rec'
        
        \* Format the `rec` variable as Json value.
        \* ,_recJson |->
        \*     LET J == INSTANCE Json
        \*     IN J!ToJson(rec)
        
        \* Lastly, you may build expressions over arbitrary sets of states by
        \* leveraging the _TETrace operator.  For example, this is how to
        \* count the number of times a spec variable changed up to the current
        \* state in the trace.
        \* ,_recModCount |->
        \*     LET F[s \in DOMAIN _TETrace] ==
        \*         IF s = 1 THEN 0
        \*         ELSE IF _TETrace[s].rec # _TETrace[s-1].rec
        \*             THEN 1 + F[s-1] ELSE F[s-1]
        \*     IN F[_TEPosition - 1]
    ]

=============================================================================



Parsing and semantic processing can take forever if the trace below is long.
 In this case, it is advised to uncomment the module below to deserialize the
 trace from a generated binary file.

\*
\*---- MODULE MCBasinGraph_TETrace ----
\*EXTENDS IOUtils, MCBasinGraph, TLC
\*
\*trace == IODeserialize("MCBasinGraph_TTrace_1790835968.bin", TRUE)
\*
\*=============================================================================
\*

---- MODULE MCBasinGraph_TETrace ----
EXTENDS MCBasinGraph, TLC

trace == 
    <<
    ([todo |-> <<>>,rec |-> (0 :> 0 @@ 1 :> 1 @@ 2 :> 2 @@ 3 :> 3 @@ 4 :> 4 @@ 5 :> 5),parent |-> <<>>,pc |-> "route",root |-> -1,edges |-> {},tree |-> {},bl |-> {0},z |-> (0 :> 0 @@ 1 :> 0 @@ 2 :> 0 @@ 3 :> 0 @@ 4 :> 0 @@ 5 :> 0),zin |-> (0 :> 0 @@ 1 :> 0 @@ 2 :> 0 @@ 3 :> 0 @@ 4 :> 0 @@ 5 :> 0),cons |-> {},mask |-> {}]),
    ([todo |-> <<>>,rec |-> (0 :> 0 @@ 1 :> 1 @@ 2 :> 2 @@ 3 :> 3 @@ 4 :> 4 @@ 5 :> 5),parent |-> <<>>,pc |-> "connect",root |-> -1,edges |-> {},tree |-> {},bl |-> {0},z |-> (0 :> 0 @@ 1 :> 0 @@ 2 :> 0 @@ 3 :> 0 @@ 4 :> 0 @@ 5 :> 0),zin |-> (0 :> 0 @@ 1 :> 0 @@ 2 :> 0 @@ 3 :> 0 @@ 4 :> 0 @@ 5 :> 0),cons |-> {},mask |-> {}])
    >>
----


=============================================================================

---- CONFIG MCBasinGraph_TTrace_1790835968 ----
CONSTANTS
    D <- Profile6
    Levels = { 0 , 1 , 2 }
    Masks <- MP6
    BLSets <- BP6
    Method = "basic"

INVARIANT
    _inv

CHECK_DEADLOCK
    \* CHECK_DEADLOCK off because of PROPERTY or INVARIANT above.
    FALSE

INIT
    _init

NEXT
    _next

CONSTANT
    _TETrace <- _trace

ALIAS
    _expression
=============================================================================
\* Generated on Thu Oct 01 06:26:58 UTC 2026