CONSTANTS
  D <- Profile5
  Levels = {0, 1, 2, 3}
  BLSets <- BLP5
  Masks <- MNone
  TotalOrder = FALSE
SPECIFICATION PSpec
INVARIANTS RefinesC02 Drains QueuesOK
CHECK_DEADLOCK FALSE
