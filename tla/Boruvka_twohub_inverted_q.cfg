CONSTANTS
  NNodes = 8
  EdgeEnds <- TwoHubEdges
  Levels <- L12
  MaxLow = 2
  Variant = "inverted"
SPECIFICATION Spec
INVARIANT TypeOK
INVARIANT Acyclic
INVARIANT NothingForgotten
INVARIANT Result
PROPERTY Termination
CHECK_DEADLOCK FALSE
