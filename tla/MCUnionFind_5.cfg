CONSTANTS
  MaxN = 5
  UsePush = TRUE
  Emit = FALSE
SPECIFICATION MCSpec
VIEW View
INVARIANT TypeOK
INVARIANT Acyclic
INVARIANT RefinesPartition
INVARIANT ClassesArePartition
INVARIANT HeightBound
CHECK_DEADLOCK FALSE
