CONSTANTS
  NNodes = 4
  EdgeEnds <- K4Edges
  Levels <- L12
  MaxLow = 2
  Variant = "code"
SPECIFICATION Spec
INVARIANT Result
CHECK_DEADLOCK FALSE
