------------------------------- MODULE Blocks -------------------------------
(* thread_pool<T>::blocks: how run_blocks cuts [first, last) into at most n *)
(* contiguous blocks of at least min indices (utils/impl/thread_pool_inl).  *)
(* L2: transcription of the arithmetic.  L1 (C11): the blocks are disjoint, *)
(* contiguous, non-empty, cover the range, and are never more than n.       *)
EXTENDS Util

\* L2 - the constructor, step by step (integer division as in C++)
NumBlocksRaw(total, n, min) ==
  LET nb1 == IF n > total THEN total ELSE n
      nb2 == IF min > 0 /\ (total \div nb1) < min THEN Max2(1, total \div min) ELSE nb1
  IN nb2
BlockDesc(first, last, n, min) ==
  IF last > first /\ n > 0
    THEN LET total == last - first
             nb == NumBlocksRaw(total, n, min)
             bs == total \div nb
             rem == total % nb
         IN IF bs = 0 THEN [nb |-> IF total > 1 THEN total ELSE 1, bs |-> 1, rem |-> rem, first |-> first, last |-> last]
            ELSE [nb |-> nb, bs |-> bs, rem |-> rem, first |-> first, last |-> last]
    ELSE [nb |-> 0, bs |-> 0, rem |-> 0, first |-> first, last |-> last]
NumBlocks(first, last, n, min) == BlockDesc(first, last, n, min).nb
BStart(b, k) == b.first + k * b.bs + (IF k < b.rem THEN k ELSE b.rem)
BEnd(b, k) == IF k = b.nb - 1 THEN b.last ELSE BStart(b, k + 1)

\* L1 - what callers rely on
PartitionOK(first, last, n, min) ==
  LET b == BlockDesc(first, last, n, min) IN
  IF last <= first THEN b.nb = 0
  ELSE /\ b.nb >= 1 /\ b.nb <= n
       /\ BStart(b, 0) = first /\ BEnd(b, b.nb - 1) = last
       /\ \A k \in 0..(b.nb - 1) : BStart(b, k) < BEnd(b, k)
       /\ \A k \in 0..(b.nb - 2) : BEnd(b, k) = BStart(b, k + 1)
       /\ (min > 0 /\ last - first >= min) => \A k \in 0..(b.nb - 1) : BEnd(b, k) - BStart(b, k) >= min
=============================================================================
