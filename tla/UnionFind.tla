----------------------------- MODULE UnionFind -----------------------------
(* detail::union_find<T> (utils/union_find.hpp), the structure Kruskal's     *)
(* tree construction of the basin graph (flow/basin_graph.hpp) relies on.    *)
(* L1: a partition of 0..n-1; find returns a representative that is the same *)
(*     for all members of a class between two merges.                        *)
(* L2: the parent / rank forest as coded: union by rank, two-pass path       *)
(*     compression in find, resize() that re-initialises EVERY parent (the   *)
(*     documentation says it only adds classes - a deliberate deviation of   *)
(*     the code, modelled as it is) and keeps stale ranks, push_back(c).     *)
(* Elements are 0-based; parent and rank are sequences, element x at x + 1.  *)
EXTENDS Naturals, Sequences, FiniteSets

VARIABLES parent, rank,   \* L2 state
          cls,            \* L1 ghost: cls[x + 1] = set of members of x's class
          pushed          \* ghost: push_back onto a non-root happened (height bound no longer meaningful)

ufvars == <<parent, rank, cls, pushed>>
N == Len(parent)
Elems == 0..(N - 1)
P(p, x) == p[x + 1]

RECURSIVE RootOf(_, _)
RootOf(p, x) == IF P(p, x) = x THEN x ELSE RootOf(p, P(p, x))
RECURSIVE PathOf(_, _)
PathOf(p, x) == IF P(p, x) = x THEN {} ELSE {x} \cup PathOf(p, P(p, x))   \* nodes rewritten by find(x)
RECURSIVE DepthOf(_, _)
DepthOf(p, x) == IF P(p, x) = x THEN 0 ELSE 1 + DepthOf(p, P(p, x))

\* find(x): first loop finds the root, second loop points every node of the path at it
Compress(p, x) == LET r == RootOf(p, x) IN [i \in 1..Len(p) |-> IF (i - 1) \in PathOf(p, x) THEN r ELSE p[i]]

Iota(n) == [i \in 1..n |-> i - 1]
Zeros(n) == [i \in 1..n |-> 0]
Singles(n) == [i \in 1..n |-> {i - 1}]

UFInit(n) == /\ parent = Iota(n) /\ rank = Zeros(n) /\ cls = Singles(n) /\ pushed = FALSE

Find(x) ==
  /\ x \in Elems
  /\ parent' = Compress(parent, x)
  /\ UNCHANGED <<rank, cls, pushed>>

Merge(x, y) ==
  /\ x \in Elems /\ y \in Elems
  /\ LET p1 == Compress(parent, x)
         rx == RootOf(parent, x)
         p2 == Compress(p1, y)
         ry == RootOf(p1, y)
     IN IF rx = ry
          THEN parent' = p2 /\ rank' = rank
          ELSE IF rank[rx + 1] < rank[ry + 1]
                 THEN parent' = [p2 EXCEPT ![rx + 1] = ry] /\ rank' = rank
                 ELSE /\ parent' = [p2 EXCEPT ![ry + 1] = rx]
                      /\ rank' = IF rank[rx + 1] = rank[ry + 1] THEN [rank EXCEPT ![rx + 1] = @ + 1] ELSE rank
  /\ cls' = LET u == cls[x + 1] \cup cls[y + 1] IN [i \in 1..N |-> IF (i - 1) \in u THEN u ELSE cls[i]]
  /\ UNCHANGED pushed

\* clear(): size kept, everything re-initialised
Clear ==
  /\ parent' = Iota(N) /\ rank' = Zeros(N) /\ cls' = Singles(N) /\ pushed' = FALSE

\* resize(n): vector::resize of both arrays (new ranks 0, old ranks KEPT), then iota over ALL parents
Resize(n) ==
  /\ parent' = Iota(n)
  /\ rank' = [i \in 1..n |-> IF i <= N THEN rank[i] ELSE 0]
  /\ cls' = Singles(n)
  /\ UNCHANGED pushed

\* push_back(c): new element N in the class of c (c = N: a new class)
PushBack(c) ==
  /\ c \in 0..N
  /\ parent' = Append(parent, c)
  /\ rank' = LET r1 == Append(rank, 0) IN IF c # N /\ r1[c + 1] = 0 THEN [r1 EXCEPT ![c + 1] = 1] ELSE r1
  /\ cls' = IF c = N THEN Append(cls, {N})
            ELSE LET u == cls[c + 1] \cup {N} IN [i \in 1..(N + 1) |-> IF (i - 1) \in u THEN u ELSE cls[i]]
  /\ pushed' = (pushed \/ (c # N /\ P(parent, c) # c))

----------------------------------------------------------------------------
\* invariants
TypeOK == /\ Len(rank) = N /\ Len(cls) = N
          /\ \A x \in Elems : P(parent, x) \in Elems
\* every parent chain ends: node ranks strictly increase towards the root, or the forest is acyclic
RECURSIVE ReachesRoot(_, _, _)
ReachesRoot(p, x, fuel) == IF P(p, x) = x THEN TRUE ELSE IF fuel = 0 THEN FALSE ELSE ReachesRoot(p, P(p, x), fuel - 1)
Acyclic == \A x \in Elems : ReachesRoot(parent, x, N)
\* L2 refines L1: two elements have the same root exactly when they are in the same class
RefinesPartition == \A x, y \in Elems : (RootOf(parent, x) = RootOf(parent, y)) <=> (y \in cls[x + 1])
ClassesArePartition == /\ \A x \in Elems : x \in cls[x + 1]
                       /\ \A x, y \in Elems : y \in cls[x + 1] => cls[y + 1] = cls[x + 1]
\* union by rank: the depth of any node is bounded by the rank of its root (amortised complexity
\* argument); meaningless once push_back hung an element below a non-root
HeightBound == pushed \/ \A x \in Elems : DepthOf(parent, x) <= rank[RootOf(parent, x) + 1]
\* a rank never exceeds log2 of the class size - only between clear()/construction and the next resize
\* (resize keeps stale ranks): not an invariant of the code as it is, stated for reference only
RECURSIVE Pow2(_)
Pow2(k) == IF k = 0 THEN 1 ELSE 2 * Pow2(k - 1)
RankLogBound == \A x \in Elems : P(parent, x) = x => Pow2(rank[x + 1]) <= Cardinality(cls[x + 1])

\* L1 observation of a state: the root of every element (what find would return)
Roots == [i \in 1..N |-> RootOf(parent, i - 1)]
\* L1 acceptance of an observed root vector r against the abstract partition c (any representative
\* choice is allowed, as documented for merge): r constant exactly on classes, idempotent, inside the class
RootsAgree(r, c) ==
  /\ Len(r) = Len(c)
  /\ \A i \in 1..Len(c) : /\ r[i] \in c[i]
                          /\ r[r[i] + 1] = r[i]
                          /\ \A j \in 1..Len(c) : (r[i] = r[j]) <=> ((j - 1) \in c[i])
=============================================================================
