------------------------------- MODULE PFlood -------------------------------
(* L2 model of detail::fill_sinks_sloped (algo/pflood.hpp): priority flood  *)
(* with the epsilon variant (Barnes 2014).                                  *)
(*                                                                          *)
(*  open   the priority queue, modelled as a set popped at ANY element of   *)
(*         minimal elevation when TotalOrder = FALSE (covers every heap     *)
(*         tie-break and every base-level insertion order), or at the       *)
(*         minimal (elevation, index) element when TotalOrder = TRUE        *)
(*  pit    the FIFO queue of raised nodes                                   *)
(*  closed nodes already queued                                             *)
(* Elevations are integers level*(N+1) so that nextafter is "+ 1" and N     *)
(* increments never reach the next level.  One Pop action = one iteration   *)
(* of the while loop, neighbours visited in grid order.                     *)
(* TLC checks that every terminal state satisfies the SAME L1 contracts     *)
(* that recorded traces are validated against (FlowContract!C02 and the     *)
(* drainage condition a downstream router needs for C01).                   *)
EXTENDS Grid, FlowContract

CONSTANTS D,          \* grid descriptor
          Levels,     \* input levels
          BLSets,     \* admissible base-level sets
          Masks,      \* admissible masks (sets of nodes)
          TotalOrder  \* heap order is total (elevation, index)

N == Size(D)
NodeSet == Nodes(D)
K == N + 1
NB == NeighTable(D)

VARIABLES elevIn, bl, mask, elev, closed, open, pit, done
pvars == <<elevIn, bl, mask, elev, closed, open, pit, done>>

PInit == /\ elevIn \in [NodeSet -> {lv * K : lv \in Levels}]
         /\ bl \in BLSets /\ mask \in Masks /\ bl \ mask # {}
         \* base levels under the mask are not part of the graph: they are not queued
         /\ elev = elevIn /\ closed = bl \ mask /\ open = bl \ mask /\ pit = <<>> /\ done = FALSE

MinElevOpen == {i \in open : \A m \in open : elev[i] <= elev[m]}
MinOpen == IF TotalOrder THEN {SetMin(MinElevOpen)} ELSE MinElevOpen

\* visit the neighbours of i in grid order: <<elev, closed, open, pit>>
RECURSIVE Visit(_, _, _, _, _, _)
Visit(i, k, e, cl, op, pt) ==
  IF k > Len(NB[i]) THEN <<e, cl, op, pt>>
  ELSE LET j == NB[i][k].j IN
       IF j \in mask \/ j \in cl THEN Visit(i, k + 1, e, cl, op, pt)
       ELSE IF e[j] <= e[i] + 1
            THEN Visit(i, k + 1, [e EXCEPT ![j] = e[i] + 1], cl \cup {j}, op, Append(pt, j))
            ELSE Visit(i, k + 1, e, cl \cup {j}, op \cup {j}, pt)
Apply(i, op1, pt1) == LET v == Visit(i, 1, elev, closed, op1, pt1) IN
     /\ elev' = v[1] /\ closed' = v[2] /\ open' = v[3] /\ pit' = v[4]

PopOpen == \E i \in MinOpen : Apply(i, open \ {i}, pit)
PopPit == Apply(Head(pit), open, Tail(pit))
Pop == /\ ~done /\ (open # {} \/ pit # <<>>)
       /\ IF pit # <<>> /\ open # {} /\ (\E i \in MinElevOpen : elev[i] = elev[Head(pit)])
            THEN PopOpen
            ELSE IF pit # <<>> THEN PopPit ELSE PopOpen
       /\ UNCHANGED <<elevIn, bl, mask, done>>
Finish == /\ ~done /\ open = {} /\ pit = <<>> /\ done' = TRUE
          /\ UNCHANGED <<elevIn, bl, mask, elev, closed, open, pit>>
PNext == Pop \/ Finish
PSpec == PInit /\ [][PNext]_pvars

-----------------------------------------------------------------------------
AsSeq(f) == [i \in 1..N |-> f[i - 1]]
X == [n |-> N, nb |-> NB, mask |-> [i \in 1..N |-> IF (i - 1) \in mask THEN 1 ELSE 0], bl |-> bl]
R == [zin |-> AsSeq(elevIn), zout |-> AsSeq(elev), same |-> [i \in 1..N |-> IF elev[i - 1] = elevIn[i - 1] THEN 1 ELSE 0]]

\* L1: the filled surface is the spill level (+ at most N increments), fixed nodes untouched
RefinesC02 == done => C02(X, R)
\* what a downstream router needs (C01): every node connected to a base level, other than the
\* base levels, keeps a strictly lower unmasked neighbour
Drains == done => \A i \in Conn(X) \ bl : \E j \in UNb(X, i) : elev[j] < elev[i]
\* every node is queued at most once, queues only hold closed nodes
QueuesOK == /\ open \subseteq closed /\ RangeS(pit) \subseteq closed
            /\ \A a, b \in DOMAIN pit : a # b => pit[a] # pit[b]
Terminates == <>done
=============================================================================
