CONSTANTS
  MaxLen = 3
SPECIFICATION Spec
