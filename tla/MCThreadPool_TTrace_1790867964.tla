---- MODULE MCThreadPool_TTrace_1790867964 ----
EXTENDS Sequences, TLCExt, MCThreadPool, Toolbox, Naturals, TLC

_expression ==
    LET MCThreadPool_TEExpression == INSTANCE MCThreadPool_TEExpression
    IN MCThreadPool_TEExpression!expression
----

_trace ==
    LET MCThreadPool_TETrace == INSTANCE MCThreadPool_TETrace
    IN MCThreadPool_TETrace!trace
----

_inv ==
    ~(
        TLCGet("level") = Len(_TETrace)
        /\
        seenVer = (<<1, 1>>)
        /\
        paused = (FALSE)
        /\
        stopped = (FALSE)
        /\
        race = (TRUE)
        /\
        ci = (3)
        /\
        hasJob = (<<0, 0>>)
        /\
        execCount = (<<1, 1>>)
        /\
        jobsKind = ("none")
        /\
        mutex = (0)
        /\
        hjVer = (<<0, 0>>)
        /\
        started = (TRUE)
        /\
        wpc = (<<"L0", "L0">>)
        /\
        jobVer = (2)
        /\
        prog = (<<<<"pause">>, <<"resume">>, <<"resize", 1>>, <<"run", 0, 1, 0>>, <<"pause">>, <<"stop">>>>)
        /\
        resVer = (<<1, 1>>)
        /\
        size = (2)
        /\
        cpc = ("idle")
        /\
        pcount = (0)
        /\
        nthreads = (2)
        /\
        jobNonNull = (<<TRUE, TRUE>>)
        /\
        callerSeen = (<<0, 0>>)
        /\
        dup = (FALSE)
        /\
        cvWait = ({})
        /\
        cstack = (<<>>)
    )
----

_init ==
    /\ jobVer = _TETrace[1].jobVer
    /\ prog = _TETrace[1].prog
    /\ cvWait = _TETrace[1].cvWait
    /\ paused = _TETrace[1].paused
    /\ jobsKind = _TETrace[1].jobsKind
    /\ stopped = _TETrace[1].stopped
    /\ ci = _TETrace[1].ci
    /\ execCount = _TETrace[1].execCount
    /\ seenVer = _TETrace[1].seenVer
    /\ resVer = _TETrace[1].resVer
    /\ cstack = _TETrace[1].cstack
    /\ callerSeen = _TETrace[1].callerSeen
    /\ hasJob = _TETrace[1].hasJob
    /\ hjVer = _TETrace[1].hjVer
    /\ size = _TETrace[1].size
    /\ dup = _TETrace[1].dup
    /\ jobNonNull = _TETrace[1].jobNonNull
    /\ cpc = _TETrace[1].cpc
    /\ nthreads = _TETrace[1].nthreads
    /\ pcount = _TETrace[1].pcount
    /\ started = _TETrace[1].started
    /\ wpc = _TETrace[1].wpc
    /\ mutex = _TETrace[1].mutex
    /\ race = _TETrace[1].race
----

_next ==
    /\ \E i,j \in DOMAIN _TETrace:
        /\ \/ /\ j = i + 1
              /\ i = TLCGet("level")
        /\ jobVer  = _TETrace[i].jobVer
        /\ jobVer' = _TETrace[j].jobVer
        /\ prog  = _TETrace[i].prog
        /\ prog' = _TETrace[j].prog
        /\ cvWait  = _TETrace[i].cvWait
        /\ cvWait' = _TETrace[j].cvWait
        /\ paused  = _TETrace[i].paused
        /\ paused' = _TETrace[j].paused
        /\ jobsKind  = _TETrace[i].jobsKind
        /\ jobsKind' = _TETrace[j].jobsKind
        /\ stopped  = _TETrace[i].stopped
        /\ stopped' = _TETrace[j].stopped
        /\ ci  = _TETrace[i].ci
        /\ ci' = _TETrace[j].ci
        /\ execCount  = _TETrace[i].execCount
        /\ execCount' = _TETrace[j].execCount
        /\ seenVer  = _TETrace[i].seenVer
        /\ seenVer' = _TETrace[j].seenVer
        /\ resVer  = _TETrace[i].resVer
        /\ resVer' = _TETrace[j].resVer
        /\ cstack  = _TETrace[i].cstack
        /\ cstack' = _TETrace[j].cstack
        /\ callerSeen  = _TETrace[i].callerSeen
        /\ callerSeen' = _TETrace[j].callerSeen
        /\ hasJob  = _TETrace[i].hasJob
        /\ hasJob' = _TETrace[j].hasJob
        /\ hjVer  = _TETrace[i].hjVer
        /\ hjVer' = _TETrace[j].hjVer
        /\ size  = _TETrace[i].size
        /\ size' = _TETrace[j].size
        /\ dup  = _TETrace[i].dup
        /\ dup' = _TETrace[j].dup
        /\ jobNonNull  = _TETrace[i].jobNonNull
        /\ jobNonNull' = _TETrace[j].jobNonNull
        /\ cpc  = _TETrace[i].cpc
        /\ cpc' = _TETrace[j].cpc
        /\ nthreads  = _TETrace[i].nthreads
        /\ nthreads' = _TETrace[j].nthreads
        /\ pcount  = _TETrace[i].pcount
        /\ pcount' = _TETrace[j].pcount
        /\ started  = _TETrace[i].started
        /\ started' = _TETrace[j].started
        /\ wpc  = _TETrace[i].wpc
        /\ wpc' = _TETrace[j].wpc
        /\ mutex  = _TETrace[i].mutex
        /\ mutex' = _TETrace[j].mutex
        /\ race  = _TETrace[i].race
        /\ race' = _TETrace[j].race

\* Uncomment the ASSUME below to write the states of the error trace
\* to the given file in Json format. Note that you can pass any tuple
\* to `JsonSerialize`. For example, a sub-sequence of _TETrace.
    \* ASSUME
    \*     LET J == INSTANCE Json
    \*         IN J!JsonSerialize("MCThreadPool_TTrace_1790867964.json", _TETrace)

=============================================================================

 Note that you can extract this module `MCThreadPool_TEExpression`
  to a dedicated file to reuse `expression` (the module in the 
  dedicated `MCThreadPool_TEExpression.tla` file takes precedence 
  over the module `MCThreadPool_TEExpression` below).

---- MODULE MCThreadPool_TEExpression ----
EXTENDS Sequences, TLCExt, MCThreadPool, Toolbox, Naturals, TLC

expression == 
    [
        \* To hide variables of the `MCThreadPool` spec from the error trace,
        \* remove the variables below.  The trace will be written in the order
        \* of the fields of this record.
        jobVer |-> jobVer
        ,prog |-> prog
        ,cvWait |-> cvWait
        ,paused |-> paused
        ,jobsKind |-> jobsKind
        ,stopped |-> stopped
        ,ci |-> ci
        ,execCount |-> execCount
        ,seenVer |-> seenVer
        ,resVer |-> resVer
        ,cstack |-> cstack
        ,callerSeen |-> callerSeen
        ,hasJob |-> hasJob
        ,hjVer |-> hjVer
        ,size |-> size
        ,dup |-> dup
        ,jobNonNull |-> jobNonNull
        ,cpc |-> cpc
        ,nthreads |-> nthreads
        ,pcount |-> pcount
        ,started |-> started
        ,wpc |-> wpc
        ,mutex |-> mutex
        ,race |-> race
        
        \* Put additional constant-, state-, and action-level expressions here:
        \* ,_stateNumber |-> _TEPosition
        \* ,_jobVerUnchanged |-> jobVer = jobVer'
        
        \* Format the `jobVer` variable as Json value.
        \* ,_jobVerJson |->
        \*     LET J == INSTANCE Json
        \*     IN J!ToJson(jobVer)
        
        \* Lastly, you may build expressions over arbitrary sets of states by
        \* leveraging the _TETrace operator.  For example, this is how to
        \* count the number of times a spec variable changed up to the current
        \* state in the trace.
        \* ,_jobVerModCount |->
        \*     LET F[s \in DOMAIN _TETrace] ==
        \*         IF s = 1 THEN 0
        \*         ELSE IF _TETrace[s].jobVer # _TETrace[s-1].jobVer
        \*             THEN 1 + F[s-1] ELSE F[s-1]
        \*     IN F[_TEPosition - 1]
    ]

=============================================================================



Parsing and semantic processing can take forever if the trace below is long.
 In this case, it is advised to uncomment the module below to deserialize the
 trace from a generated binary file.

\*
\*---- MODULE MCThreadPool_TETrace ----
\*EXTENDS IOUtils, MCThreadPool, TLC
\*
\*trace == IODeserialize("MCThreadPool_TTrace_1790867964.bin", TRUE)
\*
\*=============================================================================
\*

---- MODULE MCThreadPool_TETrace ----
EXTENDS MCThreadPool, TLC

trace == 
    <<
    ([seenVer |-> <<0, 0>>,paused |-> FALSE,stopped |-> FALSE,race |-> FALSE,ci |-> 1,hasJob |-> <<0, 0>>,execCount |-> <<0, 0>>,jobsKind |-> "none",mutex |-> 0,hjVer |-> <<0, 0>>,started |-> FALSE,wpc |-> <<"none", "none">>,jobVer |-> 0,prog |-> <<<<"resume">>, <<"resize", 2>>, <<"run", 0, 5, 0>>, <<"pause">>, <<"resume">>, <<"resize", 1>>, <<"run", 0, 1, 0>>, <<"pause">>, <<"stop">>>>,resVer |-> <<0, 0>>,size |-> 1,cpc |-> "idle",pcount |-> 0,nthreads |-> 0,jobNonNull |-> <<FALSE, FALSE>>,callerSeen |-> <<0, 0>>,dup |-> FALSE,cvWait |-> {},cstack |-> <<>>]),
    ([seenVer |-> <<0, 0>>,paused |-> FALSE,stopped |-> FALSE,race |-> FALSE,ci |-> 1,hasJob |-> <<0, 0>>,execCount |-> <<0, 0>>,jobsKind |-> "none",mutex |-> 0,hjVer |-> <<0, 0>>,started |-> FALSE,wpc |-> <<"none", "none">>,jobVer |-> 0,prog |-> <<<<"resize", 2>>, <<"run", 0, 5, 0>>, <<"pause">>, <<"resume">>, <<"resize", 1>>, <<"run", 0, 1, 0>>, <<"pause">>, <<"stop">>>>,resVer |-> <<0, 0>>,size |-> 1,cpc |-> "R0",pcount |-> 0,nthreads |-> 0,jobNonNull |-> <<FALSE, FALSE>>,callerSeen |-> <<0, 0>>,dup |-> FALSE,cvWait |-> {},cstack |-> <<"idle">>]),
    ([seenVer |-> <<0, 0>>,paused |-> FALSE,stopped |-> FALSE,race |-> FALSE,ci |-> 1,hasJob |-> <<0, 0>>,execCount |-> <<0, 0>>,jobsKind |-> "none",mutex |-> 0,hjVer |-> <<0, 0>>,started |-> FALSE,wpc |-> <<"none", "none">>,jobVer |-> 0,prog |-> <<<<"resize", 2>>, <<"run", 0, 5, 0>>, <<"pause">>, <<"resume">>, <<"resize", 1>>, <<"run", 0, 1, 0>>, <<"pause">>, <<"stop">>>>,resVer |-> <<0, 0>>,size |-> 1,cpc |-> "idle",pcount |-> 0,nthreads |-> 0,jobNonNull |-> <<FALSE, FALSE>>,callerSeen |-> <<0, 0>>,dup |-> FALSE,cvWait |-> {},cstack |-> <<>>]),
    ([seenVer |-> <<0, 0>>,paused |-> FALSE,stopped |-> FALSE,race |-> FALSE,ci |-> 2,hasJob |-> <<0, 0>>,execCount |-> <<0, 0>>,jobsKind |-> "none",mutex |-> 0,hjVer |-> <<0, 0>>,started |-> FALSE,wpc |-> <<"none", "none">>,jobVer |-> 0,prog |-> <<<<"run", 0, 5, 0>>, <<"pause">>, <<"resume">>, <<"resize", 1>>, <<"run", 0, 1, 0>>, <<"pause">>, <<"stop">>>>,resVer |-> <<0, 0>>,size |-> 1,cpc |-> "Z0",pcount |-> 0,nthreads |-> 0,jobNonNull |-> <<FALSE, FALSE>>,callerSeen |-> <<0, 0>>,dup |-> FALSE,cvWait |-> {},cstack |-> <<"idle">>]),
    ([seenVer |-> <<0, 0>>,paused |-> FALSE,stopped |-> FALSE,race |-> FALSE,ci |-> 2,hasJob |-> <<0, 0>>,execCount |-> <<0, 0>>,jobsKind |-> "none",mutex |-> 0,hjVer |-> <<0, 0>>,started |-> FALSE,wpc |-> <<"none", "none">>,jobVer |-> 0,prog |-> <<<<"run", 0, 5, 0>>, <<"pause">>, <<"resume">>, <<"resize", 1>>, <<"run", 0, 1, 0>>, <<"pause">>, <<"stop">>>>,resVer |-> <<0, 0>>,size |-> 2,cpc |-> "S0",pcount |-> 0,nthreads |-> 0,jobNonNull |-> <<FALSE, FALSE>>,callerSeen |-> <<0, 0>>,dup |-> FALSE,cvWait |-> {},cstack |-> <<"Z1", "idle">>]),
    ([seenVer |-> <<0, 0>>,paused |-> FALSE,stopped |-> TRUE,race |-> FALSE,ci |-> 2,hasJob |-> <<0, 0>>,execCount |-> <<0, 0>>,jobsKind |-> "none",mutex |-> 0,hjVer |-> <<0, 0>>,started |-> FALSE,wpc |-> <<"none", "none">>,jobVer |-> 0,prog |-> <<<<"run", 0, 5, 0>>, <<"pause">>, <<"resume">>, <<"resize", 1>>, <<"run", 0, 1, 0>>, <<"pause">>, <<"stop">>>>,resVer |-> <<0, 0>>,size |-> 2,cpc |-> "S1",pcount |-> 0,nthreads |-> 0,jobNonNull |-> <<FALSE, FALSE>>,callerSeen |-> <<0, 0>>,dup |-> FALSE,cvWait |-> {},cstack |-> <<"Z1", "idle">>]),
    ([seenVer |-> <<0, 0>>,paused |-> FALSE,stopped |-> TRUE,race |-> FALSE,ci |-> 2,hasJob |-> <<0, 0>>,execCount |-> <<0, 0>>,jobsKind |-> "none",mutex |-> 0,hjVer |-> <<0, 0>>,started |-> FALSE,wpc |-> <<"none", "none">>,jobVer |-> 0,prog |-> <<<<"run", 0, 5, 0>>, <<"pause">>, <<"resume">>, <<"resize", 1>>, <<"run", 0, 1, 0>>, <<"pause">>, <<"stop">>>>,resVer |-> <<0, 0>>,size |-> 2,cpc |-> "S2i",pcount |-> 0,nthreads |-> 0,jobNonNull |-> <<FALSE, FALSE>>,callerSeen |-> <<0, 0>>,dup |-> FALSE,cvWait |-> {},cstack |-> <<"Z1", "idle">>]),
    ([seenVer |-> <<0, 0>>,paused |-> FALSE,stopped |-> TRUE,race |-> FALSE,ci |-> 1,hasJob |-> <<0, 0>>,execCount |-> <<0, 0>>,jobsKind |-> "none",mutex |-> 0,hjVer |-> <<0, 0>>,started |-> FALSE,wpc |-> <<"none", "none">>,jobVer |-> 0,prog |-> <<<<"run", 0, 5, 0>>, <<"pause">>, <<"resume">>, <<"resize", 1>>, <<"run", 0, 1, 0>>, <<"pause">>, <<"stop">>>>,resVer |-> <<0, 0>>,size |-> 2,cpc |-> "S2",pcount |-> 0,nthreads |-> 0,jobNonNull |-> <<FALSE, FALSE>>,callerSeen |-> <<0, 0>>,dup |-> FALSE,cvWait |-> {},cstack |-> <<"Z1", "idle">>]),
    ([seenVer |-> <<0, 0>>,paused |-> FALSE,stopped |-> TRUE,race |-> FALSE,ci |-> 1,hasJob |-> <<0, 0>>,execCount |-> <<0, 0>>,jobsKind |-> "none",mutex |-> 0,hjVer |-> <<0, 0>>,started |-> FALSE,wpc |-> <<"none", "none">>,jobVer |-> 0,prog |-> <<<<"run", 0, 5, 0>>, <<"pause">>, <<"resume">>, <<"resize", 1>>, <<"run", 0, 1, 0>>, <<"pause">>, <<"stop">>>>,resVer |-> <<0, 0>>,size |-> 2,cpc |-> "Z1",pcount |-> 0,nthreads |-> 0,jobNonNull |-> <<FALSE, FALSE>>,callerSeen |-> <<0, 0>>,dup |-> FALSE,cvWait |-> {},cstack |-> <<"idle">>]),
    ([seenVer |-> <<0, 0>>,paused |-> FALSE,stopped |-> FALSE,race |-> FALSE,ci |-> 1,hasJob |-> <<0, 0>>,execCount |-> <<0, 0>>,jobsKind |-> "none",mutex |-> 0,hjVer |-> <<0, 0>>,started |-> FALSE,wpc |-> <<"none", "none">>,jobVer |-> 0,prog |-> <<<<"run", 0, 5, 0>>, <<"pause">>, <<"resume">>, <<"resize", 1>>, <<"run", 0, 1, 0>>, <<"pause">>, <<"stop">>>>,resVer |-> <<0, 0>>,size |-> 2,cpc |-> "idle",pcount |-> 0,nthreads |-> 0,jobNonNull |-> <<FALSE, FALSE>>,callerSeen |-> <<0, 0>>,dup |-> FALSE,cvWait |-> {},cstack |-> <<>>]),
    ([seenVer |-> <<0, 0>>,paused |-> FALSE,stopped |-> FALSE,race |-> FALSE,ci |-> 2,hasJob |-> <<0, 0>>,execCount |-> <<0, 0>>,jobsKind |-> "none",mutex |-> 0,hjVer |-> <<0, 0>>,started |-> FALSE,wpc |-> <<"none", "none">>,jobVer |-> 0,prog |-> <<<<"pause">>, <<"resume">>, <<"resize", 1>>, <<"run", 0, 1, 0>>, <<"pause">>, <<"stop">>>>,resVer |-> <<0, 0>>,size |-> 2,cpc |-> "B0",pcount |-> 0,nthreads |-> 0,jobNonNull |-> <<FALSE, FALSE>>,callerSeen |-> <<0, 0>>,dup |-> FALSE,cvWait |-> {},cstack |-> <<"idle">>]),
    ([seenVer |-> <<0, 0>>,paused |-> FALSE,stopped |-> FALSE,race |-> FALSE,ci |-> 2,hasJob |-> <<0, 0>>,execCount |-> <<0, 0>>,jobsKind |-> "user",mutex |-> 0,hjVer |-> <<0, 0>>,started |-> FALSE,wpc |-> <<"none", "none">>,jobVer |-> 1,prog |-> <<<<"pause">>, <<"resume">>, <<"resize", 1>>, <<"run", 0, 1, 0>>, <<"pause">>, <<"stop">>>>,resVer |-> <<0, 0>>,size |-> 2,cpc |-> "T0",pcount |-> 0,nthreads |-> 0,jobNonNull |-> <<TRUE, TRUE>>,callerSeen |-> <<0, 0>>,dup |-> FALSE,cvWait |-> {},cstack |-> <<"B1", "idle">>]),
    ([seenVer |-> <<0, 0>>,paused |-> FALSE,stopped |-> FALSE,race |-> FALSE,ci |-> 1,hasJob |-> <<0, 0>>,execCount |-> <<0, 0>>,jobsKind |-> "user",mutex |-> 0,hjVer |-> <<0, 0>>,started |-> TRUE,wpc |-> <<"none", "none">>,jobVer |-> 1,prog |-> <<<<"pause">>, <<"resume">>, <<"resize", 1>>, <<"run", 0, 1, 0>>, <<"pause">>, <<"stop">>>>,resVer |-> <<0, 0>>,size |-> 2,cpc |-> "T0s",pcount |-> 0,nthreads |-> 0,jobNonNull |-> <<TRUE, TRUE>>,callerSeen |-> <<0, 0>>,dup |-> FALSE,cvWait |-> {},cstack |-> <<"B1", "idle">>]),
    ([seenVer |-> <<1, 0>>,paused |-> FALSE,stopped |-> FALSE,race |-> FALSE,ci |-> 2,hasJob |-> <<0, 0>>,execCount |-> <<0, 0>>,jobsKind |-> "user",mutex |-> 0,hjVer |-> <<0, 0>>,started |-> TRUE,wpc |-> <<"L0", "none">>,jobVer |-> 1,prog |-> <<<<"pause">>, <<"resume">>, <<"resize", 1>>, <<"run", 0, 1, 0>>, <<"pause">>, <<"stop">>>>,resVer |-> <<0, 0>>,size |-> 2,cpc |-> "T0s",pcount |-> 0,nthreads |-> 1,jobNonNull |-> <<TRUE, TRUE>>,callerSeen |-> <<0, 0>>,dup |-> FALSE,cvWait |-> {},cstack |-> <<"B1", "idle">>]),
    ([seenVer |-> <<1, 0>>,paused |-> FALSE,stopped |-> FALSE,race |-> FALSE,ci |-> 2,hasJob |-> <<0, 0>>,execCount |-> <<0, 0>>,jobsKind |-> "user",mutex |-> 0,hjVer |-> <<0, 0>>,started |-> TRUE,wpc |-> <<"L1", "none">>,jobVer |-> 1,prog |-> <<<<"pause">>, <<"resume">>, <<"resize", 1>>, <<"run", 0, 1, 0>>, <<"pause">>, <<"stop">>>>,resVer |-> <<0, 0>>,size |-> 2,cpc |-> "T0s",pcount |-> 0,nthreads |-> 1,jobNonNull |-> <<TRUE, TRUE>>,callerSeen |-> <<0, 0>>,dup |-> FALSE,cvWait |-> {},cstack |-> <<"B1", "idle">>]),
    ([seenVer |-> <<1, 1>>,paused |-> FALSE,stopped |-> FALSE,race |-> FALSE,ci |-> 3,hasJob |-> <<0, 0>>,execCount |-> <<0, 0>>,jobsKind |-> "user",mutex |-> 0,hjVer |-> <<0, 0>>,started |-> TRUE,wpc |-> <<"L1", "L0">>,jobVer |-> 1,prog |-> <<<<"pause">>, <<"resume">>, <<"resize", 1>>, <<"run", 0, 1, 0>>, <<"pause">>, <<"stop">>>>,resVer |-> <<0, 0>>,size |-> 2,cpc |-> "T0s",pcount |-> 0,nthreads |-> 2,jobNonNull |-> <<TRUE, TRUE>>,callerSeen |-> <<0, 0>>,dup |-> FALSE,cvWait |-> {},cstack |-> <<"B1", "idle">>]),
    ([seenVer |-> <<1, 1>>,paused |-> FALSE,stopped |-> FALSE,race |-> FALSE,ci |-> 3,hasJob |-> <<0, 0>>,execCount |-> <<0, 0>>,jobsKind |-> "user",mutex |-> 0,hjVer |-> <<0, 0>>,started |-> TRUE,wpc |-> <<"L1", "L0">>,jobVer |-> 1,prog |-> <<<<"pause">>, <<"resume">>, <<"resize", 1>>, <<"run", 0, 1, 0>>, <<"pause">>, <<"stop">>>>,resVer |-> <<0, 0>>,size |-> 2,cpc |-> "T1",pcount |-> 0,nthreads |-> 2,jobNonNull |-> <<TRUE, TRUE>>,callerSeen |-> <<0, 0>>,dup |-> FALSE,cvWait |-> {},cstack |-> <<"B1", "idle">>]),
    ([seenVer |-> <<1, 1>>,paused |-> FALSE,stopped |-> FALSE,race |-> FALSE,ci |-> 3,hasJob |-> <<0, 0>>,execCount |-> <<0, 0>>,jobsKind |-> "user",mutex |-> 0,hjVer |-> <<0, 0>>,started |-> TRUE,wpc |-> <<"L1", "L0">>,jobVer |-> 1,prog |-> <<<<"pause">>, <<"resume">>, <<"resize", 1>>, <<"run", 0, 1, 0>>, <<"pause">>, <<"stop">>>>,resVer |-> <<0, 0>>,size |-> 2,cpc |-> "T2i",pcount |-> 0,nthreads |-> 2,jobNonNull |-> <<TRUE, TRUE>>,callerSeen |-> <<0, 0>>,dup |-> FALSE,cvWait |-> {},cstack |-> <<"B1", "idle">>]),
    ([seenVer |-> <<1, 1>>,paused |-> FALSE,stopped |-> FALSE,race |-> FALSE,ci |-> 1,hasJob |-> <<0, 0>>,execCount |-> <<0, 0>>,jobsKind |-> "user",mutex |-> 0,hjVer |-> <<0, 0>>,started |-> TRUE,wpc |-> <<"L1", "L0">>,jobVer |-> 1,prog |-> <<<<"pause">>, <<"resume">>, <<"resize", 1>>, <<"run", 0, 1, 0>>, <<"pause">>, <<"stop">>>>,resVer |-> <<0, 0>>,size |-> 2,cpc |-> "T2",pcount |-> 0,nthreads |-> 2,jobNonNull |-> <<TRUE, TRUE>>,callerSeen |-> <<0, 0>>,dup |-> FALSE,cvWait |-> {},cstack |-> <<"B1", "idle">>]),
    ([seenVer |-> <<1, 1>>,paused |-> FALSE,stopped |-> FALSE,race |-> FALSE,ci |-> 2,hasJob |-> <<1, 0>>,execCount |-> <<0, 0>>,jobsKind |-> "user",mutex |-> 0,hjVer |-> <<0, 0>>,started |-> TRUE,wpc |-> <<"L1", "L0">>,jobVer |-> 1,prog |-> <<<<"pause">>, <<"resume">>, <<"resize", 1>>, <<"run", 0, 1, 0>>, <<"pause">>, <<"stop">>>>,resVer |-> <<0, 0>>,size |-> 2,cpc |-> "T2",pcount |-> 0,nthreads |-> 2,jobNonNull |-> <<TRUE, TRUE>>,callerSeen |-> <<0, 0>>,dup |-> FALSE,cvWait |-> {},cstack |-> <<"B1", "idle">>]),
    ([seenVer |-> <<1, 1>>,paused |-> FALSE,stopped |-> FALSE,race |-> FALSE,ci |-> 3,hasJob |-> <<1, 1>>,execCount |-> <<0, 0>>,jobsKind |-> "user",mutex |-> 0,hjVer |-> <<0, 0>>,started |-> TRUE,wpc |-> <<"L1", "L0">>,jobVer |-> 1,prog |-> <<<<"pause">>, <<"resume">>, <<"resize", 1>>, <<"run", 0, 1, 0>>, <<"pause">>, <<"stop">>>>,resVer |-> <<0, 0>>,size |-> 2,cpc |-> "T2",pcount |-> 0,nthreads |-> 2,jobNonNull |-> <<TRUE, TRUE>>,callerSeen |-> <<0, 0>>,dup |-> FALSE,cvWait |-> {},cstack |-> <<"B1", "idle">>]),
    ([seenVer |-> <<1, 1>>,paused |-> FALSE,stopped |-> FALSE,race |-> FALSE,ci |-> 3,hasJob |-> <<1, 1>>,execCount |-> <<0, 0>>,jobsKind |-> "user",mutex |-> 0,hjVer |-> <<0, 0>>,started |-> TRUE,wpc |-> <<"L1", "L0">>,jobVer |-> 1,prog |-> <<<<"pause">>, <<"resume">>, <<"resize", 1>>, <<"run", 0, 1, 0>>, <<"pause">>, <<"stop">>>>,resVer |-> <<0, 0>>,size |-> 2,cpc |-> "B1",pcount |-> 0,nthreads |-> 2,jobNonNull |-> <<TRUE, TRUE>>,callerSeen |-> <<0, 0>>,dup |-> FALSE,cvWait |-> {},cstack |-> <<"idle">>]),
    ([seenVer |-> <<1, 1>>,paused |-> FALSE,stopped |-> FALSE,race |-> FALSE,ci |-> 3,hasJob |-> <<1, 1>>,execCount |-> <<0, 0>>,jobsKind |-> "user",mutex |-> 0,hjVer |-> <<0, 0>>,started |-> TRUE,wpc |-> <<"L1", "L0">>,jobVer |-> 1,prog |-> <<<<"pause">>, <<"resume">>, <<"resize", 1>>, <<"run", 0, 1, 0>>, <<"pause">>, <<"stop">>>>,resVer |-> <<0, 0>>,size |-> 2,cpc |-> "W0",pcount |-> 0,nthreads |-> 2,jobNonNull |-> <<TRUE, TRUE>>,callerSeen |-> <<0, 0>>,dup |-> FALSE,cvWait |-> {},cstack |-> <<"B2", "idle">>]),
    ([seenVer |-> <<1, 1>>,paused |-> FALSE,stopped |-> FALSE,race |-> FALSE,ci |-> 1,hasJob |-> <<1, 1>>,execCount |-> <<0, 0>>,jobsKind |-> "user",mutex |-> 0,hjVer |-> <<0, 0>>,started |-> TRUE,wpc |-> <<"L1", "L0">>,jobVer |-> 1,prog |-> <<<<"pause">>, <<"resume">>, <<"resize", 1>>, <<"run", 0, 1, 0>>, <<"pause">>, <<"stop">>>>,resVer |-> <<0, 0>>,size |-> 2,cpc |-> "Wl",pcount |-> 0,nthreads |-> 2,jobNonNull |-> <<TRUE, TRUE>>,callerSeen |-> <<0, 0>>,dup |-> FALSE,cvWait |-> {},cstack |-> <<"B2", "idle">>]),
    ([seenVer |-> <<1, 1>>,paused |-> FALSE,stopped |-> FALSE,race |-> FALSE,ci |-> 1,hasJob |-> <<1, 1>>,execCount |-> <<0, 0>>,jobsKind |-> "user",mutex |-> 0,hjVer |-> <<0, 0>>,started |-> TRUE,wpc |-> <<"L1", "L1">>,jobVer |-> 1,prog |-> <<<<"pause">>, <<"resume">>, <<"resize", 1>>, <<"run", 0, 1, 0>>, <<"pause">>, <<"stop">>>>,resVer |-> <<0, 0>>,size |-> 2,cpc |-> "Wl",pcount |-> 0,nthreads |-> 2,jobNonNull |-> <<TRUE, TRUE>>,callerSeen |-> <<0, 0>>,dup |-> FALSE,cvWait |-> {},cstack |-> <<"B2", "idle">>]),
    ([seenVer |-> <<1, 1>>,paused |-> FALSE,stopped |-> FALSE,race |-> FALSE,ci |-> 1,hasJob |-> <<1, 1>>,execCount |-> <<0, 0>>,jobsKind |-> "user",mutex |-> 0,hjVer |-> <<0, 0>>,started |-> TRUE,wpc |-> <<"L2", "L1">>,jobVer |-> 1,prog |-> <<<<"pause">>, <<"resume">>, <<"resize", 1>>, <<"run", 0, 1, 0>>, <<"pause">>, <<"stop">>>>,resVer |-> <<0, 0>>,size |-> 2,cpc |-> "Wl",pcount |-> 0,nthreads |-> 2,jobNonNull |-> <<TRUE, TRUE>>,callerSeen |-> <<0, 0>>,dup |-> FALSE,cvWait |-> {},cstack |-> <<"B2", "idle">>]),
    ([seenVer |-> <<1, 1>>,paused |-> FALSE,stopped |-> FALSE,race |-> FALSE,ci |-> 1,hasJob |-> <<1, 1>>,execCount |-> <<0, 0>>,jobsKind |-> "user",mutex |-> 0,hjVer |-> <<0, 0>>,started |-> TRUE,wpc |-> <<"L2", "L2">>,jobVer |-> 1,prog |-> <<<<"pause">>, <<"resume">>, <<"resize", 1>>, <<"run", 0, 1, 0>>, <<"pause">>, <<"stop">>>>,resVer |-> <<0, 0>>,size |-> 2,cpc |-> "Wl",pcount |-> 0,nthreads |-> 2,jobNonNull |-> <<TRUE, TRUE>>,callerSeen |-> <<0, 0>>,dup |-> FALSE,cvWait |-> {},cstack |-> <<"B2", "idle">>]),
    ([seenVer |-> <<1, 1>>,paused |-> FALSE,stopped |-> FALSE,race |-> FALSE,ci |-> 1,hasJob |-> <<1, 1>>,execCount |-> <<0, 1>>,jobsKind |-> "user",mutex |-> 0,hjVer |-> <<0, 0>>,started |-> TRUE,wpc |-> <<"L2", "L3">>,jobVer |-> 1,prog |-> <<<<"pause">>, <<"resume">>, <<"resize", 1>>, <<"run", 0, 1, 0>>, <<"pause">>, <<"stop">>>>,resVer |-> <<0, 1>>,size |-> 2,cpc |-> "Wl",pcount |-> 0,nthreads |-> 2,jobNonNull |-> <<TRUE, TRUE>>,callerSeen |-> <<0, 0>>,dup |-> FALSE,cvWait |-> {},cstack |-> <<"B2", "idle">>]),
    ([seenVer |-> <<1, 1>>,paused |-> FALSE,stopped |-> FALSE,race |-> FALSE,ci |-> 1,hasJob |-> <<1, 1>>,execCount |-> <<1, 1>>,jobsKind |-> "user",mutex |-> 0,hjVer |-> <<0, 0>>,started |-> TRUE,wpc |-> <<"L3", "L3">>,jobVer |-> 1,prog |-> <<<<"pause">>, <<"resume">>, <<"resize", 1>>, <<"run", 0, 1, 0>>, <<"pause">>, <<"stop">>>>,resVer |-> <<1, 1>>,size |-> 2,cpc |-> "Wl",pcount |-> 0,nthreads |-> 2,jobNonNull |-> <<TRUE, TRUE>>,callerSeen |-> <<0, 0>>,dup |-> FALSE,cvWait |-> {},cstack |-> <<"B2", "idle">>]),
    ([seenVer |-> <<1, 1>>,paused |-> FALSE,stopped |-> FALSE,race |-> FALSE,ci |-> 1,hasJob |-> <<0, 1>>,execCount |-> <<1, 1>>,jobsKind |-> "user",mutex |-> 0,hjVer |-> <<0, 0>>,started |-> TRUE,wpc |-> <<"L0", "L3">>,jobVer |-> 1,prog |-> <<<<"pause">>, <<"resume">>, <<"resize", 1>>, <<"run", 0, 1, 0>>, <<"pause">>, <<"stop">>>>,resVer |-> <<1, 1>>,size |-> 2,cpc |-> "Wl",pcount |-> 0,nthreads |-> 2,jobNonNull |-> <<TRUE, TRUE>>,callerSeen |-> <<0, 0>>,dup |-> FALSE,cvWait |-> {},cstack |-> <<"B2", "idle">>]),
    ([seenVer |-> <<1, 1>>,paused |-> FALSE,stopped |-> FALSE,race |-> FALSE,ci |-> 2,hasJob |-> <<0, 1>>,execCount |-> <<1, 1>>,jobsKind |-> "user",mutex |-> 0,hjVer |-> <<0, 0>>,started |-> TRUE,wpc |-> <<"L0", "L3">>,jobVer |-> 1,prog |-> <<<<"pause">>, <<"resume">>, <<"resize", 1>>, <<"run", 0, 1, 0>>, <<"pause">>, <<"stop">>>>,resVer |-> <<1, 1>>,size |-> 2,cpc |-> "Wl",pcount |-> 0,nthreads |-> 2,jobNonNull |-> <<TRUE, TRUE>>,callerSeen |-> <<0, 0>>,dup |-> FALSE,cvWait |-> {},cstack |-> <<"B2", "idle">>]),
    ([seenVer |-> <<1, 1>>,paused |-> FALSE,stopped |-> FALSE,race |-> FALSE,ci |-> 2,hasJob |-> <<0, 0>>,execCount |-> <<1, 1>>,jobsKind |-> "user",mutex |-> 0,hjVer |-> <<0, 0>>,started |-> TRUE,wpc |-> <<"L0", "L0">>,jobVer |-> 1,prog |-> <<<<"pause">>, <<"resume">>, <<"resize", 1>>, <<"run", 0, 1, 0>>, <<"pause">>, <<"stop">>>>,resVer |-> <<1, 1>>,size |-> 2,cpc |-> "Wl",pcount |-> 0,nthreads |-> 2,jobNonNull |-> <<TRUE, TRUE>>,callerSeen |-> <<0, 0>>,dup |-> FALSE,cvWait |-> {},cstack |-> <<"B2", "idle">>]),
    ([seenVer |-> <<1, 1>>,paused |-> FALSE,stopped |-> FALSE,race |-> FALSE,ci |-> 3,hasJob |-> <<0, 0>>,execCount |-> <<1, 1>>,jobsKind |-> "user",mutex |-> 0,hjVer |-> <<0, 0>>,started |-> TRUE,wpc |-> <<"L0", "L0">>,jobVer |-> 1,prog |-> <<<<"pause">>, <<"resume">>, <<"resize", 1>>, <<"run", 0, 1, 0>>, <<"pause">>, <<"stop">>>>,resVer |-> <<1, 1>>,size |-> 2,cpc |-> "Wl",pcount |-> 0,nthreads |-> 2,jobNonNull |-> <<TRUE, TRUE>>,callerSeen |-> <<0, 0>>,dup |-> FALSE,cvWait |-> {},cstack |-> <<"B2", "idle">>]),
    ([seenVer |-> <<1, 1>>,paused |-> FALSE,stopped |-> FALSE,race |-> FALSE,ci |-> 3,hasJob |-> <<0, 0>>,execCount |-> <<1, 1>>,jobsKind |-> "user",mutex |-> 0,hjVer |-> <<0, 0>>,started |-> TRUE,wpc |-> <<"L0", "L0">>,jobVer |-> 1,prog |-> <<<<"pause">>, <<"resume">>, <<"resize", 1>>, <<"run", 0, 1, 0>>, <<"pause">>, <<"stop">>>>,resVer |-> <<1, 1>>,size |-> 2,cpc |-> "B2",pcount |-> 0,nthreads |-> 2,jobNonNull |-> <<TRUE, TRUE>>,callerSeen |-> <<0, 0>>,dup |-> FALSE,cvWait |-> {},cstack |-> <<"idle">>]),
    ([seenVer |-> <<1, 1>>,paused |-> FALSE,stopped |-> FALSE,race |-> TRUE,ci |-> 3,hasJob |-> <<0, 0>>,execCount |-> <<1, 1>>,jobsKind |-> "none",mutex |-> 0,hjVer |-> <<0, 0>>,started |-> TRUE,wpc |-> <<"L0", "L0">>,jobVer |-> 2,prog |-> <<<<"pause">>, <<"resume">>, <<"resize", 1>>, <<"run", 0, 1, 0>>, <<"pause">>, <<"stop">>>>,resVer |-> <<1, 1>>,size |-> 2,cpc |-> "idle",pcount |-> 0,nthreads |-> 2,jobNonNull |-> <<TRUE, TRUE>>,callerSeen |-> <<0, 0>>,dup |-> FALSE,cvWait |-> {},cstack |-> <<>>])
    >>
----


=============================================================================

---- CONFIG MCThreadPool_TTrace_1790867964 ----
CONSTANTS
    MaxW = 2
    InitSize = 1
    Program <- ProgA
    RelPublish = FALSE
    AcqWorker = FALSE
    RelDone = FALSE
    AcqWait = FALSE
    LockedNotify = TRUE
    SpuriousWake = FALSE

INVARIANT
    _inv

CHECK_DEADLOCK
    \* CHECK_DEADLOCK off because of PROPERTY or INVARIANT above.
    FALSE

INIT
    _init

NEXT
    _next

CONSTANT
    _TETrace <- _trace

ALIAS
    _expression
=============================================================================
\* Generated on Thu Oct 01 15:19:26 UTC 2026