CONSTANTS
  NNodes = 6
  EdgeEnds <- WheelEdges
  Levels <- L123
  MaxLow = 3
  Variant = "code"
SPECIFICATION Spec
INVARIANT TypeOK
INVARIANT Acyclic
INVARIANT NothingForgotten
INVARIANT Result
PROPERTY Termination
CHECK_DEADLOCK FALSE
