CONSTANTS
  N = 5
  MaxRec = 1
  Algo = "dfs_bottomup"
SPECIFICATION Spec
INVARIANTS DfsOK BfsOK Bounded ContigOK
PROPERTY Terminates
CHECK_DEADLOCK FALSE
