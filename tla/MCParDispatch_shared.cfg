CONSTANTS
  N = 6
  T = 2
  SharedScratch = TRUE
  Levels <- L6
  Recv <- R6
  Barrier = TRUE
  MinLevel = 0
SPECIFICATION Spec
INVARIANTS RouterEqualsSequential KernelAfterReceivers KernelExactlyOnce
PROPERTY Terminates
CHECK_DEADLOCK FALSE
