CONSTANTS
  MaxW = 2
  InitSize = 10
  Program <- ProgD
  RelPublish = TRUE
  AcqWorker = TRUE
  RelDone = TRUE
  AcqWait = TRUE
  LockedNotify = TRUE
SPECIFICATION FairSpec
INVARIANTS NoDataRace ExactlyOnce TypeOK MutexOK
PROPERTY Termination
CHECK_DEADLOCK FALSE
