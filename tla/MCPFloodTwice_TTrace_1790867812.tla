---- MODULE MCPFloodTwice_TTrace_1790867812 ----
EXTENDS MCPFloodTwice, Sequences, TLCExt, Toolbox, Naturals, TLC

_expression ==
    LET MCPFloodTwice_TEExpression == INSTANCE MCPFloodTwice_TEExpression
    IN MCPFloodTwice_TEExpression!expression
----

_trace ==
    LET MCPFloodTwice_TETrace == INSTANCE MCPFloodTwice_TETrace
    IN MCPFloodTwice_TETrace!trace
----

_inv ==
    ~(
        TLCGet("level") = Len(_TETrace)
        /\
        elevIn = ((0 :> 0 @@ 1 :> 0 @@ 2 :> 0 @@ 3 :> 0 @@ 4 :> 7 @@ 5 :> 0))
        /\
        openA = ({})
        /\
        openB = ({})
        /\
        elevA = ((0 :> 0 @@ 1 :> 1 @@ 2 :> 2 @@ 3 :> 1 @@ 4 :> 7 @@ 5 :> 0))
        /\
        bl = ({0, 5})
        /\
        doneA = (TRUE)
        /\
        elevB = ((0 :> 0 @@ 1 :> 1 @@ 2 :> 1 @@ 3 :> 2 @@ 4 :> 7 @@ 5 :> 0))
        /\
        closedB = ({0, 1, 2, 3, 4, 5})
        /\
        pitA = (<<>>)
        /\
        pitB = (<<>>)
        /\
        closedA = ({0, 1, 2, 3, 4, 5})
        /\
        doneB = (TRUE)
        /\
        mask = ({})
    )
----

_init ==
    /\ elevIn = _TETrace[1].elevIn
    /\ bl = _TETrace[1].bl
    /\ doneA = _TETrace[1].doneA
    /\ doneB = _TETrace[1].doneB
    /\ openA = _TETrace[1].openA
    /\ openB = _TETrace[1].openB
    /\ mask = _TETrace[1].mask
    /\ elevA = _TETrace[1].elevA
    /\ elevB = _TETrace[1].elevB
    /\ pitA = _TETrace[1].pitA
    /\ pitB = _TETrace[1].pitB
    /\ closedA = _TETrace[1].closedA
    /\ closedB = _TETrace[1].closedB
----

_next ==
    /\ \E i,j \in DOMAIN _TETrace:
        /\ \/ /\ j = i + 1
              /\ i = TLCGet("level")
        /\ elevIn  = _TETrace[i].elevIn
        /\ elevIn' = _TETrace[j].elevIn
        /\ bl  = _TETrace[i].bl
        /\ bl' = _TETrace[j].bl
        /\ doneA  = _TETrace[i].doneA
        /\ doneA' = _TETrace[j].doneA
        /\ doneB  = _TETrace[i].doneB
        /\ doneB' = _TETrace[j].doneB
        /\ openA  = _TETrace[i].openA
        /\ openA' = _TETrace[j].openA
        /\ openB  = _TETrace[i].openB
        /\ openB' = _TETrace[j].openB
        /\ mask  = _TETrace[i].mask
        /\ mask' = _TETrace[j].mask
        /\ elevA  = _TETrace[i].elevA
        /\ elevA' = _TETrace[j].elevA
        /\ elevB  = _TETrace[i].elevB
        /\ elevB' = _TETrace[j].elevB
        /\ pitA  = _TETrace[i].pitA
        /\ pitA' = _TETrace[j].pitA
        /\ pitB  = _TETrace[i].pitB
        /\ pitB' = _TETrace[j].pitB
        /\ closedA  = _TETrace[i].closedA
        /\ closedA' = _TETrace[j].closedA
        /\ closedB  = _TETrace[i].closedB
        /\ closedB' = _TETrace[j].closedB

\* Uncomment the ASSUME below to write the states of the error trace
\* to the given file in Json format. Note that you can pass any tuple
\* to `JsonSerialize`. For example, a sub-sequence of _TETrace.
    \* ASSUME
    \*     LET J == INSTANCE Json
    \*         IN J!JsonSerialize("MCPFloodTwice_TTrace_1790867812.json", _TETrace)

=============================================================================

 Note that you can extract this module `MCPFloodTwice_TEExpression`
  to a dedicated file to reuse `expression` (the module in the 
  dedicated `MCPFloodTwice_TEExpression.tla` file takes precedence 
  over the module `MCPFloodTwice_TEExpression` below).

---- MODULE MCPFloodTwice_TEExpression ----
EXTENDS MCPFloodTwice, Sequences, TLCExt, Toolbox, Naturals, TLC

expression == 
    [
        \* To hide variables of the `MCPFloodTwice` spec from the error trace,
        \* remove the variables below.  The trace will be written in the order
        \* of the fields of this record.
        elevIn |-> elevIn
        ,bl |-> bl
        ,doneA |-> doneA
        ,doneB |-> doneB
        ,openA |-> openA
        ,openB |-> openB
        ,mask |-> mask
        ,elevA |-> elevA
        ,elevB |-> elevB
        ,pitA |-> pitA
        ,pitB |-> pitB
        ,closedA |-> closedA
        ,closedB |-> closedB
        
        \* Put additional constant-, state-, and action-level expressions here:
        \* ,_stateNumber |-> _TEPosition
        \* ,_elevInUnchanged |-> elevIn = elevIn'
        
        \* Format the `elevIn` variable as Json value.
        \* ,_elevInJson |->
        \*     LET J == INSTANCE Json
        \*     IN J!ToJson(elevIn)
        
        \* Lastly, you may build expressions over arbitrary sets of states by
        \* leveraging the _TETrace operator.  For example, this is how to
        \* count the number of times a spec variable changed up to the current
        \* state in the trace.
        \* ,_elevInModCount |->
        \*     LET F[s \in DOMAIN _TETrace] ==
        \*         IF s = 1 THEN 0
        \*         ELSE IF _TETrace[s].elevIn # _TETrace[s-1].elevIn
        \*             THEN 1 + F[s-1] ELSE F[s-1]
        \*     IN F[_TEPosition - 1]
    ]

=============================================================================



Parsing and semantic processing can take forever if the trace below is long.
 In this case, it is advised to uncomment the module below to deserialize the
 trace from a generated binary file.

\*
\*---- MODULE MCPFloodTwice_TETrace ----
\*EXTENDS MCPFloodTwice, IOUtils, TLC
\*
\*trace == IODeserialize("MCPFloodTwice_TTrace_1790867812.bin", TRUE)
\*
\*=============================================================================
\*

---- MODULE MCPFloodTwice_TETrace ----
EXTENDS MCPFloodTwice, TLC

trace == 
    <<
    ([elevIn |-> (0 :> 0 @@ 1 :> 0 @@ 2 :> 0 @@ 3 :> 0 @@ 4 :> 7 @@ 5 :> 0),openA |-> {0, 5},openB |-> {0, 5},elevA |-> (0 :> 0 @@ 1 :> 0 @@ 2 :> 0 @@ 3 :> 0 @@ 4 :> 7 @@ 5 :> 0),bl |-> {0, 5},doneA |-> FALSE,elevB |-> (0 :> 0 @@ 1 :> 0 @@ 2 :> 0 @@ 3 :> 0 @@ 4 :> 7 @@ 5 :> 0),closedB |-> {0, 5},pitA |-> <<>>,pitB |-> <<>>,closedA |-> {0, 5},doneB |-> FALSE,mask |-> {}]),
    ([elevIn |-> (0 :> 0 @@ 1 :> 0 @@ 2 :> 0 @@ 3 :> 0 @@ 4 :> 7 @@ 5 :> 0),openA |-> {4, 5},openB |-> {0, 5},elevA |-> (0 :> 0 @@ 1 :> 1 @@ 2 :> 0 @@ 3 :> 1 @@ 4 :> 7 @@ 5 :> 0),bl |-> {0, 5},doneA |-> FALSE,elevB |-> (0 :> 0 @@ 1 :> 0 @@ 2 :> 0 @@ 3 :> 0 @@ 4 :> 7 @@ 5 :> 0),closedB |-> {0, 5},pitA |-> <<1, 3>>,pitB |-> <<>>,closedA |-> {0, 1, 3, 4, 5},doneB |-> FALSE,mask |-> {}]),
    ([elevIn |-> (0 :> 0 @@ 1 :> 0 @@ 2 :> 0 @@ 3 :> 0 @@ 4 :> 7 @@ 5 :> 0),openA |-> {4, 5},openB |-> {0, 5},elevA |-> (0 :> 0 @@ 1 :> 1 @@ 2 :> 2 @@ 3 :> 1 @@ 4 :> 7 @@ 5 :> 0),bl |-> {0, 5},doneA |-> FALSE,elevB |-> (0 :> 0 @@ 1 :> 0 @@ 2 :> 0 @@ 3 :> 0 @@ 4 :> 7 @@ 5 :> 0),closedB |-> {0, 5},pitA |-> <<3, 2>>,pitB |-> <<>>,closedA |-> {0, 1, 2, 3, 4, 5},doneB |-> FALSE,mask |-> {}]),
    ([elevIn |-> (0 :> 0 @@ 1 :> 0 @@ 2 :> 0 @@ 3 :> 0 @@ 4 :> 7 @@ 5 :> 0),openA |-> {4, 5},openB |-> {0, 5},elevA |-> (0 :> 0 @@ 1 :> 1 @@ 2 :> 2 @@ 3 :> 1 @@ 4 :> 7 @@ 5 :> 0),bl |-> {0, 5},doneA |-> FALSE,elevB |-> (0 :> 0 @@ 1 :> 0 @@ 2 :> 0 @@ 3 :> 0 @@ 4 :> 7 @@ 5 :> 0),closedB |-> {0, 5},pitA |-> <<2>>,pitB |-> <<>>,closedA |-> {0, 1, 2, 3, 4, 5},doneB |-> FALSE,mask |-> {}]),
    ([elevIn |-> (0 :> 0 @@ 1 :> 0 @@ 2 :> 0 @@ 3 :> 0 @@ 4 :> 7 @@ 5 :> 0),openA |-> {4, 5},openB |-> {0, 5},elevA |-> (0 :> 0 @@ 1 :> 1 @@ 2 :> 2 @@ 3 :> 1 @@ 4 :> 7 @@ 5 :> 0),bl |-> {0, 5},doneA |-> FALSE,elevB |-> (0 :> 0 @@ 1 :> 0 @@ 2 :> 0 @@ 3 :> 0 @@ 4 :> 7 @@ 5 :> 0),closedB |-> {0, 5},pitA |-> <<>>,pitB |-> <<>>,closedA |-> {0, 1, 2, 3, 4, 5},doneB |-> FALSE,mask |-> {}]),
    ([elevIn |-> (0 :> 0 @@ 1 :> 0 @@ 2 :> 0 @@ 3 :> 0 @@ 4 :> 7 @@ 5 :> 0),openA |-> {4},openB |-> {0, 5},elevA |-> (0 :> 0 @@ 1 :> 1 @@ 2 :> 2 @@ 3 :> 1 @@ 4 :> 7 @@ 5 :> 0),bl |-> {0, 5},doneA |-> FALSE,elevB |-> (0 :> 0 @@ 1 :> 0 @@ 2 :> 0 @@ 3 :> 0 @@ 4 :> 7 @@ 5 :> 0),closedB |-> {0, 5},pitA |-> <<>>,pitB |-> <<>>,closedA |-> {0, 1, 2, 3, 4, 5},doneB |-> FALSE,mask |-> {}]),
    ([elevIn |-> (0 :> 0 @@ 1 :> 0 @@ 2 :> 0 @@ 3 :> 0 @@ 4 :> 7 @@ 5 :> 0),openA |-> {},openB |-> {0, 5},elevA |-> (0 :> 0 @@ 1 :> 1 @@ 2 :> 2 @@ 3 :> 1 @@ 4 :> 7 @@ 5 :> 0),bl |-> {0, 5},doneA |-> FALSE,elevB |-> (0 :> 0 @@ 1 :> 0 @@ 2 :> 0 @@ 3 :> 0 @@ 4 :> 7 @@ 5 :> 0),closedB |-> {0, 5},pitA |-> <<>>,pitB |-> <<>>,closedA |-> {0, 1, 2, 3, 4, 5},doneB |-> FALSE,mask |-> {}]),
    ([elevIn |-> (0 :> 0 @@ 1 :> 0 @@ 2 :> 0 @@ 3 :> 0 @@ 4 :> 7 @@ 5 :> 0),openA |-> {},openB |-> {0, 5},elevA |-> (0 :> 0 @@ 1 :> 1 @@ 2 :> 2 @@ 3 :> 1 @@ 4 :> 7 @@ 5 :> 0),bl |-> {0, 5},doneA |-> TRUE,elevB |-> (0 :> 0 @@ 1 :> 0 @@ 2 :> 0 @@ 3 :> 0 @@ 4 :> 7 @@ 5 :> 0),closedB |-> {0, 5},pitA |-> <<>>,pitB |-> <<>>,closedA |-> {0, 1, 2, 3, 4, 5},doneB |-> FALSE,mask |-> {}]),
    ([elevIn |-> (0 :> 0 @@ 1 :> 0 @@ 2 :> 0 @@ 3 :> 0 @@ 4 :> 7 @@ 5 :> 0),openA |-> {},openB |-> {0, 4},elevA |-> (0 :> 0 @@ 1 :> 1 @@ 2 :> 2 @@ 3 :> 1 @@ 4 :> 7 @@ 5 :> 0),bl |-> {0, 5},doneA |-> TRUE,elevB |-> (0 :> 0 @@ 1 :> 1 @@ 2 :> 1 @@ 3 :> 0 @@ 4 :> 7 @@ 5 :> 0),closedB |-> {0, 1, 2, 4, 5},pitA |-> <<>>,pitB |-> <<1, 2>>,closedA |-> {0, 1, 2, 3, 4, 5},doneB |-> FALSE,mask |-> {}]),
    ([elevIn |-> (0 :> 0 @@ 1 :> 0 @@ 2 :> 0 @@ 3 :> 0 @@ 4 :> 7 @@ 5 :> 0),openA |-> {},openB |-> {0, 4},elevA |-> (0 :> 0 @@ 1 :> 1 @@ 2 :> 2 @@ 3 :> 1 @@ 4 :> 7 @@ 5 :> 0),bl |-> {0, 5},doneA |-> TRUE,elevB |-> (0 :> 0 @@ 1 :> 1 @@ 2 :> 1 @@ 3 :> 2 @@ 4 :> 7 @@ 5 :> 0),closedB |-> {0, 1, 2, 3, 4, 5},pitA |-> <<>>,pitB |-> <<2, 3>>,closedA |-> {0, 1, 2, 3, 4, 5},doneB |-> FALSE,mask |-> {}]),
    ([elevIn |-> (0 :> 0 @@ 1 :> 0 @@ 2 :> 0 @@ 3 :> 0 @@ 4 :> 7 @@ 5 :> 0),openA |-> {},openB |-> {0, 4},elevA |-> (0 :> 0 @@ 1 :> 1 @@ 2 :> 2 @@ 3 :> 1 @@ 4 :> 7 @@ 5 :> 0),bl |-> {0, 5},doneA |-> TRUE,elevB |-> (0 :> 0 @@ 1 :> 1 @@ 2 :> 1 @@ 3 :> 2 @@ 4 :> 7 @@ 5 :> 0),closedB |-> {0, 1, 2, 3, 4, 5},pitA |-> <<>>,pitB |-> <<3>>,closedA |-> {0, 1, 2, 3, 4, 5},doneB |-> FALSE,mask |-> {}]),
    ([elevIn |-> (0 :> 0 @@ 1 :> 0 @@ 2 :> 0 @@ 3 :> 0 @@ 4 :> 7 @@ 5 :> 0),openA |-> {},openB |-> {0, 4},elevA |-> (0 :> 0 @@ 1 :> 1 @@ 2 :> 2 @@ 3 :> 1 @@ 4 :> 7 @@ 5 :> 0),bl |-> {0, 5},doneA |-> TRUE,elevB |-> (0 :> 0 @@ 1 :> 1 @@ 2 :> 1 @@ 3 :> 2 @@ 4 :> 7 @@ 5 :> 0),closedB |-> {0, 1, 2, 3, 4, 5},pitA |-> <<>>,pitB |-> <<>>,closedA |-> {0, 1, 2, 3, 4, 5},doneB |-> FALSE,mask |-> {}]),
    ([elevIn |-> (0 :> 0 @@ 1 :> 0 @@ 2 :> 0 @@ 3 :> 0 @@ 4 :> 7 @@ 5 :> 0),openA |-> {},openB |-> {4},elevA |-> (0 :> 0 @@ 1 :> 1 @@ 2 :> 2 @@ 3 :> 1 @@ 4 :> 7 @@ 5 :> 0),bl |-> {0, 5},doneA |-> TRUE,elevB |-> (0 :> 0 @@ 1 :> 1 @@ 2 :> 1 @@ 3 :> 2 @@ 4 :> 7 @@ 5 :> 0),closedB |-> {0, 1, 2, 3, 4, 5},pitA |-> <<>>,pitB |-> <<>>,closedA |-> {0, 1, 2, 3, 4, 5},doneB |-> FALSE,mask |-> {}]),
    ([elevIn |-> (0 :> 0 @@ 1 :> 0 @@ 2 :> 0 @@ 3 :> 0 @@ 4 :> 7 @@ 5 :> 0),openA |-> {},openB |-> {},elevA |-> (0 :> 0 @@ 1 :> 1 @@ 2 :> 2 @@ 3 :> 1 @@ 4 :> 7 @@ 5 :> 0),bl |-> {0, 5},doneA |-> TRUE,elevB |-> (0 :> 0 @@ 1 :> 1 @@ 2 :> 1 @@ 3 :> 2 @@ 4 :> 7 @@ 5 :> 0),closedB |-> {0, 1, 2, 3, 4, 5},pitA |-> <<>>,pitB |-> <<>>,closedA |-> {0, 1, 2, 3, 4, 5},doneB |-> FALSE,mask |-> {}]),
    ([elevIn |-> (0 :> 0 @@ 1 :> 0 @@ 2 :> 0 @@ 3 :> 0 @@ 4 :> 7 @@ 5 :> 0),openA |-> {},openB |-> {},elevA |-> (0 :> 0 @@ 1 :> 1 @@ 2 :> 2 @@ 3 :> 1 @@ 4 :> 7 @@ 5 :> 0),bl |-> {0, 5},doneA |-> TRUE,elevB |-> (0 :> 0 @@ 1 :> 1 @@ 2 :> 1 @@ 3 :> 2 @@ 4 :> 7 @@ 5 :> 0),closedB |-> {0, 1, 2, 3, 4, 5},pitA |-> <<>>,pitB |-> <<>>,closedA |-> {0, 1, 2, 3, 4, 5},doneB |-> TRUE,mask |-> {}])
    >>
----


=============================================================================

---- CONFIG MCPFloodTwice_TTrace_1790867812 ----
CONSTANTS
    D <- Queen23
    Levels = { 0 , 1 }
    BLSets <- BL23
    Masks <- MNone
    TotalOrder = FALSE

INVARIANT
    _inv

CHECK_DEADLOCK
    \* CHECK_DEADLOCK off because of PROPERTY or INVARIANT above.
    FALSE

INIT
    _init

NEXT
    _next

CONSTANT
    _TETrace <- _trace

ALIAS
    _expression
=============================================================================
\* Generated on Thu Oct 01 15:17:10 UTC 2026