CONSTANTS
  MaxSide = 3
SPECIFICATION Spec
INVARIANTS AcceptedIffPaired Neighbourhoods StatusLaws
CHECK_DEADLOCK FALSE
