CONSTANTS
  MaxW = 2
  InitSize = 2
  Program <- ProgC
  RelPublish = TRUE
  AcqWorker = TRUE
  RelDone = TRUE
  AcqWait = TRUE
  LockedNotify = TRUE
  SpuriousWake = FALSE
SPECIFICATION FairSpec
INVARIANTS NoDataRace ExactlyOnce TypeOK MutexOK
PROPERTY Termination
CHECK_DEADLOCK FALSE
