CONSTANTS
  N = 4
  MaxRec = 1
  Algo = "basins"
  Order = "contiguous"
  Variant = "code"
  Sources <- S_0
SPECIFICATION Spec
INVARIANTS RefinesC03 RefinesC19
PROPERTY Terminates
CHECK_DEADLOCK FALSE
