------------------------------- MODULE MCGrid -------------------------------
(* Spec-level theorems of the Grid module, checked by TLC on EVERY raster /   *)
(* profile descriptor of the bounded family (one initial state each):        *)
(*  C07  the neighbour relation is symmetric (as bags), its size follows the *)
(*       node's position, every distance is the one-step length, wrap-around *)
(*       entries exist only across looped axes;                              *)
(*  C17  status laws: core inside, border status on non-corner border nodes, *)
(*       the stronger status at corners, a grid is accepted iff looped       *)
(*       borders come in opposite pairs; filtered iteration is a partition.  *)
EXTENDS Grid
CONSTANTS MaxSide
St == {CORE, FIXED_VALUE, FIXED_GRADIENT, LOOPED}
Rasters == {[t |-> "raster", conn |-> c, nr |-> a, nc |-> b, dy |-> y, dx |-> x, bs |-> s] :
               c \in {"rook", "queen", "bishop"}, a \in 2..MaxSide, b \in 2..MaxSide,
               y \in {1, 2}, x \in {1, 3}, s \in St \X St \X St \X St}
Profiles == {[t |-> "profile", n |-> a, dx |-> x, bs |-> s] : a \in 2..(MaxSide + 2), x \in {1, 2}, s \in St \X St}
VARIABLE d
Init == d \in Rasters \cup Profiles
Next == UNCHANGED d
Spec == Init /\ [][Next]_d

AcceptedIffPaired == GridAccepted(d) = BoundsOK(d)
OneStep(e) == IF d.t = "profile" THEN e.dsq = d.dx * d.dx
              ELSE e.dsq \in {d.dy * d.dy, d.dx * d.dx, d.dy * d.dy + d.dx * d.dx}
Neighbourhoods == BoundsOK(d) =>
   /\ NeighSymmetric(d)
   /\ \A i \in Nodes(d) : \A k \in DOMAIN NeighSeq(d, i) : OneStep(NeighSeq(d, i)[k]) /\ NeighSeq(d, i)[k].j \in Nodes(d)
   /\ d.t = "raster" => \A i \in Nodes(d) : Len(NeighSeq(d, i)) = RasterDegree(d, i)
   /\ d.t = "profile" => \A i \in Nodes(d) : Len(NeighSeq(d, i)) = (IF HLooped(d) \/ (i > 0 /\ i < d.n - 1) THEN 2 ELSE 1)
   \* without looped borders no entry jumps by more than one row / column
   /\ (d.t = "raster" /\ ~HLooped(d) /\ ~VLooped(d)) =>
        \A i \in Nodes(d) : \A k \in DOMAIN NeighSeq(d, i) : LET j == NeighSeq(d, i)[k].j IN
            Abs((i \div d.nc) - (j \div d.nc)) <= 1 /\ Abs((i % d.nc) - (j % d.nc)) <= 1
StatusLaws == BoundsOK(d) =>
   /\ \A i \in Nodes(d) : StatusArray(d)[i] \in St
   /\ d.t = "raster" => \A i \in Nodes(d) :
        LET r == i \div d.nc  c == i % d.nc
            onrow == r = 0 \/ r = d.nr - 1   oncol == c = 0 \/ c = d.nc - 1
        IN /\ (~onrow /\ ~oncol) => StatusArray(d)[i] = CORE
           /\ (onrow /\ ~oncol) => StatusArray(d)[i] = (IF r = 0 THEN d.bs[3] ELSE d.bs[4])
           /\ (oncol /\ ~onrow) => StatusArray(d)[i] = (IF c = 0 THEN d.bs[1] ELSE d.bs[2])
           /\ (onrow /\ oncol) => LET a == IF r = 0 THEN d.bs[3] ELSE d.bs[4]  b == IF c = 0 THEN d.bs[1] ELSE d.bs[2]
                                  IN StatusArray(d)[i] \in {a, b} /\ Priority(StatusArray(d)[i]) = Max2(Priority(a), Priority(b))
   \* the four filtered iterations partition the nodes, each in increasing order
   /\ UNION {RangeS(FilteredSeq(d, s)) : s \in St} = Nodes(d)
   /\ \A s \in St : \A k \in 1..(Len(FilteredSeq(d, s)) - 1) : FilteredSeq(d, s)[k] < FilteredSeq(d, s)[k + 1]
   /\ DefaultBaseLevels(d) = {i \in Nodes(d) : StatusArray(d)[i] = FIXED_VALUE}
=============================================================================
