---------------------------- MODULE PFloodTwice ----------------------------
(* C09 at design level: two complete runs of the priority flood (PFlood) on *)
(* the same input, each resolving its own queue ties, must produce the same *)
(* surface.  With TotalOrder = FALSE (heap compares elevation only, seeded  *)
(* from an unordered set) TLC finds two runs that differ; with the total    *)
(* (elevation, index) order the invariant holds.                            *)
EXTENDS Naturals, Sequences, FiniteSets, TLC
CONSTANTS D, Levels, BLSets, Masks, TotalOrder
VARIABLES elevIn, bl, mask, elevA, closedA, openA, pitA, doneA, elevB, closedB, openB, pitB, doneB
A == INSTANCE PFlood WITH elev <- elevA, closed <- closedA, open <- openA, pit <- pitA, done <- doneA
B == INSTANCE PFlood WITH elev <- elevB, closed <- closedB, open <- openB, pit <- pitB, done <- doneB
varsA == <<elevA, closedA, openA, pitA, doneA>>
varsB == <<elevB, closedB, openB, pitB, doneB>>
TInit == A!PInit /\ B!PInit
\* the runs are independent: A first, then B
TNext == \/ (~doneA /\ A!PNext /\ UNCHANGED varsB)
         \/ (doneA /\ B!PNext /\ UNCHANGED varsA)
TSpec == TInit /\ [][TNext]_<<elevIn, bl, mask, varsA, varsB>>
Deterministic == (doneA /\ doneB) => elevA = elevB
=============================================================================
