CONSTANTS
  N = 4
  MaxRec = 2
  Levels = {0, 1, 2, 3}
SPECIFICATION Spec
INVARIANTS RefinesC12 NonNegativeUnlessOvershoot
PROPERTY Terminates
CHECK_DEADLOCK FALSE
