----------------------------- MODULE ThreadPool -----------------------------
(* L2 model of fastscapelib::thread_pool (utils/impl/thread_pool_inl.hpp):  *)
(* one action per atomic access, mutex / condition-variable operation and   *)
(* spin iteration, for the caller thread and every worker.                  *)
(*                                                                          *)
(* Caller programs follow the grammar the library uses:                     *)
(*    (resume ; resize k ; run* ; pause)* ; stop                            *)
(* given as a sequence of <<"resume">>, <<"resize", k>>,                    *)
(* <<"run", first, last, min>>, <<"pause">>, <<"stop">>.                    *)
(*                                                                          *)
(* Happens-before is modelled with version ghosts: every store of a job     *)
(* flag carries the writer's data version iff it is a release; a load joins *)
(* it iff it is an acquire; thread creation and join synchronise.  A worker *)
(* reading the job vector with seenVer < jobVer, or the caller reading      *)
(* results / destroying the jobs with callerSeen < resVer, is a data race.  *)
(*                                                                          *)
(* Properties (C11): ExactlyOnce, NoDataRace (invariants), Termination      *)
(* (liveness under weak fairness of every thread), no deadlock.             *)
EXTENDS Naturals, Sequences, FiniteSets, TLC, Blocks

CONSTANTS MaxW,         \* largest pool size
          InitSize,     \* size given to the constructor
          Program,      \* caller program (see above)
          RelPublish,   \* run_tasks: has_job.store(1) is a release
          AcqWorker,    \* worker: has_job.load() is an acquire
          RelDone,      \* worker: has_job.store(0) is a release
          AcqWait,      \* was_empty: has_job.load() is an acquire
          LockedNotify, \* resume() takes the mutex before notify_all
          SpuriousWake  \* condition-variable waits may return without a notification (allowed by C++)

W == 1..MaxW
CALLER == 99

VARIABLES cpc, cstack, ci, prog, size, started, paused,       \* caller-private
          stopped, hasJob, hjVer, jobsKind, jobNonNull, jobVer, \* shared flags and job vector
          pcount, mutex, cvWait,                                \* pause handshake
          wpc, nthreads,                                        \* workers
          seenVer, resVer, callerSeen, execCount, race, dup     \* ghosts

vars == <<cpc, cstack, ci, prog, size, started, paused, stopped, hasJob, hjVer, jobsKind, jobNonNull, jobVer,
          pcount, mutex, cvWait, wpc, nthreads, seenVer, resVer, callerSeen, execCount, race, dup>>

InitWith(p, sz) ==
  /\ cpc = "idle" /\ cstack = <<>> /\ ci = 1 /\ prog = p
  /\ size = sz /\ started = FALSE /\ paused = FALSE /\ stopped = FALSE
  /\ hasJob = [i \in W |-> 0] /\ hjVer = [i \in W |-> 0]
  /\ jobsKind = "none" /\ jobNonNull = [i \in W |-> FALSE] /\ jobVer = 0
  /\ pcount = 0 /\ mutex = 0 /\ cvWait = {}
  /\ wpc = [i \in W |-> "none"] /\ nthreads = 0
  /\ seenVer = [i \in W |-> 0] /\ resVer = [i \in W |-> 0] /\ callerSeen = [i \in W |-> 0]
  /\ execCount = [i \in W |-> 0]
  /\ race = FALSE /\ dup = FALSE
Init == InitWith(Program, InitSize)
\* the same as an action (trace validation: a new pool object)
ResetTo(p, sz) ==
  /\ cpc' = "idle" /\ cstack' = <<>> /\ ci' = 1 /\ prog' = p
  /\ size' = sz /\ started' = FALSE /\ paused' = FALSE /\ stopped' = FALSE
  /\ hasJob' = [i \in W |-> 0] /\ hjVer' = [i \in W |-> 0]
  /\ jobsKind' = "none" /\ jobNonNull' = [i \in W |-> FALSE] /\ jobVer' = 0
  /\ pcount' = 0 /\ mutex' = 0 /\ cvWait' = {}
  /\ wpc' = [i \in W |-> "none"] /\ nthreads' = 0
  /\ seenVer' = [i \in W |-> 0] /\ resVer' = [i \in W |-> 0] /\ callerSeen' = [i \in W |-> 0]
  /\ execCount' = [i \in W |-> 0]
  /\ race' = FALSE /\ dup' = FALSE

Call(target, ret) == /\ cpc' = target /\ cstack' = <<ret>> \o cstack
Return == /\ cpc' = Head(cstack) /\ cstack' = Tail(cstack)

UNCH_W == UNCHANGED <<wpc, seenVer, resVer, execCount>>

\* ------------------------------------------------------------------ caller
Idle ==
  /\ cpc = "idle"
  /\ IF prog = <<>> THEN cpc' = "finished" /\ UNCHANGED <<cstack, prog>>
     ELSE LET op == Head(prog) IN
          /\ prog' = Tail(prog)
          /\ CASE op[1] = "resume" -> Call("R0", "idle")
               [] op[1] = "resize" -> Call("Z0", "idle")
               [] op[1] = "run"    -> Call("B0", "idle")
               [] op[1] = "pause"  -> Call("P0", "idle")
               [] op[1] = "stop"   -> Call("S0", "idle")
  /\ ci' = IF prog # <<>> /\ Head(prog)[1] = "resize" THEN Head(prog)[2]
           ELSE IF prog # <<>> /\ Head(prog)[1] = "run"
                  THEN NumBlocks(Head(prog)[2], Head(prog)[3], size, Head(prog)[4]) ELSE ci
  /\ UNCHANGED <<size, started, paused, stopped, hasJob, hjVer, jobsKind, jobNonNull, jobVer, pcount, mutex, cvWait, nthreads, callerSeen, race, dup>>
  /\ UNCH_W

\* resume(): if (m_paused) { [lock; unlock;] notify_all; m_paused = false; wait(); }
R0 == /\ cpc = "R0"
      /\ IF paused THEN cpc' = (IF LockedNotify THEN "R1lock" ELSE "R1") /\ UNCHANGED cstack ELSE Return
      /\ UNCHANGED <<ci, prog, size, started, paused, stopped, hasJob, hjVer, jobsKind, jobNonNull, jobVer, pcount, mutex, cvWait, nthreads, callerSeen, race, dup>> /\ UNCH_W
R1lock == /\ cpc = "R1lock" /\ mutex = 0 /\ mutex' = CALLER /\ cpc' = "R1unlock"
          /\ UNCHANGED <<cstack, ci, prog, size, started, paused, stopped, hasJob, hjVer, jobsKind, jobNonNull, jobVer, pcount, cvWait, nthreads, callerSeen, race, dup>> /\ UNCH_W
R1unlock == /\ cpc = "R1unlock" /\ mutex' = 0 /\ cpc' = "R1"
            /\ UNCHANGED <<cstack, ci, prog, size, started, paused, stopped, hasJob, hjVer, jobsKind, jobNonNull, jobVer, pcount, cvWait, nthreads, callerSeen, race, dup>> /\ UNCH_W
R1 == /\ cpc = "R1"          \* notify_all: every waiting worker becomes runnable (must re-acquire the mutex)
      /\ wpc' = [i \in W |-> IF i \in cvWait THEN "K3" ELSE wpc[i]]
      /\ cvWait' = {}
      /\ cpc' = "R2"
      /\ UNCHANGED <<cstack, ci, prog, size, started, paused, stopped, hasJob, hjVer, jobsKind, jobNonNull, jobVer, pcount, mutex, nthreads, callerSeen, race, dup, seenVer, resVer, execCount>>
R2 == /\ cpc = "R2" /\ paused' = FALSE /\ Call("W0", "RET")
      /\ UNCHANGED <<ci, prog, size, started, stopped, hasJob, hjVer, jobsKind, jobNonNull, jobVer, pcount, mutex, cvWait, nthreads, callerSeen, race, dup>> /\ UNCH_W
RET == /\ cpc = "RET" /\ Return
       /\ UNCHANGED <<ci, prog, size, started, paused, stopped, hasJob, hjVer, jobsKind, jobNonNull, jobVer, pcount, mutex, cvWait, nthreads, callerSeen, race, dup>> /\ UNCH_W

\* wait(): while (!was_empty()) {} ; was_empty loads has_job[0..size) and stops at the first 1
W0 == /\ cpc = "W0" /\ ci' = 1 /\ cpc' = "Wl"
      /\ UNCHANGED <<cstack, prog, size, started, paused, stopped, hasJob, hjVer, jobsKind, jobNonNull, jobVer, pcount, mutex, cvWait, nthreads, callerSeen, race, dup>> /\ UNCH_W
WlDone == /\ cpc = "Wl" /\ ci > size /\ Return
          /\ UNCHANGED <<ci, prog, size, started, paused, stopped, hasJob, hjVer, jobsKind, jobNonNull, jobVer, pcount, mutex, cvWait, nthreads, callerSeen, race, dup>> /\ UNCH_W
WlLoad == /\ cpc = "Wl" /\ ci <= size
          /\ IF hasJob[ci] = 1 THEN ci' = 1 /\ UNCHANGED <<cpc, cstack, callerSeen>>
             ELSE /\ ci' = ci + 1 /\ UNCHANGED <<cpc, cstack>>
                  /\ callerSeen' = IF AcqWait /\ hjVer[ci] > callerSeen[ci] THEN [callerSeen EXCEPT ![ci] = hjVer[ci]] ELSE callerSeen
          /\ UNCHANGED <<prog, size, started, paused, stopped, hasJob, hjVer, jobsKind, jobNonNull, jobVer, pcount, mutex, cvWait, nthreads, race, dup>> /\ UNCH_W

\* run_tasks(): if (!started) start(); if (paused) resume(); store 1 in the flag of every non-null job
T0 == /\ cpc = "T0"
      /\ IF ~started THEN started' = TRUE /\ ci' = 1 /\ cpc' = "T0s" ELSE cpc' = "T1" /\ UNCHANGED <<started, ci>>
      /\ UNCHANGED <<cstack, prog, size, paused, stopped, hasJob, hjVer, jobsKind, jobNonNull, jobVer, pcount, mutex, cvWait, nthreads, callerSeen, race, dup>> /\ UNCH_W
T0sDone == /\ cpc = "T0s" /\ ci > size /\ cpc' = "T1"
           /\ UNCHANGED <<cstack, ci, prog, size, started, paused, stopped, hasJob, hjVer, jobsKind, jobNonNull, jobVer, pcount, mutex, cvWait, nthreads, callerSeen, race, dup>> /\ UNCH_W
T0sSpawn == /\ cpc = "T0s" /\ ci <= size      \* thread creation synchronises-with the start of the thread
            /\ wpc' = [wpc EXCEPT ![ci] = "L0"]
            /\ seenVer' = [seenVer EXCEPT ![ci] = jobVer]
            /\ nthreads' = ci /\ ci' = ci + 1
            /\ UNCHANGED <<cpc, cstack, prog, size, started, paused, stopped, hasJob, hjVer, jobsKind, jobNonNull, jobVer, pcount, mutex, cvWait, callerSeen, race, dup, resVer, execCount>>
T1 == /\ cpc = "T1"
      /\ IF paused THEN Call("R0", "T2i") ELSE cpc' = "T2i" /\ UNCHANGED cstack
      /\ UNCHANGED <<ci, prog, size, started, paused, stopped, hasJob, hjVer, jobsKind, jobNonNull, jobVer, pcount, mutex, cvWait, nthreads, callerSeen, race, dup>> /\ UNCH_W
T2i == /\ cpc = "T2i" /\ ci' = 1 /\ cpc' = "T2"
       /\ UNCHANGED <<cstack, prog, size, started, paused, stopped, hasJob, hjVer, jobsKind, jobNonNull, jobVer, pcount, mutex, cvWait, nthreads, callerSeen, race, dup>> /\ UNCH_W
T2Done == /\ cpc = "T2" /\ ci > size /\ Return
          /\ UNCHANGED <<ci, prog, size, started, paused, stopped, hasJob, hjVer, jobsKind, jobNonNull, jobVer, pcount, mutex, cvWait, nthreads, callerSeen, race, dup>> /\ UNCH_W
T2Skip == /\ cpc = "T2" /\ ci <= size /\ ~jobNonNull[ci] /\ ci' = ci + 1
          /\ UNCHANGED <<cpc, cstack, prog, size, started, paused, stopped, hasJob, hjVer, jobsKind, jobNonNull, jobVer, pcount, mutex, cvWait, nthreads, callerSeen, race, dup>> /\ UNCH_W
T2Store == /\ cpc = "T2" /\ ci <= size /\ jobNonNull[ci] /\ ci' = ci + 1
           /\ hasJob' = [hasJob EXCEPT ![ci] = 1]
           /\ hjVer' = [hjVer EXCEPT ![ci] = IF RelPublish THEN jobVer ELSE 0]
           /\ UNCHANGED <<cpc, cstack, prog, size, started, paused, stopped, jobsKind, jobNonNull, jobVer, pcount, mutex, cvWait, nthreads, callerSeen, race, dup>> /\ UNCH_W

\* pause(): if (!paused) { wait(); set_tasks(pause jobs); run_tasks(); paused = true; spin until count == size }
P0 == /\ cpc = "P0"
      /\ IF ~paused THEN Call("W0", "P1") ELSE Return
      /\ UNCHANGED <<ci, prog, size, started, paused, stopped, hasJob, hjVer, jobsKind, jobNonNull, jobVer, pcount, mutex, cvWait, nthreads, callerSeen, race, dup>> /\ UNCH_W
P1 == /\ cpc = "P1" /\ jobsKind' = "pause" /\ jobNonNull' = [i \in W |-> i <= size] /\ jobVer' = jobVer + 1
      /\ Call("T0", "P2")
      /\ UNCHANGED <<ci, prog, size, started, paused, stopped, hasJob, hjVer, pcount, mutex, cvWait, nthreads, callerSeen, race, dup>> /\ UNCH_W
P2 == /\ cpc = "P2" /\ paused' = TRUE /\ cpc' = "P3"
      /\ UNCHANGED <<cstack, ci, prog, size, started, stopped, hasJob, hjVer, jobsKind, jobNonNull, jobVer, pcount, mutex, cvWait, nthreads, callerSeen, race, dup>> /\ UNCH_W
P3 == /\ cpc = "P3"
      /\ IF pcount = size THEN Return ELSE UNCHANGED <<cpc, cstack>>
      /\ UNCHANGED <<ci, prog, size, started, paused, stopped, hasJob, hjVer, jobsKind, jobNonNull, jobVer, pcount, mutex, cvWait, nthreads, callerSeen, race, dup>> /\ UNCH_W

\* run_blocks(): ci holds the number of blocks; job i is non-null iff i <= number of blocks
B0 == /\ cpc = "B0"
      /\ IF ci = 0 THEN Return /\ UNCHANGED <<jobsKind, jobNonNull, jobVer, execCount>>   \* empty range: nothing happens
         ELSE /\ jobsKind' = "user" /\ jobNonNull' = [i \in W |-> i <= size /\ i <= ci] /\ jobVer' = jobVer + 1
              /\ execCount' = [i \in W |-> 0]
              /\ Call("T0", "B1")
      /\ UNCHANGED <<ci, prog, size, started, paused, stopped, hasJob, hjVer, pcount, mutex, cvWait, nthreads, callerSeen, race, dup, wpc, seenVer, resVer>>
B1 == /\ cpc = "B1" /\ Call("W0", "B2")
      /\ UNCHANGED <<ci, prog, size, started, paused, stopped, hasJob, hjVer, jobsKind, jobNonNull, jobVer, pcount, mutex, cvWait, nthreads, callerSeen, race, dup>> /\ UNCH_W
B2 == /\ cpc = "B2"   \* run_blocks returns: the caller reads the results and destroys the job vector
      /\ race' = (race \/ \E i \in W : jobNonNull[i] /\ callerSeen[i] < resVer[i])
      /\ dup' = (dup \/ \E i \in W : (jobNonNull[i] /\ execCount[i] # 1) \/ (~jobNonNull[i] /\ execCount[i] # 0))
      /\ jobsKind' = "none" /\ jobVer' = jobVer + 1
      /\ Return
      /\ UNCHANGED <<ci, prog, size, started, paused, stopped, hasJob, hjVer, jobNonNull, pcount, mutex, cvWait, nthreads, callerSeen>> /\ UNCH_W

\* stop(): if (!stopped) { stopped = true; if (paused) resume(); join all }
S0 == /\ cpc = "S0"
      /\ IF ~stopped THEN stopped' = TRUE /\ cpc' = "S1" /\ UNCHANGED cstack ELSE Return /\ UNCHANGED stopped
      /\ UNCHANGED <<ci, prog, size, started, paused, hasJob, hjVer, jobsKind, jobNonNull, jobVer, pcount, mutex, cvWait, nthreads, callerSeen, race, dup>> /\ UNCH_W
S1 == /\ cpc = "S1"
      /\ IF paused THEN Call("R0", "S2i") ELSE cpc' = "S2i" /\ UNCHANGED cstack
      /\ UNCHANGED <<ci, prog, size, started, paused, stopped, hasJob, hjVer, jobsKind, jobNonNull, jobVer, pcount, mutex, cvWait, nthreads, callerSeen, race, dup>> /\ UNCH_W
S2i == /\ cpc = "S2i" /\ ci' = 1 /\ cpc' = "S2"
       /\ UNCHANGED <<cstack, prog, size, started, paused, stopped, hasJob, hjVer, jobsKind, jobNonNull, jobVer, pcount, mutex, cvWait, nthreads, callerSeen, race, dup>> /\ UNCH_W
S2Done == /\ cpc = "S2" /\ ci > nthreads /\ Return
          /\ UNCHANGED <<ci, prog, size, started, paused, stopped, hasJob, hjVer, jobsKind, jobNonNull, jobVer, pcount, mutex, cvWait, nthreads, callerSeen, race, dup>> /\ UNCH_W
S2Join == /\ cpc = "S2" /\ ci <= nthreads /\ wpc[ci] = "exited"     \* join synchronises-with thread exit
          /\ ci' = ci + 1 /\ callerSeen' = [callerSeen EXCEPT ![ci] = resVer[ci]]
          /\ UNCHANGED <<cpc, cstack, prog, size, started, paused, stopped, hasJob, hjVer, jobsKind, jobNonNull, jobVer, pcount, mutex, cvWait, nthreads, race, dup>> /\ UNCH_W

\* resize(k): if (k != size) { size = k; stop(); re-initialise }
Z0 == /\ cpc = "Z0"
      /\ IF ci # size THEN size' = ci /\ Call("S0", "Z1") ELSE Return /\ UNCHANGED size
      /\ UNCHANGED <<ci, prog, started, paused, stopped, hasJob, hjVer, jobsKind, jobNonNull, jobVer, pcount, mutex, cvWait, nthreads, callerSeen, race, dup>> /\ UNCH_W
Z1 == /\ cpc = "Z1" /\ stopped' = FALSE /\ started' = FALSE /\ nthreads' = 0
      /\ wpc' = [i \in W |-> "none"] /\ hasJob' = [i \in W |-> 0] /\ hjVer' = [i \in W |-> 0]
      /\ Return
      /\ UNCHANGED <<ci, prog, size, paused, jobsKind, jobNonNull, jobVer, pcount, mutex, cvWait, callerSeen, race, dup, seenVer, resVer, execCount>>

CallerNext == Idle \/ R0 \/ R1lock \/ R1unlock \/ R1 \/ R2 \/ RET \/ W0 \/ WlDone \/ WlLoad \/ T0 \/ T0sDone \/ T0sSpawn
              \/ T1 \/ T2i \/ T2Done \/ T2Skip \/ T2Store \/ P0 \/ P1 \/ P2 \/ P3 \/ B0 \/ B1 \/ B2
              \/ S0 \/ S1 \/ S2i \/ S2Done \/ S2Join \/ Z0 \/ Z1

\* ------------------------------------------------------------------ workers
UNCH_C == UNCHANGED <<cpc, cstack, ci, prog, size, started, paused, stopped, jobsKind, jobNonNull, jobVer, nthreads, callerSeen, dup>>

\* while (!stopped.load()) { if (has_job[i].load()) { (*p_jobs)[i](); has_job[i].store(0); } }
L0(i) == /\ wpc[i] = "L0"
         /\ wpc' = [wpc EXCEPT ![i] = IF stopped THEN "exited" ELSE "L1"]
         /\ UNCH_C /\ UNCHANGED <<hasJob, hjVer, pcount, mutex, cvWait, seenVer, resVer, execCount, race>>
L1(i) == /\ wpc[i] = "L1"
         /\ IF hasJob[i] = 1
              THEN /\ wpc' = [wpc EXCEPT ![i] = "L2"]
                   /\ seenVer' = IF AcqWorker /\ hjVer[i] > seenVer[i] THEN [seenVer EXCEPT ![i] = hjVer[i]] ELSE seenVer
              ELSE wpc' = [wpc EXCEPT ![i] = "L0"] /\ UNCHANGED seenVer
         /\ UNCH_C /\ UNCHANGED <<hasJob, hjVer, pcount, mutex, cvWait, resVer, execCount, race>>
L2(i) == /\ wpc[i] = "L2"
         /\ race' = (race \/ seenVer[i] < jobVer)   \* reads p_jobs and the job object written by the caller
         /\ IF jobsKind = "pause"
              THEN wpc' = [wpc EXCEPT ![i] = "K0"] /\ UNCHANGED <<execCount, resVer>>
              ELSE /\ wpc' = [wpc EXCEPT ![i] = "L3"]
                   /\ execCount' = [execCount EXCEPT ![i] = @ + 1]
                   /\ resVer' = [resVer EXCEPT ![i] = @ + 1]
         /\ UNCH_C /\ UNCHANGED <<hasJob, hjVer, pcount, mutex, cvWait, seenVer>>
L3(i) == /\ wpc[i] = "L3"
         /\ hasJob' = [hasJob EXCEPT ![i] = 0]
         /\ hjVer' = [hjVer EXCEPT ![i] = IF RelDone THEN resVer[i] ELSE 0]
         /\ wpc' = [wpc EXCEPT ![i] = "L0"]
         /\ UNCH_C /\ UNCHANGED <<pcount, mutex, cvWait, seenVer, resVer, execCount, race>>
\* pause job: { unique_lock lk(m); ++count; cv.wait(lk); --count; }
K0(i) == /\ wpc[i] = "K0" /\ mutex = 0 /\ mutex' = i /\ wpc' = [wpc EXCEPT ![i] = "K1"]
         /\ UNCH_C /\ UNCHANGED <<hasJob, hjVer, pcount, cvWait, seenVer, resVer, execCount, race>>
K1(i) == /\ wpc[i] = "K1" /\ pcount' = pcount + 1 /\ wpc' = [wpc EXCEPT ![i] = "K2"]
         /\ UNCH_C /\ UNCHANGED <<hasJob, hjVer, mutex, cvWait, seenVer, resVer, execCount, race>>
K2(i) == /\ wpc[i] = "K2" /\ mutex' = 0 /\ cvWait' = cvWait \cup {i} /\ wpc' = [wpc EXCEPT ![i] = "blocked"]
         /\ UNCH_C /\ UNCHANGED <<hasJob, hjVer, pcount, seenVer, resVer, execCount, race>>
K3(i) == /\ wpc[i] = "K3" /\ mutex = 0 /\ mutex' = i /\ wpc' = [wpc EXCEPT ![i] = "K4"]
         /\ UNCH_C /\ UNCHANGED <<hasJob, hjVer, pcount, cvWait, seenVer, resVer, execCount, race>>
K4(i) == /\ wpc[i] = "K4" /\ pcount' = pcount - 1 /\ wpc' = [wpc EXCEPT ![i] = "K5"]
         /\ UNCH_C /\ UNCHANGED <<hasJob, hjVer, mutex, cvWait, seenVer, resVer, execCount, race>>
K5(i) == /\ wpc[i] = "K5" /\ mutex' = 0 /\ wpc' = [wpc EXCEPT ![i] = "L3"]
         /\ UNCH_C /\ UNCHANGED <<hasJob, hjVer, pcount, cvWait, seenVer, resVer, execCount, race>>

\* a spurious wake-up: the wait returns although nobody notified (the pause job has no predicate
\* loop around cv.wait, so the worker leaves the pause; outside the library's assumptions)
KSpurious(i) == /\ SpuriousWake /\ wpc[i] = "blocked" /\ i \in cvWait
                /\ cvWait' = cvWait \ {i} /\ wpc' = [wpc EXCEPT ![i] = "K3"]
                /\ UNCH_C /\ UNCHANGED <<hasJob, hjVer, pcount, mutex, seenVer, resVer, execCount, race>>

WorkerNext(i) == L0(i) \/ L1(i) \/ L2(i) \/ L3(i) \/ K0(i) \/ K1(i) \/ K2(i) \/ K3(i) \/ K4(i) \/ K5(i) \/ KSpurious(i)

Next == CallerNext \/ \E i \in W : WorkerNext(i)

Spec == Init /\ [][Next]_vars
FairSpec == Spec /\ WF_vars(CallerNext) /\ \A i \in W : WF_vars(WorkerNext(i))

NoDataRace == ~race
ExactlyOnce == ~dup
Termination == <>(cpc = "finished")
\* while a run_blocks call is in flight no flag is set for an empty slot, and counters stay in range
TypeOK == /\ pcount \in 0..MaxW /\ mutex \in {0, CALLER} \cup W
          /\ \A i \in W : hasJob[i] \in {0, 1}
          /\ \A i \in W : execCount[i] <= 1
MutexOK == /\ (mutex \in W) => wpc[mutex] \in {"K1", "K2", "K4", "K5"}
           /\ \A i \in W : wpc[i] \in {"K1", "K2", "K4", "K5"} => mutex = i
=============================================================================
