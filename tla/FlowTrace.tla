----------------------------- MODULE FlowTrace -----------------------------
(* Trace validation (binding B2) of recorded flow_graph histories against   *)
(* the FlowGraph specification.  One trace line = one public call; the      *)
(* logged fields are bound to the action's parameters.  A line that no      *)
(* action accepts ends the behaviour: the trace is rejected (postcondition).*)
EXTENDS FlowGraph, Json, IOUtils

ASSUME TLCSet(7, ndJsonDeserialize(IOEnv.TRACE))
Log == TLCGet(7)

VARIABLE l
tvars == <<grid, graphs, memo, l>>

TraceHas(c) ==
  CASE c = "C01" -> IOEnv.CHK_C01 = "1" [] c = "C02" -> IOEnv.CHK_C02 = "1"
    [] c = "C03" -> IOEnv.CHK_C03 = "1" [] c = "C04" -> IOEnv.CHK_C04 = "1"
    [] c = "C05" -> IOEnv.CHK_C05 = "1" [] c = "C06" -> IOEnv.CHK_C06 = "1"
    [] c = "C09" -> IOEnv.CHK_C09 = "1" [] c = "C10" -> IOEnv.CHK_C10 = "1"
    [] c = "C12" -> IOEnv.CHK_C12 = "1" [] c = "C13" -> IOEnv.CHK_C13 = "1"
    [] c = "C15" -> IOEnv.CHK_C15 = "1" [] c = "C16" -> IOEnv.CHK_C16 = "1"
    [] c = "C17" -> IOEnv.CHK_C17 = "1" [] c = "C19" -> IOEnv.CHK_C19 = "1"
    [] c = "C20" -> IOEnv.CHK_C20 = "1" [] OTHER -> FALSE
TraceDiag == IOEnv.DIAG = "1"

Is(e) == l <= Len(Log) /\ Log[l].e = e
Adv == l' = l + 1

TReset == Is("Reset") /\ grid' = NoGrid /\ graphs' = Empty /\ memo' = Empty /\ Adv
TGrid == Is("Grid") /\ SetGrid(Log[l].d) /\ Adv
TNew == Is("New") /\ NewGraph(Log[l].g, Log[l].ops, Log[l], l) /\ Adv
TDrop == Is("Drop") /\ DropGraph(Log[l].g) /\ Adv
TMask == Is("SetMask") /\ SetMask(Log[l].g, Log[l].m, Log[l].back, l) /\ Adv
\* a call refused for its arguments (mask of another shape): an exception, and the object as it was
TMaskBad == Is("SetMaskBad") /\ Log[l].g \in DOMAIN graphs
            /\ Chk("RefusedCallThrows", l, Log[l].threw # "") /\ UNCHANGED fvars /\ Adv
TBL == Is("SetBL") /\ SetBaseLevels(Log[l].g, Log[l].bl, Log[l].back, l) /\ Adv
TParam == Is("SetParam") /\ SetParam(Log[l].g, Log[l].i, Log[l]) /\ Adv
TUpdate == Is("Update") /\ UpdateRoutes(Log[l].g, Log[l], l) /\ Adv
TAcc == Is("Accumulate") /\ Accumulate(Log[l].g, Log[l], l) /\ Adv
TBasins == Is("Basins") /\ Basins(Log[l].g, Log[l], l) /\ Adv
TSnapG == Is("SnapGraph") /\ SnapGraph(Log[l].g, Log[l].name, Log[l], l) /\ Adv
TSnapE == Is("SnapElev") /\ SnapElev(Log[l].g, Log[l].name, Log[l].z, l) /\ Adv
TKernel == Is("Kernel") /\ KernelApply(Log[l].g, Log[l], l) /\ Adv
TSpl == Is("Spl") /\ Spl(Log[l].g, Log[l], l) /\ Adv
TBGraph == Is("BasinGraph") /\ BasinGraphObs(Log[l].g, Log[l], l) /\ Adv
TSnapM == Is("SnapMutate") /\ SnapMutate(Log[l].g, Log[l].name, Log[l].threw, l) /\ Adv
\* a call that never returned (hang, crash): no specification action allows it; in diagnosis
\* mode it is reported and skipped so that the rest of the trace is still examined
\* look-ups through the grid API, on this grid or on another grid object alive at the same time: grids are
\* values, so these are stuttering steps of the specification
TTouch == Is("Touch") /\ UNCHANGED fvars /\ Adv
TNoReturn == Is("NoReturn") /\ Diag /\ PrintT(<<"FAILED", "NoReturn", "line", l>>) /\ UNCHANGED fvars /\ Adv

TraceInit == FInit /\ l = 1
TraceNext == TReset \/ TGrid \/ TNew \/ TDrop \/ TMask \/ TMaskBad \/ TBL \/ TParam \/ TUpdate \/ TAcc
             \/ TBasins \/ TTouch \/ TSnapG \/ TSnapE \/ TSnapM \/ TKernel \/ TSpl \/ TBGraph \/ TNoReturn
TraceSpec == TraceInit /\ [][TraceNext]_tvars

TraceAccepted ==
  IF TLCGet("stats").diameter - 1 = Len(Log) THEN TRUE
  ELSE PrintT(<<"REJECTED at line", TLCGet("stats").diameter, "of", Len(Log)>>) /\ FALSE
=============================================================================
