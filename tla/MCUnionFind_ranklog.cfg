CONSTANTS
  MaxN = 4
  UsePush = FALSE
  Emit = FALSE
SPECIFICATION MCSpec
VIEW View
INVARIANT RankLogBound
CHECK_DEADLOCK FALSE
