SPECIFICATION USpec
POSTCONDITION UAccepted
CHECK_DEADLOCK FALSE
