CONSTANTS
  MaxW = 2
  InitSize = 2
  Program <- ProgA
  RelPublish = FALSE
  AcqWorker = FALSE
  RelDone = FALSE
  AcqWait = FALSE
  LockedNotify = TRUE
SPECIFICATION FairSpec
INVARIANTS NoDataRace ExactlyOnce TypeOK MutexOK
PROPERTY Termination
CHECK_DEADLOCK FALSE
