CONSTANTS
  MaxW = 2
  InitSize = 1
  Program <- ProgA
  RelPublish = FALSE
  AcqWorker = FALSE
  RelDone = FALSE
  AcqWait = FALSE
  LockedNotify = TRUE
  SpuriousWake = FALSE
SPECIFICATION FairSpec
INVARIANTS NoDataRace ExactlyOnce TypeOK MutexOK
PROPERTY Termination
CHECK_DEADLOCK FALSE
