CONSTANTS
  N = 5
  MaxRec = 2
  Levels = {0, 1, 2}
SPECIFICATION Spec
INVARIANTS RefinesC12 NonNegativeUnlessOvershoot
PROPERTY Terminates
CHECK_DEADLOCK FALSE
