----------------------------- MODULE MCBoruvka -----------------------------
EXTENDS Boruvka
\* two hubs (0: root, 1: lake), three sectors (2, 3, 4) adjacent to both, one pendant basin per sector
\* (5, 6, 7): with MaxLow = 2 the sectors and both hubs start in the large-degree list and BOTH hubs
\* are still large after the first clean-up
TwoHubEdges == << <<0, 2>>, <<0, 3>>, <<0, 4>>, <<1, 2>>, <<1, 3>>, <<1, 4>>, <<2, 5>>, <<3, 6>>, <<4, 7>> >>
\* a hub (0) joined to a rim cycle 1-2-3-4-5-1: rim nodes have low degree, the hub is large
WheelEdges == << <<0, 1>>, <<0, 2>>, <<0, 3>>, <<0, 4>>, <<0, 5>>, <<1, 2>>, <<2, 3>>, <<3, 4>>, <<4, 5>>, <<5, 1>> >>
\* K4: every node has 3 neighbours
K4Edges == << <<0, 1>>, <<0, 2>>, <<0, 3>>, <<1, 2>>, <<1, 3>>, <<2, 3>> >>
\* two components (a triangle and a path) and an isolated node
ForestEdges == << <<0, 1>>, <<1, 2>>, <<2, 0>>, <<3, 4>>, <<4, 5>> >>
L123 == {1, 2, 3}
L12 == {1, 2}
=============================================================================
