// Additional flow-case steps: stream-power eroder, flow kernels, stand-alone basin graph.
#pragma once
#include "flow_driver.hpp"

namespace vh
{
    template <class G>
    void flow_runner<G>::extra_step(const std::string& op, const vj::value& /*s*/, long long /*g*/, vj::obj& /*o*/)
    {
        throw std::runtime_error("unknown step " + op);
    }
}
