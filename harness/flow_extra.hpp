// Additional flow-case steps: flow kernels (C10), stream-power eroder (C12, C13), stand-alone basin
// graph (C15).
#pragma once
#include <atomic>

#include "fastscapelib/flow/flow_kernel.hpp"

#include "flow_driver.hpp"

namespace vh
{
    void sched_yield_point();  // pool_driver.cpp: schedule point for controlled runs, no-op otherwise

    // ------------------------------------------------------------------ kernel plumbing
    // The kernel function is user code: it logs its own calls with one global sequence counter
    // (begin / end stamps), reads the receivers' outputs and writes its own.
    struct kernel_shared
    {
        std::atomic<long> seq{ 0 };
        std::vector<long> begin, end, thread_of, calls;
        std::vector<long> out;
        const void* impl = nullptr;
        long kexp = -1000;  // what every node data must carry (the default when there is no init hook)
        std::function<long(size_t, const std::vector<long>&)> compute;  // node -> value from outputs
    };

    struct kernel_node
    {
        size_t idx = 0;
        long value = 0;
        long b = 0, e = 0;
        long thread = 0;
        long k = -1000;  // kernel-wide scalar, delivered through node_data_init when that hook is set
        kernel_shared* sh = nullptr;
    };

    template <class G>
    void flow_runner<G>::extra_step(const std::string& op, const vj::value& s, long long g, vj::obj& o)
    {
        auto& h = graphs.at(g);
        if (op == "kernel")
        {
            namespace fsd = fastscapelib::detail;
            // on the graph itself or on one of its snapshot graphs
            std::string sname = s.get_str("snap", "");
            auto* fgp = sname.empty() ? h.fg.get() : &h.fg->graph_snapshot(sname);
            const auto& im = fgp->impl();
            std::string dir = s.get_str("dir", "breadth");
            int nthreads = static_cast<int>(s.get_int("thr", 1));
            kernel_shared sh;
            sh.begin.assign(n, -1);
            sh.end.assign(n, -1);
            sh.thread_of.assign(n, -1);
            sh.calls.assign(n, 0);
            sh.out.assign(n, -1);
            // value of a node: 1 + max over its receivers (other than itself) of their value;
            // with the unordered traversal: a function of the node alone
            bool ordered = dir != "any";
            sh.compute = [&im, ordered, this](size_t i, const std::vector<long>& out) -> long
            {
                if (!ordered)
                    return static_cast<long>(3 * i + 1);
                long v = 0;
                for (size_t r = 0; r < im.receivers_count()(i); ++r)
                {
                    size_t j = im.receivers()(i, r);
                    if (j != i)
                        v = std::max(v, out[j] + 1);
                }
                return v;
            };
            static thread_local long tl_thread = 0;
            static std::atomic<long> thread_ids{ 0 };
            fsd::flow_kernel k;
            k.func = [](void* p) -> int
            {
                auto* nd = static_cast<kernel_node*>(p);
                if (tl_thread == 0)
                    tl_thread = ++thread_ids;
                sched_yield_point();
                nd->b = nd->sh->seq.fetch_add(1);
                // the kernel-wide scalar must have reached this worker's node data (k == kexp)
                nd->value = nd->sh->compute(nd->idx, nd->sh->out) + (nd->k - nd->sh->kexp);
                nd->thread = tl_thread;
                sched_yield_point();
                nd->e = nd->sh->seq.fetch_add(1);
                return 0;
            };
            k.node_data_getter = [](std::size_t i, void* data, void* p) -> int
            {
                auto* nd = static_cast<kernel_node*>(p);
                nd->idx = i;
                nd->sh = static_cast<kernel_shared*>(data);
                return 0;
            };
            k.node_data_setter = [](std::size_t i, void* p, void* data) -> int
            {
                auto* nd = static_cast<kernel_node*>(p);
                auto* sh2 = static_cast<kernel_shared*>(data);
                sh2->out[i] = nd->value;
                sh2->begin[i] = nd->b;
                sh2->end[i] = nd->e;
                sh2->thread_of[i] = nd->thread;
                sh2->calls[i] += 1;
                return 0;
            };
            k.node_data_create = []() -> void* { return new kernel_node(); };
            k.node_data_init = nullptr;
            if (s.get_int("init", 0))
            {
                sh.kexp = 5;
                k.node_data_init = [](void* p, void* data)
                { static_cast<kernel_node*>(p)->k = static_cast<kernel_shared*>(data)->kexp; };
            }
            k.node_data_free = [](void* p) { delete static_cast<kernel_node*>(p); };
            k.n_threads = nthreads;
            k.min_block_size = static_cast<int>(s.get_int("minblock", 0));
            k.min_level_size = static_cast<int>(s.get_int("minlevel", 0));
            k.apply_dir = dir == "any"     ? fs::flow_graph_traversal_dir::any
                          : dir == "depth" ? fs::flow_graph_traversal_dir::depth_upstream
                                           : fs::flow_graph_traversal_dir::breadth_upstream;
            fsd::flow_kernel_data kd;
            kd.data = &sh;
            std::string threw;
            try
            {
                fgp->apply_kernel(k, kd);
            }
            catch (const std::exception& e)
            {
                threw = exc_kind(e);
            }
            o.str("e", "Kernel").num("g", g).str("snap", sname).str("dir", dir).num("thr", nthreads);
            o.num("minblock", k.min_block_size).num("minlevel", k.min_level_size).str("threw", threw);
            o.num("init", s.get_int("init", 0));
            o.ints("calls", sh.calls).ints("begin", sh.begin).ints("end", sh.end).ints("out", sh.out);
            std::vector<long> distinct(sh.thread_of);
            std::sort(distinct.begin(), distinct.end());
            distinct.erase(std::unique(distinct.begin(), distinct.end()), distinct.end());
            o.num("nthreads_seen", static_cast<long long>(distinct.size()));
            emit(o.done());
        }
        else if (op == "spl")
        {
            using fg_t = fs::flow_graph<G>;
            auto num = [&](const char* k, double def)
            { return s.has(k) ? s[k].as_double() : def; };
            double m_exp = num("m", 0.5), n_exp = num("n", 1.0), tol = num("tol", 1e-3), dt = num("dt", 1.0);
            o.str("e", "Spl").num("g", g);
            o.raw("par", "{\"m\":\"" + s.get_str("m", "0.5") + "\",\"n\":\"" + s.get_str("n", "1") + "\",\"tol\":\""
                             + s.get_str("tol", "1e-3") + "\",\"dt\":\"" + s.get_str("dt", "1") + "\"}");
            // erodibility: scalar or per-node array
            bool karr = s.has("Ka");
            auto kv = grid_array<G, double>(*grid, 0.0);
            if (karr)
                for (size_t i = 0; i < n; ++i)
                    kv.flat(i) = s["Ka"][i].as_double();
            double ks = num("Ks", 1.0);
            // elevation: the elevation returned by the last update (the usual coupling) or the input
            // or an explicit integer field (the eroder takes the elevation separately from the graph)
            xt::xarray<double> hgiven = grid_array<G, double>(*grid, 0.0);
            if (s.has("h"))
                for (size_t i = 0; i < n; ++i)
                    hgiven.flat(i) = s["h"][i].as_double();
            // "elev": "erosion" (eroder reused): the array OBJECT returned by the eroder's previous call is the
            // elevation argument (aliasing of an argument with the eroder's own buffer)
            long long eid0 = s.get_int("eid", -1);
            const bool alias_erosion = s.get_str("elev", "out") == "erosion" && eid0 >= 0 && h.last_erosion.count(eid0)
                                       && h.eroders.count(eid0);
            const xt::xarray<double>& elev
                = alias_erosion ? *h.last_erosion[eid0]
                                : (s.has("h") ? hgiven : (s.get_str("elev", "out") == "in" ? h.z : *h.out));
            const xt::xarray<double> elev_given = elev;   // the values handed in (the argument may alias the result)
            // drainage area: accumulate(1) or explicit integers
            xt::xarray<double> area = s.has("A") ? grid_array<G, double>(*grid, 0.0) : h.fg->accumulate(1.0);
            if (s.has("A"))
                for (size_t i = 0; i < n; ++i)
                    area.flat(i) = s["A"][i].as_double();
            std::string threw;
            std::shared_ptr<fs::spl_eroder<fg_t>> er;
            long long eid = s.get_int("eid", -1);
            if (eid >= 0 && h.eroders.count(eid))
            {
                // the same eroder object serves another step (parameters as at its construction)
                er = std::static_pointer_cast<fs::spl_eroder<fg_t>>(h.eroders[eid]);
                o.num("reused", 1);
            }
            else
            {
                try
                {
                    if (s.get_int("setters", 0))
                    {
                        // built with other parameters, then brought to the target ones through the
                        // public setters (the observable behaviour must be that of a fresh eroder)
                        er = std::make_shared<fs::spl_eroder<fg_t>>(*h.fg, 0.123, 0.77, 1.0, tol);
                        if (karr)
                            er->set_k_coef(kv);
                        else
                            er->set_k_coef(ks);
                        er->set_area_exp(m_exp);
                        er->set_slope_exp(n_exp);
                    }
                    else if (karr)
                        er = std::make_shared<fs::spl_eroder<fg_t>>(*h.fg, kv, m_exp, n_exp, tol);
                    else
                        er = std::make_shared<fs::spl_eroder<fg_t>>(*h.fg, ks, m_exp, n_exp, tol);
                }
                catch (const std::exception& e)
                {
                    threw = exc_kind(e);
                }
                // the same erodibility VALUE handed over again in another form (set_k_coef accepts any
                // xtensor expression): column-major container, lazy expression, lazy flipped view of the
                // eroder's own array
                const std::string kform = s.get_str("kform", "");
                if (er && karr && threw.empty() && !kform.empty())
                {
                    if (kform == "col")
                    {
                        std::vector<size_t> shp(kv.shape().begin(), kv.shape().end());
                        xt::xarray<double, xt::layout_type::column_major> kc
                            = xt::xarray<double, xt::layout_type::column_major>::from_shape(shp);
                        if (shp.size() == 2)
                        {
                            for (size_t r = 0; r < shp[0]; ++r)
                                for (size_t c = 0; c < shp[1]; ++c)
                                    kc(r, c) = kv(r, c);
                        }
                        else
                            for (size_t i = 0; i < n; ++i)
                                kc(i) = kv(i);
                        er->set_k_coef(kc);
                    }
                    else if (kform == "expr")
                        er->set_k_coef(kv * 2.0 - kv);
                    else if (kform == "flip_own" && er->k_coef().dimension() == kv.dimension())
                    {
                        xt::xarray<double> rev = xt::flip(kv, 0);
                        er->set_k_coef(rev);
                        er->set_k_coef(xt::flip(er->k_coef(), 0));
                    }
                }
                if (er && eid >= 0)
                    h.eroders[eid] = er;
            }
            o.str("threw", threw);
            o.num("nlin", (n_exp == 1.0) ? 1 : 0);
            if (s.has("probe"))
            {
                // a history of slope-exponent requests on ONE separate eroder (valid at construction):
                // each request is logged with whether it was refused; the object is not used further
                std::string pr = "[";
                try
                {
                    fs::spl_eroder<fg_t> probe(*h.fg, 1.0, 0.5, 1.0, 1e-3);
                    bool first = true;
                    for (auto& vp : s["probe"].a)
                    {
                        double v = vp->as_double();
                        int refused = 0;
                        try
                        {
                            probe.set_slope_exp(v);
                        }
                        catch (const std::exception&)
                        {
                            refused = 1;
                        }
                        pr += std::string(first ? "" : ",") + "[" + (v == 1.0 ? "1" : "0") + "," + std::to_string(refused) + "]";
                        first = false;
                    }
                }
                catch (const std::exception&)
                {
                    pr += "[2,2]";  // the valid construction itself was refused
                }
                o.raw("probe", pr + "]");
            }
            if (er)
            {
                note("spl erode");
                const auto& e = er->erode(elev, area, dt);
                if (eid0 >= 0)
                    h.last_erosion[eid0] = &e;
                std::vector<double> hv(n), ev(n), hn(n), hnu(n);
                std::vector<long long> ez(n), eq(n), ecls(n), hi(n), hx(n);
                for (size_t i = 0; i < n; ++i)
                {
                    hv[i] = elev_given.flat(i);
                    ev[i] = e.flat(i);
                    hn[i] = hv[i] - ev[i];
                    // upper enclosure of the new elevation: the erosion is returned rounded at the
                    // magnitude of the node's own elevation, so h - e is only known up to that ulp
                    double mag = std::max(std::fabs(hv[i]), std::fabs(ev[i]));
                    double ulp = std::nextafter(mag, std::numeric_limits<double>::infinity()) - mag;
                    hnu[i] = hn[i] + 2 * ulp;
                    ez[i] = same_bits(ev[i], 0.0) ? 1 : 0;
                    eq[i] = qfix(ev[i], 20);
                    ecls[i] = dclass(ev[i]);
                    hx[i] = (std::fabs(hv[i]) < 2.0e9 && hv[i] == std::floor(hv[i])) ? 1 : 0;
                    hi[i] = hx[i] ? static_cast<long long>(hv[i]) : 0;
                }
                o.raw("rh", rk.refs(hv)).raw("re", rk.refs(ev)).raw("rhn", rk.refs(hn)).raw("rhnu", rk.refs(hnu));
                o.raw("rzero", rk.ref(0.0));
                // nodes whose erosion is exactly what the limiter would produce (flooded level +
                // the smallest normal double); flooded = lowest post-erosion elevation of the receivers
                std::vector<long long> lim(n, 0);
                {
                    const auto& im = h.fg->impl();
                    for (size_t i = 0; i < n; ++i)
                    {
                        size_t rc = im.receivers_count()(i);
                        if (rc == 1 && im.receivers()(i, 0) == i)
                            continue;
                        double fl = std::numeric_limits<double>::max();
                        for (size_t r = 0; r < rc; ++r)
                        {
                            size_t j = im.receivers()(i, r);
                            fl = std::min(fl, elev_given.flat(j) - e.flat(j));
                        }
                        double cand = hv[i] - (fl + std::numeric_limits<double>::min());
                        lim[i] = (hv[i] > fl && same_bits(cand, ev[i])) ? 1 : 0;
                    }
                }
                o.ints("lim", lim);
                o.ints("ez", ez).ints("eq", eq).ints("ecls", ecls).ints("hi", hi).ints("hx", hx);
                o.num("ncorr", static_cast<long long>(er->n_corr()));
                if (s.has("expect"))
                    o.raw("expect", vj::dump(s["expect"]));
                if (s.has("f"))
                    o.raw("f", vj::dump(s["f"]));
                if (s.has("ncode"))
                    o.num("ncode", s["ncode"].as_int());
                o.num("tolq", static_cast<long long>(std::ceil(std::ldexp(tol, 20))));
                if (s.get_int("near", 0) && s.has("expect"))
                {
                    // the same exact n = 1 case given to another eroder whose slope exponent is 1 + 2^-27 and whose
                    // tolerance is 2^-40: how far BELOW the exact n = 1 solution its new elevation lies, in units
                    // of 2^-40 (an exponent this close to one is still not one)
                    const double nn = 1.0 + std::ldexp(1.0, -27), tt = std::ldexp(1.0, -40);
                    std::vector<long long> dn(n, 0);
                    std::string nthrew;
                    try
                    {
                        fs::spl_eroder<fg_t> near_one(*h.fg, kv, m_exp, nn, tt);
                        const auto& e2 = near_one.erode(elev, area, dt);
                        for (size_t i = 0; i < n; ++i)
                        {
                            double hnear = elev_given.flat(i) - e2.flat(i);
                            double d40 = std::ldexp(s["expect"][i].as_double() - hnear, 40);
                            dn[i] = std::isfinite(d40) ? static_cast<long long>(std::max(-2.0e9, std::min(2.0e9, std::round(d40)))) : -2000000000;
                        }
                    }
                    catch (const std::exception& ex)
                    {
                        nthrew = exc_kind(ex);
                    }
                    o.ints("dn40", dn).str("nthrew", nthrew);
                }
            }
            emit(o.done());
        }
        else if (op == "bgraph")
        {
            using bg_t = fs::basin_graph<impl_t>;
            auto& keep = h.bgs;
            int meth = s.get_str("m", "kruskal") == "boruvka" ? 1 : 0;
            // basins / outlets of the implementation must be up to date (as the resolver does)
            auto lab = h.fg->basins();
            int key = meth;
            if (s.get_int("fresh", 0) || !keep.count(key))
                keep[key] = std::make_unique<bg_t>(
                    h.fg->impl(), meth ? fs::mst_method::boruvka : fs::mst_method::kruskal);
            bg_t& bg = *keep[key];
            bg.update_routes(h.z);
            o.str("e", "BasinGraph").num("g", g).str("m", meth ? "boruvka" : "kruskal");
            o.num("nb", static_cast<long long>(bg.basins_count()));
            std::vector<long long> lv(n);
            for (size_t i = 0; i < n; ++i)
                lv[i] = lab.flat(i) == std::numeric_limits<size_t>::max() ? -1
                                                                          : static_cast<long long>(lab.flat(i));
            o.ints("lab", lv).ints("outlets", bg.outlets());
            std::string es = "[";
            bool f = true;
            for (const auto& e : bg.edges())
            {
                auto sidx = [](size_t x) { return x == static_cast<size_t>(-1) ? -1LL : static_cast<long long>(x); };
                es += std::string(f ? "" : ",") + "[" + std::to_string(sidx(e.link[0])) + ","
                      + std::to_string(sidx(e.link[1])) + "," + std::to_string(sidx(e.pass[0])) + ","
                      + std::to_string(sidx(e.pass[1])) + ","
                      + (e.pass[0] == static_cast<size_t>(-1) ? std::string("-1") : rk.ref(e.pass_elevation))
                      + "]";
                f = false;
            }
            o.raw("edges", es + "]");
            o.ints("tree", bg.tree());
            std::vector<double> zi(n);
            for (size_t i = 0; i < n; ++i)
                zi[i] = h.z.flat(i);
            o.raw("z", rk.refs(zi));
            emit(o.done());
            if (s.get_int("forget", 0))
                keep.erase(key);
        }
        else
            throw std::runtime_error("unknown step " + op);
    }
}
