// Executes one "flow" case (a history of calls on flow_graph objects over one grid) against the
// real library and returns the trace segment (ndjson lines, doubles as rank tokens).
// One log line per public call, written at the call's return (the linearization point of a
// sequential object), carrying the call's arguments and the projected observable state.
#pragma once
#include <memory>
#include <queue>
#include <tuple>
#include <variant>

#include "fastscapelib/flow/flow_graph.hpp"
#include "fastscapelib/flow/flow_router.hpp"
#include "fastscapelib/flow/flow_snapshot.hpp"
#include "fastscapelib/flow/sink_resolver.hpp"
#include "fastscapelib/flow/basin_graph.hpp"
#include "fastscapelib/eroders/spl.hpp"

#include "grids.hpp"

namespace vh
{
    // A user-defined flow operator, written against the library's extension point (a class derived
    // from flow_operator + a specialisation of detail::flow_operator_impl, which the graph
    // implementation befriends): a "router" that installs a GIVEN receiver table - any forest / DAG,
    // not only those that steepest descent on a grid can produce - in the way the library's own
    // routers do (counts, receivers, distances, weights, donors in node order, then the library's
    // traversal-order algorithms).  Used to replay the graphs that TLC enumerates for the Orders /
    // Sweeps models through the real compute_dfs_* / compute_bfs_* / accumulate / basins / kernels.
    template <fs::flow_direction D>
    class inject_router : public fs::flow_operator
    {
    public:
        inline std::string name() const noexcept override
        {
            return "inject_router";
        }
        static constexpr bool graph_updated = true;
        static constexpr fs::flow_direction out_flowdir = D;

        std::vector<std::vector<long long>> rec;   // per node: receivers (a terminal node lists itself)
        std::vector<std::vector<long long>> w8;    // per node: weights in units of 2^-8
        std::vector<long long> selfdon;            // per node: 1 = a terminal node registered as its own donor
                                                   // (what single_flow_router does for pits)
    };
    using inject_single = inject_router<fs::flow_direction::single>;
    using inject_multi = inject_router<fs::flow_direction::multi>;
}

namespace fastscapelib
{
    namespace detail
    {
        template <class FG, fastscapelib::flow_direction D>
        class flow_operator_impl<FG, vh::inject_router<D>, flow_graph_fixed_array_tag>
            : public flow_operator_impl_base<FG, vh::inject_router<D>>
        {
        public:
            using base_type = flow_operator_impl_base<FG, vh::inject_router<D>>;
            using data_array_type = typename FG::data_array_type;
            using size_type = typename FG::size_type;
            using thread_pool_type = thread_pool<size_type>;

            flow_operator_impl(std::shared_ptr<vh::inject_router<D>> ptr)
                : base_type(std::move(ptr)){};

            void apply(FG& graph_impl, data_array_type& /*elevation*/, thread_pool_type& /*pool*/)
            {
                const auto& op = *this->m_op_ptr;
                const size_type n = graph_impl.size();
                graph_impl.m_donors_count.fill(0);
                for (size_type i = 0; i < n; ++i)
                {
                    const auto& r = op.rec.at(i);
                    graph_impl.m_receivers_count(i) = r.size();
                    for (size_type k = 0; k < r.size(); ++k)
                    {
                        const size_type j = static_cast<size_type>(r[k]);
                        graph_impl.m_receivers(i, k) = j;
                        graph_impl.m_receivers_distance(i, k) = (j == i) ? 0. : 1.;
                        graph_impl.m_receivers_weight(i, k)
                            = (j == i && D != fastscapelib::flow_direction::single)
                                  ? 0.
                                  : static_cast<double>(op.w8.at(i).at(k)) / 256.;
                        if (j != i || op.selfdon.at(i))
                            graph_impl.m_donors(j, graph_impl.m_donors_count(j)++) = i;
                    }
                }
                if (D == fastscapelib::flow_direction::single)
                    graph_impl.compute_dfs_indices_bottomup();
                else
                    graph_impl.compute_dfs_indices_topdown();
                graph_impl.compute_bfs_indices_bottomup();
            }
        };
    }
}

namespace vh
{
    // run-time description of one operator; the shared_ptr is kept so that parameters can be
    // changed between updates exactly as a user holding the operator object would
    struct op_holder
    {
        std::string kind;  // single | multi | pflood | mst | snap
        std::shared_ptr<fs::single_flow_router> single;
        std::shared_ptr<fs::multi_flow_router> multi;
        std::shared_ptr<fs::pflood_sink_resolver> pflood;
        std::shared_ptr<fs::mst_sink_resolver> mst;
        std::shared_ptr<fs::flow_snapshot> snap;
        std::shared_ptr<inject_single> inj1;
        std::shared_ptr<inject_multi> injm;
    };

    inline double pcode_to_exp(long long pc)
    {
        // exponent codes: value = pc / 4 (so 0, 0.25, ..., 1 = 4, 2 = 8, 30 = 120)
        return static_cast<double>(pc) / 4.0;
    }

    inline op_holder make_op(const vj::value& o)
    {
        op_holder h;
        h.kind = o["k"].as_str();
        if (h.kind == "single")
        {
            long long thr = o.get_int("thr", 0);
            h.single = thr > 0 ? std::make_shared<fs::single_flow_router>(static_cast<int>(thr))
                               : std::make_shared<fs::single_flow_router>();
        }
        else if (h.kind == "multi")
            h.multi = std::make_shared<fs::multi_flow_router>(pcode_to_exp(o.get_int("p", 4)));
        else if (h.kind == "pflood")
            h.pflood = std::make_shared<fs::pflood_sink_resolver>();
        else if (h.kind == "mst")
            h.mst = std::make_shared<fs::mst_sink_resolver>(
                o.get_str("m", "kruskal") == "boruvka" ? fs::mst_method::boruvka
                                                       : fs::mst_method::kruskal,
                o.get_str("r", "carve") == "basic" ? fs::mst_route_method::basic
                                                   : fs::mst_route_method::carve);
        else if (h.kind == "snap")
            h.snap = std::make_shared<fs::flow_snapshot>(
                o["name"].as_str(), o.get_int("sg", 1) != 0, o.get_int("se", 0) != 0);
        else if (h.kind == "inject")
        {
            auto fill = [&](auto& p)
            {
                for (auto& e : o["rec"].a)
                    p->rec.push_back(e->as_ints());
                for (auto& e : o["w8"].a)
                    p->w8.push_back(e->as_ints());
                p->selfdon = o["sd"].as_ints();
            };
            if (o.get_str("d", "single") == "single")
            {
                h.inj1 = std::make_shared<inject_single>();
                fill(h.inj1);
            }
            else
            {
                h.injm = std::make_shared<inject_multi>();
                fill(h.injm);
            }
        }
        else
            throw std::runtime_error("unknown operator kind " + h.kind);
        return h;
    }
}

namespace fastscapelib
{
    // Definition of the seam declared (as a friend) in flow_operator.hpp: builds an operator
    // sequence from a run-time list, one add_operator per entry, exactly as the Python bindings do.
    template <class FG, class OPs>
    flow_operator_sequence<FG> make_flow_operator_sequence(OPs&& ops)
    {
        flow_operator_sequence<FG> seq;
        for (auto& h : ops)
        {
            if (h.single)
                seq.add_operator(h.single);
            else if (h.multi)
                seq.add_operator(h.multi);
            else if (h.pflood)
                seq.add_operator(h.pflood);
            else if (h.mst)
                seq.add_operator(h.mst);
            else if (h.snap)
                seq.add_operator(h.snap);
            else if (h.inj1)
                seq.add_operator(h.inj1);
            else if (h.injm)
                seq.add_operator(h.injm);
        }
        return seq;
    }
}

namespace vh
{
    inline std::string exc_kind(const std::exception& e)
    {
        if (dynamic_cast<const std::invalid_argument*>(&e))
            return "invalid_argument";
        if (dynamic_cast<const std::out_of_range*>(&e))
            return "out_of_range";
        if (dynamic_cast<const std::runtime_error*>(&e))
            return "runtime_error";
        return "exception";
    }

    template <class G>
    struct flow_runner
    {
        using fg_t = fs::flow_graph<G>;
        using impl_t = typename fg_t::impl_type;

        struct holder
        {
            std::vector<op_holder> ops;
            std::unique_ptr<fg_t> fg;
            xt::xarray<double> z;              // last argument (kept alive)
            const xt::xarray<double>* out = nullptr;  // last returned reference
            // stand-alone basin graphs bound to this graph (method -> object), kept across updates
            std::map<int, std::unique_ptr<fs::basin_graph<impl_t>>> bgs;
            // eroder objects kept alive across steps ("eid" of the spl step)
            std::map<long long, std::shared_ptr<void>> eroders;
            std::map<long long, const xt::xarray<double>*> last_erosion;  // array returned by the last erode() of each eroder
        };

        std::unique_ptr<G> grid;
        std::unique_ptr<G> grid2;   // another grid object of the same type, alive next to the first
        std::map<long long, holder> graphs;
        ranker rk;
        std::string lines;
        size_t n = 0;

        void emit(const std::string& line)
        {
            lines += line;
            lines += "\n";
        }

        xt::xarray<double> make_z(const vj::value& zs)
        {
            auto z = grid_array<G, double>(*grid, 0.0);
            std::string k = zs.get_str("k", "int");
            if (k == "lit")
            {
                // literal values (decimal strings): the extremes of the finite range
                for (size_t i = 0; i < n; ++i)
                    z.flat(i) = zs["v"][i].as_double();
                return z;
            }
            auto m = zs["m"].as_ints();
            if (k == "int")
            {
                int e = static_cast<int>(zs.get_int("e", 0));
                for (size_t i = 0; i < n; ++i)
                    z.flat(i) = std::ldexp(static_cast<double>(m[i]), e);
            }
            else
            {
                double base = zs["base"].as_double();
                int64_t kb = dkey(base);
                for (size_t i = 0; i < n; ++i)
                    z.flat(i) = from_key(kb + m[i]);
            }
            return z;
        }

        // full projection of a graph implementation's observable tables
        void dump_impl(vj::obj& o, const impl_t& im)
        {
            const auto& rec = im.receivers();
            const auto& nrec = im.receivers_count();
            const auto& dist = im.receivers_distance();
            const auto& wgt = im.receivers_weight();
            const auto& don = im.donors();
            const auto& ndon = im.donors_count();
            size_t width = rec.shape()[1];
            size_t dwidth = don.shape()[1];
            o.num("width", static_cast<long long>(width));
            o.num("dwidth", static_cast<long long>(dwidth));
            o.num("sf", im.single_flow() ? 1 : 0);
            std::vector<long long> vn(n), vd(n);
            std::string srec = "[", sdq = "[", srd = "[", swq = "[", swc = "[", srw = "[",
                        sdon = "[", sw8 = "[";
            for (size_t i = 0; i < n; ++i)
            {
                vn[i] = static_cast<long long>(nrec(i));
                vd[i] = static_cast<long long>(ndon(i));
                size_t c = std::min<size_t>(nrec(i), width);
                if (i)
                {
                    srec += ",";
                    sdq += ",";
                    srd += ",";
                    swq += ",";
                    swc += ",";
                    srw += ",";
                    sdon += ",";
                    sw8 += ",";
                }
                srec += "[";
                sdq += "[";
                srd += "[";
                swq += "[";
                swc += "[";
                srw += "[";
                sw8 += "[";
                for (size_t r = 0; r < c; ++r)
                {
                    const char* sep = r ? "," : "";
                    double d = dist(i, r), w = wgt(i, r);
                    // receiver index: -1 (never written) is logged as -1
                    long long ri = rec(i, r) == static_cast<size_t>(-1)
                                       ? -1
                                       : static_cast<long long>(rec(i, r));
                    srec += sep + std::to_string(ri);
                    double d2 = std::ldexp(d * d, -2 * dsc);   // in units of 4^sc
                    long long dq = (std::isfinite(d2) && d2 < 2.0e9 && d2 >= 0) ? std::llround(d2) : -1;
                    sdq += sep + std::to_string(dq);
                    srd += sep + rk.ref(d);
                    swq += sep + std::to_string(qfix(w, 20));
                    swc += sep + std::to_string(dclass(w));
                    srw += sep + rk.ref(w);
                    // weight as an exact multiple of 2^-8, or -1
                    double w256 = std::ldexp(w, 8);
                    long long w8 = (std::isfinite(w256) && w256 >= 0 && w256 <= 256
                                    && w256 == std::floor(w256))
                                       ? static_cast<long long>(w256)
                                       : -1;
                    sw8 += sep + std::to_string(w8);
                }
                srec += "]";
                sdq += "]";
                srd += "]";
                swq += "]";
                swc += "]";
                srw += "]";
                sw8 += "]";
                sdon += "[";
                size_t dc = std::min<size_t>(ndon(i), dwidth);
                for (size_t r = 0; r < dc; ++r)
                    sdon += (r ? "," : "") + std::to_string(static_cast<long long>(don(i, r)));
                sdon += "]";
            }
            o.ints("nrec", vn);
            o.raw("rec", srec + "]");
            o.raw("dq", sdq + "]");
            o.raw("rd", srd + "]");
            o.raw("wq", swq + "]");
            o.raw("wc", swc + "]");
            o.raw("rw", srw + "]");
            o.raw("w8", sw8 + "]");
            o.ints("ndon", vd);
            o.raw("don", sdon + "]");
            auto idx = [](const auto& v)
            {
                std::vector<long long> r;
                for (auto x : v)
                    r.push_back(x == static_cast<size_t>(-1) ? -1 : static_cast<long long>(x));
                return r;
            };
            o.ints("dfs", idx(im.dfs_indices()));
            o.ints("bfs", idx(im.bfs_indices()));
            o.ints("lev", idx(im.bfs_levels()));
            if (n >= cert_threshold)
            {
                // untrusted certificates for the linear-time form of the order contracts on large worlds:
                // inverse permutations and the level of each node (TLC verifies them before using them)
                auto inverse = [this](const auto& v)
                {
                    std::vector<long long> inv(n, -1);
                    for (size_t k = 0; k < v.size() && k < n; ++k)
                        if (v[k] < n)
                            inv[v[k]] = static_cast<long long>(k);
                    return inv;
                };
                auto dpos = inverse(im.dfs_indices());
                auto bpos = inverse(im.bfs_indices());
                std::vector<long long> blev(n, 0);
                const auto& lv = im.bfs_levels();
                for (size_t i = 0; i < n; ++i)
                {
                    // largest k (1-based) with lev[k] <= bpos[i]
                    size_t lo = 0, hi = lv.size();
                    while (lo + 1 < hi)
                    {
                        size_t mid = (lo + hi) / 2;
                        if (static_cast<long long>(lv[mid]) <= bpos[i])
                            lo = mid;
                        else
                            hi = mid;
                    }
                    blev[i] = static_cast<long long>(lo + 1);
                }
                o.ints("dpos", dpos).ints("bpos", bpos).ints("blev", blev);
            }
        }
        size_t cert_threshold = 3000;

        int dsc = 0;  // grid scale exponent (distances are integers times 2^dsc)

        std::string run(const vj::value& c)
        {
            const auto& gd = c["grid"];
            dsc = static_cast<int>(gd.get_int("sc", 0));
            grid = grid_maker<G>::make(gd);
            n = grid->size();
            if (c.has("grid2"))
                grid2 = grid_maker<G>::make(c["grid2"]);
            {
                // the grid event: descriptor (interpreted by the TLA+ module Grid) + what the real
                // grid reports for the facts the flow contracts rely on
                vj::obj o;
                o.str("e", "Grid");
                o.raw("d", vj::dump(gd));
                o.num("n", static_cast<long long>(n));
                emit(o.done());
            }
            for (auto& sp : c["steps"].a)
            {
                const auto& s = *sp;
                const std::string op = s["op"].as_str();
                long long g = s.get_int("g", 0);
                vj::obj o;
                // optional steps are skipped when their graph could not be built
                if (s.get_int("opt", 0) && !graphs.count(g))
                    continue;
                if (op == "touch")
                {
                    // direct look-ups through the grid API between two calls on the graphs - on the case's own grid
                    // and on ANOTHER grid object of the same type that is alive at the same time (and, for that
                    // one, a route update of a graph of its own): grids are values, nothing of this may show
                    if (s.has("own"))
                        for (auto i : s["own"].as_ints())
                        {
                            volatile size_t sink = grid->neighbors_count(static_cast<size_t>(i));
                            for (auto x : grid->neighbors_indices(static_cast<size_t>(i)))
                                sink = sink + x;
                            (void) sink;
                        }
                    if (s.has("other") && grid2)
                    {
                        for (auto i : s["other"].as_ints())
                        {
                            volatile size_t sink = 0;
                            for (const auto& nb : grid2->neighbors(static_cast<size_t>(i)))
                                sink = sink + nb.idx;
                            (void) sink;
                        }
                        if (s.get_int("route", 0))
                        {
                            fg_t other(*grid2, { fs::single_flow_router() });
                            auto z2 = grid_array<G, double>(*grid2, 0.0);
                            for (size_t i = 0; i < grid2->size(); ++i)
                                z2.flat(i) = static_cast<double>((i * 7) % 5);
                            other.update_routes(z2);
                        }
                    }
                    o.str("e", "Touch");
                    emit(o.done());
                }
                else if (op == "new")
                {
                    holder h;
                    for (auto& e : s["ops"].a)
                        h.ops.push_back(make_op(*e));
                    o.str("e", "New").num("g", g).raw("ops", vj::dump(s["ops"]));
                    std::string threw;
                    try
                    {
                        auto seq = fs::make_flow_operator_sequence<impl_t>(h.ops);
                        const std::string via = s.get_str("via", "");
                        if (via == "assign")
                        {
                            // the sequence travels through the (public) move assignment first: onto an
                            // empty sequence, or onto one that already holds other operators ("via_ops")
                            std::vector<op_holder> donor;
                            if (s.has("via_ops"))
                                for (auto& e : s["via_ops"].a)
                                    donor.push_back(make_op(*e));
                            auto seq2 = fs::make_flow_operator_sequence<impl_t>(donor);
                            seq2 = std::move(seq);
                            h.fg = std::make_unique<fg_t>(*grid, std::move(seq2));
                        }
                        else
                            h.fg = std::make_unique<fg_t>(*grid, std::move(seq));
                    }
                    catch (const std::exception& e)
                    {
                        threw = exc_kind(e);
                    }
                    o.str("threw", threw);
                    if (h.fg)
                    {
                        o.num("sf", h.fg->single_flow() ? 1 : 0);
                        o.num("width", static_cast<long long>(h.fg->impl().receivers().shape()[1]));
                        std::string names = "[";
                        bool f = true;
                        for (auto* p : h.fg->operators())
                        {
                            names += (f ? "\"" : ",\"") + p->name() + "\"";
                            f = false;
                        }
                        o.raw("names", names + "]");
                        auto keys = [](const std::vector<std::string>& v)
                        {
                            std::string r = "[";
                            for (size_t i = 0; i < v.size(); ++i)
                                r += (i ? ",\"" : "\"") + v[i] + "\"";
                            return r + "]";
                        };
                        o.raw("gkeys", keys(h.fg->graph_snapshot_keys()));
                        o.raw("ekeys", keys(h.fg->elevation_snapshot_keys()));
                        auto bl = h.fg->base_levels();
                        std::sort(bl.begin(), bl.end());
                        o.ints("bl", bl);
                        graphs[g] = std::move(h);
                    }
                    emit(o.done());
                }
                else if (op == "drop")
                {
                    graphs.erase(g);
                    o.str("e", "Drop").num("g", g);
                    emit(o.done());
                }
                else if (op == "mask")
                {
                    auto& h = graphs.at(g);
                    auto mv = s["m"].as_ints();
                    auto m = grid_array<G, bool>(*grid, false);
                    for (size_t i = 0; i < n; ++i)
                        m.flat(i) = mv[i] != 0;
                    // the same mask VALUE handed over in another form (set_mask accepts any xtensor
                    // expression): column-major container, fixed-rank tensor, lazy expression, or a lazy
                    // non-element-wise view of the graph's own current mask
                    const std::string form = s.get_str("form", "");
                    const auto gshape = grid->shape();
                    if (form == "col")
                    {
                        std::vector<size_t> shp(gshape.begin(), gshape.end());
                        xt::xarray<bool, xt::layout_type::column_major> mc
                            = xt::xarray<bool, xt::layout_type::column_major>::from_shape(shp);
                        if (shp.size() == 2)
                        {
                            for (size_t r = 0; r < shp[0]; ++r)
                                for (size_t c = 0; c < shp[1]; ++c)
                                    mc(r, c) = m(r, c);
                        }
                        else
                            for (size_t i = 0; i < n; ++i)
                                mc(i) = m(i);
                        h.fg->set_mask(mc);
                    }
                    else if (form == "xtensor")
                    {
                        constexpr size_t rank = std::tuple_size<std::decay_t<decltype(gshape)>>::value;
                        xt::xtensor<bool, rank> mt = m;
                        h.fg->set_mask(mt);
                    }
                    else if (form == "expr")
                    {
                        auto ints = grid_array<G, int>(*grid, 0);
                        for (size_t i = 0; i < n; ++i)
                            ints.flat(i) = mv[i] != 0 ? 3 : 0;
                        h.fg->set_mask(xt::not_equal(ints, 0));
                    }
                    else if (form == "flip_own")
                    {
                        xt::xarray<bool> rev = xt::flip(m, 0);
                        h.fg->set_mask(rev);  // (not observed: no update in between)
                        h.fg->set_mask(xt::flip(h.fg->impl().mask(), 0));
                    }
                    else
                        h.fg->set_mask(m);
                    std::vector<long long> back(n);
                    auto mk = h.fg->mask();
                    for (size_t i = 0; i < n; ++i)
                        back[i] = mk.flat(i) ? 1 : 0;
                    o.str("e", "SetMask").num("g", g).ints("m", mv).ints("back", back);
                    emit(o.done());
                }
                else if (op == "burn")
                {
                    // "times" further update_routes calls with the same field, not logged: the specification
                    // has no hidden state, so unobserved calls change nothing (call counters, stamps and
                    // generation numbers of the implementation must not show either)
                    auto& h = graphs.at(g);
                    h.z = make_z(s["z"]);
                    long long times = s["times"].as_int();
                    for (long long k = 0; k < times; ++k)
                        h.out = &h.fg->update_routes(h.z);
                    continue;
                }
                else if (op == "mask_bad")
                {
                    // a mask whose shape is not the grid's: must be refused, the graph stays as it was
                    auto& h = graphs.at(g);
                    xt::xarray<bool> m = xt::xarray<bool>::from_shape({ n + 1 });
                    m.fill(true);
                    std::string threw;
                    try
                    {
                        h.fg->set_mask(m);
                    }
                    catch (const std::exception& e)
                    {
                        threw = exc_kind(e);
                    }
                    o.str("e", "SetMaskBad").num("g", g).str("threw", threw);
                    emit(o.done());
                }
                else if (op == "bl")
                {
                    auto& h = graphs.at(g);
                    auto bv = s["bl"].as_ints();
                    std::vector<size_t> bl(bv.begin(), bv.end());
                    h.fg->set_base_levels(bl);
                    auto back = h.fg->base_levels();
                    std::sort(back.begin(), back.end());
                    o.str("e", "SetBL").num("g", g).ints("bl", bv).ints("back", back);
                    emit(o.done());
                }
                else if (op == "param")
                {
                    auto& h = graphs.at(g);
                    size_t i = static_cast<size_t>(s["i"].as_int());
                    o.str("e", "SetParam").num("g", g).num("i", static_cast<long long>(i));
                    auto& oh = h.ops.at(i);
                    if (oh.multi)
                    {
                        oh.multi->m_slope_exp = pcode_to_exp(s["p"].as_int());
                        o.num("p", s["p"].as_int());
                    }
                    else if (oh.mst)
                    {
                        // both members are public (and read-write in the Python bindings)
                        if (s.has("r"))
                        {
                            oh.mst->m_route_method = s["r"].as_str() == "basic"
                                                         ? fs::mst_route_method::basic
                                                         : fs::mst_route_method::carve;
                            o.str("r", s["r"].as_str());
                        }
                        if (s.has("m"))
                        {
                            oh.mst->m_basin_method = s["m"].as_str() == "boruvka"
                                                         ? fs::mst_method::boruvka
                                                         : fs::mst_method::kruskal;
                            o.str("m", s["m"].as_str());
                        }
                    }
                    emit(o.done());
                }
                else if (op == "update")
                {
                    auto& h = graphs.at(g);
                    // z kind "prev": the values of the array returned by the last update of graph "of";
                    // alias = 1 (of = this graph): that array OBJECT itself is the argument (the usual
                    // "elevation = graph.update_routes(elevation)" coupling), alias = 0: a copy of it
                    const bool prev = s["z"].get_str("k", "int") == "prev";
                    bool aliased = false;
                    xt::xarray<double> copy;
                    const xt::xarray<double>* outp = nullptr;
                    if (prev)
                    {
                        auto& src = graphs.at(s["z"].get_int("of", g));
                        if (!src.out)
                            throw std::runtime_error("prev: no earlier update");
                        copy = *src.out;
                        aliased = s["z"].get_int("alias", 0) != 0 && s["z"].get_int("of", g) == g;
                        if (aliased)
                            outp = &h.fg->update_routes(*h.out);
                        else
                        {
                            h.z = copy;
                            outp = &h.fg->update_routes(h.z);
                        }
                    }
                    else
                    {
                        h.z = make_z(s["z"]);
                        copy = h.z;
                        outp = &h.fg->update_routes(h.z);
                    }
                    const auto& out = *outp;
                    h.out = &out;
                    bool argsame = true;
                    if (!aliased)
                        for (size_t i = 0; i < n; ++i)
                            argsame = argsame && same_bits(copy.flat(i), h.z.flat(i));
                    o.str("e", "Update").num("g", g);
                    o.str("zk", prev ? "raw" : s["z"].get_str("k", "int"));
                    o.num("ze", prev ? 0 : s["z"].get_int("e", 0));
                    o.ints("zm", prev ? std::vector<long long>(n, 0) : s["z"]["m"].as_ints());
                    o.num("aliased", aliased ? 1 : 0);
                    std::vector<double> zi(n), zo(n);
                    std::vector<int> same(n);
                    for (size_t i = 0; i < n; ++i)
                    {
                        zi[i] = copy.flat(i);
                        zo[i] = out.flat(i);
                        same[i] = same_bits(zi[i], zo[i]) ? 1 : 0;
                    }
                    o.raw("zin", rk.refs(zi)).raw("zout", rk.refs(zo)).ints("same", same);
                    {
                        // Certificate for the spill level of the input (an untrusted hint: TLC verifies
                        // that it is the least fixpoint before using it): for every node the node whose
                        // input elevation is its spill level, a neighbour through which that level is
                        // reached and the order in which a flood from the base levels reaches the nodes.
                        std::vector<long long> spn(n, -1), spp(n, -1), spo(n, -1);
                        std::vector<char> msk(n, 0), isbl(n, 0), done(n, 0);
                        auto mk = h.fg->mask();
                        if (mk.size() == n)
                            for (size_t i = 0; i < n; ++i)
                                msk[i] = mk.flat(i) ? 1 : 0;
                        for (auto b : h.fg->base_levels())
                            if (b < n)
                                isbl[b] = 1;
                        using item = std::tuple<double, long long, size_t, long long, long long>;  // level, seq, node, level node, parent
                        std::priority_queue<item, std::vector<item>, std::greater<item>> pq;
                        long long seq = 0;
                        for (size_t b = 0; b < n; ++b)
                            if (isbl[b] && !msk[b])
                                pq.push(item(zi[b], seq++, b, static_cast<long long>(b), -1));
                        long long order = 0;
                        typename G::neighbors_indices_type nbuf;
                        while (!pq.empty())
                        {
                            auto [lv, sq, i, ln, par] = pq.top();
                            pq.pop();
                            (void) sq;
                            if (done[i])
                                continue;
                            done[i] = 1;
                            spn[i] = ln;
                            spp[i] = par;
                            spo[i] = order++;
                            for (auto m : grid->neighbors_indices(i, nbuf))
                            {
                                if (m >= n || done[m] || msk[m] || isbl[m])
                                    continue;
                                bool up = zi[m] > lv;
                                pq.push(item(up ? zi[m] : lv, seq++, m, up ? static_cast<long long>(m) : ln,
                                             static_cast<long long>(i)));
                            }
                        }
                        o.ints("spn", spn).ints("spp", spp).ints("spo", spo);
                    }
                    o.num("argsame", argsame ? 1 : 0);
                    o.num("retarg", (&out == &h.z) ? 1 : 0);
                    dump_impl(o, h.fg->impl());
                    emit(o.done());
                }
                else if (op == "acc")
                {
                    auto& h = graphs.at(g);
                    fg_t* fgp = h.fg.get();
                    std::string sname = s.get_str("snap", "");
                    if (!sname.empty())
                        fgp = &h.fg->graph_snapshot(sname);
                    auto sv = s["src"].as_ints();
                    int K = static_cast<int>(s.get_int("K", 0));
                    // "E": the source in other units, src = sv * 2^E (exact); the results are brought back by the
                    // same exact factor (and by the grid's own scale) before they are logged as integers
                    const bool hasE = s.has("E");
                    const int E = static_cast<int>(s.get_int("E", 0));
                    auto src = grid_array<G, double>(*grid, 0.0);
                    bool uniform = true;
                    for (size_t i = 0; i < n; ++i)
                    {
                        src.flat(i) = std::ldexp(static_cast<double>(sv[i]), E);
                        uniform = uniform && sv[i] == sv[0];
                    }
                    const double s0 = std::ldexp(static_cast<double>(sv[0]), E);
                    o.str("e", "Accumulate").num("g", g).str("snap", sname).ints("src", sv);
                    o.num("K", K);
                    if (hasE)
                        o.num("E", E);
                    std::vector<xt::xarray<double>> res;
                    res.push_back(fgp->accumulate(src));
                    {
                        auto acc = grid_array<G, double>(*grid, -7.0);
                        fgp->accumulate(acc, src);
                        res.push_back(acc);
                    }
                    if (uniform)
                    {
                        res.push_back(fgp->accumulate(s0));
                        auto acc = grid_array<G, double>(*grid, -7.0);
                        fgp->accumulate(acc, s0);
                        res.push_back(acc);
                    }
                    std::string racc = "[";
                    for (size_t k = 0; k < res.size(); ++k)
                    {
                        std::vector<double> v(n);
                        for (size_t i = 0; i < n; ++i)
                            v[i] = res[k].flat(i);
                        racc += (k ? "," : "") + rk.refs(v);
                    }
                    o.raw("racc", racc + "]");
                    std::vector<long long> ai(n), ax(n), ar(n), arx(n);
                    std::vector<double> areas(n);
                    for (size_t i = 0; i < n; ++i)
                    {
                        double a = std::ldexp(res[0].flat(i), K - E - 2 * dsc);   // grid scale: areas are logged in units of 4^dsc
                        // exact-domain flag: an integer small enough for TLC's 32-bit balance (x 256)
                        ax[i] = (std::isfinite(a) && std::fabs(a) < 2.0e6 && a == std::floor(a));
                        ai[i] = ax[i] ? static_cast<long long>(a) : 0;
                        double ga = std::ldexp(grid->nodes_areas(i), -2 * dsc);
                        areas[i] = grid->nodes_areas(i);
                        arx[i] = (std::isfinite(ga) && std::fabs(ga) < 2.0e9 && ga == std::floor(ga));
                        ar[i] = arx[i] ? static_cast<long long>(ga) : 0;
                    }
                    o.ints("ai", ai).ints("ax", ax).ints("area", ar).ints("areax", arx);
                    if (hasE)
                    {
                        std::vector<long long> fin(n, 1);
                        for (auto& rr : res)
                            for (size_t i = 0; i < n; ++i)
                                if (!std::isfinite(rr.flat(i)))
                                    fin[i] = 0;
                        o.ints("fin", fin);
                    }
                    {
                        // fixed-point copy (units of 2^-5) for the approximate balance, checked on every
                        // graph whose values are in range (integer areas, |acc| < 4096, unscaled grid)
                        std::vector<long long> aq(n, 0);
                        bool okq = dsc == 0;
                        for (size_t i = 0; i < n && okq; ++i)
                        {
                            double a = res[0].flat(i);
                            okq = std::isfinite(a) && std::fabs(a) < 4096.0 && arx[i];
                            if (okq)
                                aq[i] = std::llround(std::ldexp(a, 5));
                        }
                        o.ints("aq", aq).num("aqx", okq ? 1 : 0);
                    }
                    o.raw("rarea", rk.refs(areas));
                    o.raw("rzero", rk.ref(0.0));
                    emit(o.done());
                }
                else if (op == "basins")
                {
                    auto& h = graphs.at(g);
                    fg_t* fgp = h.fg.get();
                    std::string sname = s.get_str("snap", "");
                    if (!sname.empty())
                        fgp = &h.fg->graph_snapshot(sname);
                    auto b = fgp->basins();
                    std::vector<long long> lab(n);
                    for (size_t i = 0; i < n; ++i)
                        lab[i] = b.flat(i) == std::numeric_limits<size_t>::max()
                                     ? -1
                                     : static_cast<long long>(b.flat(i));
                    o.str("e", "Basins").num("g", g).str("snap", sname).ints("lab", lab);
                    o.ints("outlets", fgp->impl().outlets());
                    // pits() is a non-const member of the implementation (as used by the resolver)
                    auto pits = fgp->impl_ptr()->pits();
                    o.ints("pits", pits);
                    emit(o.done());
                }
                else if (op == "snap")
                {
                    auto& h = graphs.at(g);
                    std::string name = s["name"].as_str();
                    auto& sg = h.fg->graph_snapshot(name);
                    o.str("e", "SnapGraph").num("g", g).str("name", name);
                    dump_impl(o, sg.impl());
                    auto bl = sg.base_levels();
                    std::sort(bl.begin(), bl.end());
                    o.ints("bl", bl);
                    emit(o.done());
                }
                else if (op == "esnap")
                {
                    auto& h = graphs.at(g);
                    std::string name = s["name"].as_str();
                    const auto& es = h.fg->elevation_snapshot(name);
                    std::vector<double> v(n);
                    for (size_t i = 0; i < n; ++i)
                        v[i] = es.flat(i);
                    o.str("e", "SnapElev").num("g", g).str("name", name).raw("z", rk.refs(v));
                    emit(o.done());
                }
                else if (op == "snapmut")
                {
                    auto& h = graphs.at(g);
                    std::string name = s["name"].as_str();
                    std::string call = s["call"].as_str();
                    auto& sg = h.fg->graph_snapshot(name);
                    std::string threw;
                    try
                    {
                        if (call == "update")
                        {
                            auto z = grid_array<G, double>(*grid, 1.0);
                            sg.update_routes(z);
                        }
                        else if (call == "mask")
                        {
                            auto m = grid_array<G, bool>(*grid, false);
                            sg.set_mask(m);
                        }
                        else
                        {
                            std::vector<size_t> bl{ 0 };
                            sg.set_base_levels(bl);
                        }
                    }
                    catch (const std::exception& e)
                    {
                        threw = exc_kind(e);
                    }
                    o.str("e", "SnapMutate").num("g", g).str("name", name).str("call", call);
                    o.str("threw", threw);
                    emit(o.done());
                }
                else
                    extra_step(op, s, g, o);
                note("step");
            }
            graphs.clear();  // destructors (worker pool shutdown) run inside the watchdog
            grid2.reset();
            grid.reset();
            return rk.resolve(lines);
        }

        // eroder / kernel / basin-graph steps are defined in flow_extra.hpp
        void extra_step(const std::string& op, const vj::value& s, long long g, vj::obj& o);
    };
}
