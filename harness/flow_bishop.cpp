#include "flow_extra.hpp"
namespace vh { std::string run_flow_bishop(const vj::value& c) { flow_runner<bishop_t> r; return r.run(c); } }
