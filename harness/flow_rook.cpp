#include "flow_extra.hpp"
namespace vh { std::string run_flow_rook(const vj::value& c) { flow_runner<rook_t> r; return r.run(c); } }
