#include "flow_extra.hpp"
namespace vh { std::string run_flow_queen_nc(const vj::value& c) { flow_runner<queen_nc_t> r; return r.run(c); } }
