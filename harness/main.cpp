// fsl_harness: executes verification cases (ndjson, one case per line) against the real library
// and writes the recorded trace (ndjson).  Every case runs in a forked child under a watchdog.
#include <fstream>
#include <iostream>

#include "fastscapelib/utils/verif_hooks.hpp"

#include "common.hpp"

namespace vh
{
    std::string run_flow_profile(const vj::value&);
    std::string run_flow_rook(const vj::value&);
    std::string run_flow_queen(const vj::value&);
    std::string run_flow_bishop(const vj::value&);
    std::string run_flow_queen_nc(const vj::value&);
    std::string run_flow_mesh(const vj::value&);
    std::string run_grid_case(const vj::value&);
    std::string run_pool_case(const vj::value&);
    std::string run_adi_case(const vj::value&);
    std::string run_uf_case(const vj::value&);
    std::string run_big_case(const vj::value&);

    std::string run_flow_controlled(const vj::value& c, const std::function<std::string()>& body);

    static std::string dispatch_flow(const vj::value& c);

    static std::string dispatch(const vj::value& c)
    {
        const std::string kind = c.get_str("kind", "flow");
        // knobs of the guarded hooks (case field "knobs"); every case runs in its own process
        if (c.has("knobs") && c["knobs"].has("low_degree"))
        {
#ifdef FSL_VERIF_HAS_KNOBS
            fastscapelib::verif::boruvka_max_low_degree().store(static_cast<std::size_t>(c["knobs"]["low_degree"].as_int()));
#else
            note("knob low_degree not available in this tree: library value used");
#endif
        }
        if (kind == "flow" && c.has("ctl"))
            return run_flow_controlled(c, [&] { return dispatch_flow(c); });
        if (kind == "flow")
            return dispatch_flow(c);
        if (kind == "grid")
            return run_grid_case(c);
        if (kind == "pool")
            return run_pool_case(c);
        if (kind == "adi")
            return run_adi_case(c);
        if (kind == "uf")
            return run_uf_case(c);
        if (kind == "big")
            return run_big_case(c);
        throw std::runtime_error("unknown case kind " + kind);
    }

    static std::string dispatch_flow(const vj::value& c)
    {
        {
            const auto& g = c["grid"];
            const std::string t = g["t"].as_str();
            if (t == "profile")
                return run_flow_profile(c);
            if (t == "mesh")
                return run_flow_mesh(c);
            const std::string conn = g.get_str("conn", "queen");
            bool cache = g.get_int("cache", 1) != 0;
            if (conn == "rook")
                return run_flow_rook(c);
            if (conn == "bishop")
                return run_flow_bishop(c);
            return cache ? run_flow_queen(c) : run_flow_queen_nc(c);
        }
    }
}

int main(int argc, char** argv)
{
    std::string cases, out;
    int timeout_ms = 10000;
    bool inproc = false;
    for (int i = 1; i < argc; ++i)
    {
        std::string a = argv[i];
        if (a == "--cases" && i + 1 < argc)
            cases = argv[++i];
        else if (a == "--out" && i + 1 < argc)
            out = argv[++i];
        else if (a == "--timeout" && i + 1 < argc)
            timeout_ms = std::atoi(argv[++i]);
        else if (a == "--inproc")
            inproc = true;  // debugging aid: no fork
    }
    if (cases.empty() || out.empty())
    {
        std::fprintf(stderr, "usage: fsl_harness --cases FILE --out FILE [--timeout ms]\n");
        return 2;
    }
    std::ifstream in(cases);
    if (!in)
    {
        std::fprintf(stderr, "cannot open %s\n", cases.c_str());
        return 2;
    }
    FILE* fo = std::fopen(out.c_str(), "w");
    if (!fo)
        return 2;
    std::string line;
    long ncase = 0, nfail = 0;
    while (std::getline(in, line))
    {
        if (line.empty())
            continue;
        vj::vptr c;
        try
        {
            c = vj::parse(line);
        }
        catch (const std::exception& e)
        {
            std::fprintf(stderr, "bad case line %ld: %s\n", ncase, e.what());
            return 2;
        }
        std::string id = c->get_str("id", std::to_string(ncase));
        ++ncase;
        vh::child_result r;
        if (inproc)
            r.out = vh::dispatch(*c);
        else
            r = vh::run_child([&](std::string& o) { o = vh::dispatch(*c); },
                              static_cast<int>(c->get_int("timeout_ms", timeout_ms)));
        // split progress notes from trace lines
        std::string body;
        long steps = 0;
        std::string lastnote;
        size_t p = 0;
        while (p < r.out.size())
        {
            size_t q = r.out.find('\n', p);
            if (q == std::string::npos)
                q = r.out.size();
            if (r.out[p] == '#')
            {
                lastnote = r.out.substr(p + 1, q - p - 1);
                if (lastnote == "step")
                    ++steps;
            }
            else if (q > p)
                body += r.out.substr(p, q - p) + "\n";
            p = q + 1;
        }
        std::fprintf(fo, "{\"e\":\"Reset\",\"case\":\"%s\"}\n", vh::jesc(id).c_str());
        if (r.status == 0)
            std::fputs(body.c_str(), fo);
        else
        {
            ++nfail;
            const char* why = r.status == 1 ? "timeout" : r.status == 2 ? "signal" : "exit";
            std::fprintf(fo,
                         "{\"e\":\"NoReturn\",\"case\":\"%s\",\"why\":\"%s\",\"detail\":%d,"
                         "\"steps_done\":%ld,\"note\":\"%s\"}\n",
                         vh::jesc(id).c_str(),
                         why,
                         r.detail,
                         steps,
                         vh::jesc(lastnote).c_str());
        }
    }
    std::fclose(fo);
    std::fprintf(stderr, "cases=%ld noreturn=%ld\n", ncase, nfail);
    return 0;
}
