// Large grids (kind "big"): accessor queries and routing observed at SAMPLED nodes only.
// case: {"kind":"big","id":..,"grid":{raster|profile descriptor},"f":{"a":..,"b":..,"m1":..,"m2":..},
//        "queries":[[inst, node], ...], "routes":[{"thr":0|k,"samples":[nodes]}]}
// The elevation of a node is an integer formula of its row and column (BigGridTrace!ZOf), so the
// specification can evaluate it for any node without a logged field.
#include "fastscapelib/flow/flow_graph.hpp"
#include "fastscapelib/flow/flow_router.hpp"
#include "fastscapelib/flow/sink_resolver.hpp"

#include "grids.hpp"

namespace vh
{
    namespace
    {
        long long z_of(const vj::value& d, const vj::value& f, size_t i)
        {
            long long r = 0, c = static_cast<long long>(i);
            if (d["t"].as_str() == "raster")
            {
                long long nc = d["nc"].as_int();
                r = static_cast<long long>(i) / nc;
                c = static_cast<long long>(i) % nc;
            }
            return ((f["a"].as_int() * r + f["b"].as_int() * c) % f["m1"].as_int()) + ((r * c) % f["m2"].as_int());
        }

        // "comb lake": border at level B (the default base levels), a spine (row 1) and the odd columns at
        // the floor level L, the even columns walls at W - one closed depression of long one-node corridors
        long long comb_of(const vj::value& d, const vj::value& f, size_t i)
        {
            long long nc = d["nc"].as_int(), nr = d["nr"].as_int();
            long long r = static_cast<long long>(i) / nc, c = static_cast<long long>(i) % nc;
            if (r == 0 || r == nr - 1 || c == 0 || c == nc - 1)
                return f["B"].as_int();
            if (r == 1 || (c % 2 == 1 && c >= f["c0"].as_int()))
                return f["L"].as_int();   // (c0: first corridor column - varies how far the front has advanced when it first exceeds a given width)
            return f["W"].as_int();
        }

        template <class G>
        long long dq_of(double d, int dsc)
        {
            double d2 = std::ldexp(d * d, -2 * dsc);
            return (std::isfinite(d2) && d2 < 2.0e9) ? std::llround(d2) : -1;
        }

        template <class G, bool RC>
        void query(std::string& out, G& g, long long inst, size_t i, int dsc)
        {
            vj::obj o;
            o.str("e", "BigQ").num("inst", inst).num("i", static_cast<long long>(i));
            o.num("count", static_cast<long long>(g.neighbors_count(i)));
            std::string si = "[", sn = "[";
            bool f = true;
            for (auto x : g.neighbors_indices(i))
            {
                si += (f ? "" : ",") + std::to_string(static_cast<long long>(x));
                f = false;
            }
            f = true;
            for (const auto& nb : g.neighbors(i))
            {
                sn += std::string(f ? "" : ",") + "[" + std::to_string(nb.idx) + "," + std::to_string(dq_of<G>(nb.distance, dsc))
                      + "," + std::to_string(static_cast<int>(nb.status)) + "]";
                f = false;
            }
            o.raw("indices", si + "]").raw("neighbors", sn + "]");
            if constexpr (RC)
            {
                size_t nc = g.shape()[1];
                std::string s = "[";
                auto v = g.neighbors_indices(i / nc, i % nc);
                for (size_t k = 0; k < v.size(); ++k)
                    s += std::string(k ? "," : "") + "[" + std::to_string(v[k].first) + "," + std::to_string(v[k].second) + "]";
                o.raw("rc_indices", s + "]");
            }
            out += o.done() + "\n";
        }

        template <class GC, class GN, bool RC>
        std::string run(const vj::value& c)
        {
            const auto& gd = c["grid"];
            int dsc = static_cast<int>(gd.get_int("sc", 0));
            auto g0 = grid_maker<GC>::make(gd);
            auto g1 = grid_maker<GN>::make(gd);
            size_t n = g0->size();
            std::string out;
            {
                vj::obj o;
                o.str("e", "BigGrid").raw("d", vj::dump(gd)).num("n", static_cast<long long>(n));
                if (c.has("f"))
                    o.raw("f", vj::dump(c["f"]));
                out += o.done() + "\n";
            }
            if (c.has("queries"))
                for (auto& qp : c["queries"].a)
                {
                    long long inst = (*qp)[0].as_int();
                    size_t i = static_cast<size_t>((*qp)[1].as_int());
                    if (inst == 0)
                        query<GC, RC>(out, *g0, inst, i, dsc);
                    else
                        query<GN, RC>(out, *g1, inst, i, dsc);
                }
            if (c.has("routes"))
            {
                auto z = grid_array<GC, double>(*g0, 0.0);
                for (size_t i = 0; i < n; ++i)
                    z.flat(i) = static_cast<double>(z_of(gd, c["f"], i));
                for (auto& rp : c["routes"].a)
                {
                    const auto& rt = *rp;
                    int thr = static_cast<int>(rt.get_int("thr", 0));
                    note("big route");
                    fs::flow_graph<GC> fg(*g0, { thr > 0 ? fs::single_flow_router(thr) : fs::single_flow_router() });
                    fg.update_routes(z);
                    const auto& im = fg.impl();
                    std::string smp = "[";
                    bool first = true;
                    for (auto& sp : rt["samples"].a)
                    {
                        size_t i = static_cast<size_t>(sp->as_int());
                        size_t nr = im.receivers_count()[i];
                        vj::obj s;
                        s.num("i", static_cast<long long>(i)).num("z", z_of(gd, c["f"], i)).num("nrec", static_cast<long long>(nr));
                        std::vector<long long> rec, dq, wq, wc;
                        for (size_t k = 0; k < std::min<size_t>(nr, im.receivers().shape()[1]); ++k)
                        {
                            rec.push_back(static_cast<long long>(im.receivers()(i, k)));
                            dq.push_back(dq_of<GC>(im.receivers_distance()(i, k), dsc));
                            wq.push_back(qfix(im.receivers_weight()(i, k), 20));
                            wc.push_back(dclass(im.receivers_weight()(i, k)));
                        }
                        s.ints("rec", rec).ints("dq", dq).ints("wq", wq).ints("wc", wc);
                        smp += std::string(first ? "" : ",") + s.done();
                        first = false;
                    }
                    vj::obj o;
                    o.str("e", "BigRoute").num("thr", thr).raw("smp", smp + "]");
                    out += o.done() + "\n";
                }
            }
            if (c.has("fills"))
            {
                // depression filling on a world of a million nodes, observed at sampled nodes: how many
                // representable values the returned elevation lies above the input / above the border level
                const auto& cf = c["comb"];
                auto z = grid_array<GC, double>(*g0, 0.0);
                for (size_t i = 0; i < n; ++i)
                    z.flat(i) = static_cast<double>(comb_of(gd, cf, i));
                const double B = static_cast<double>(cf["B"].as_int());
                for (auto& fp : c["fills"].a)
                {
                    const auto& ft = *fp;
                    note("big fill");
                    fs::flow_graph<GC> fg(*g0, { fs::pflood_sink_resolver(), fs::single_flow_router() });
                    const auto& zo = fg.update_routes(z);
                    auto clip = [](int64_t v) { return static_cast<long long>(std::max<int64_t>(-2000000000, std::min<int64_t>(2000000000, v))); };
                    std::string smp = "[";
                    bool first = true;
                    for (auto& sp : ft["samples"].a)
                    {
                        size_t i = static_cast<size_t>(sp->as_int());
                        vj::obj s;
                        double o = zo.flat(i);
                        s.num("i", static_cast<long long>(i)).num("z", comb_of(gd, cf, i));
                        s.num("fin", std::isfinite(o) ? 1 : 0);
                        s.num("uz", clip(dkey(o) - dkey(z.flat(i)))).num("ub", clip(dkey(o) - dkey(B)));
                        s.num("same", same_bits(o, z.flat(i)) ? 1 : 0);
                        s.num("self", fg.impl().receivers()(i, 0) == i ? 1 : 0);
                        smp += std::string(first ? "" : ",") + s.done();
                        first = false;
                    }
                    vj::obj o;
                    o.str("e", "BigFill").raw("comb", vj::dump(cf)).raw("smp", smp + "]");
                    out += o.done() + "\n";
                }
            }
            return out;
        }
    }

    std::string run_big_case(const vj::value& c)
    {
        const auto& g = c["grid"];
        if (g["t"].as_str() == "profile")
            return run<profile_t, profile_nc_t, false>(c);
        if (g.get_str("conn", "queen") == "rook")
            return run<rook_t, rook_nc_t, true>(c);
        return run<queen_t, queen_nc_t, true>(c);
    }
}
