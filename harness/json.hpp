// Minimal JSON reader/writer for the verification harness (cases in, ndjson trace lines out).
// Only what the harness needs: objects, arrays, strings without exotic escapes, integers,
// doubles, booleans, null.
#pragma once
#include <cstdint>
#include <cstdio>
#include <cstdlib>
#include <cstring>
#include <map>
#include <memory>
#include <stdexcept>
#include <string>
#include <vector>

namespace vj
{
    struct value;
    using vptr = std::shared_ptr<value>;

    struct value
    {
        enum kind_t
        {
            NUL,
            BOOL,
            NUM,
            STR,
            ARR,
            OBJ
        } kind
            = NUL;
        bool b = false;
        double d = 0;
        long long i = 0;
        bool is_int = false;
        std::string s;
        std::vector<vptr> a;
        std::vector<std::pair<std::string, vptr>> o;

        bool has(const std::string& k) const
        {
            for (auto& kv : o)
                if (kv.first == k)
                    return true;
            return false;
        }
        const value& at(const std::string& k) const
        {
            for (auto& kv : o)
                if (kv.first == k)
                    return *kv.second;
            throw std::runtime_error("json: missing key " + k);
        }
        const value& operator[](const std::string& k) const
        {
            return at(k);
        }
        const value& operator[](size_t idx) const
        {
            return *a.at(idx);
        }
        size_t size() const
        {
            return kind == ARR ? a.size() : o.size();
        }
        long long as_int() const
        {
            if (kind == BOOL)
                return b ? 1 : 0;
            if (kind != NUM)
                throw std::runtime_error("json: not a number");
            return is_int ? i : static_cast<long long>(d);
        }
        double as_double() const
        {
            if (kind == STR)
                return std::strtod(s.c_str(), nullptr);
            if (kind != NUM)
                throw std::runtime_error("json: not a number");
            return is_int ? static_cast<double>(i) : d;
        }
        const std::string& as_str() const
        {
            if (kind != STR)
                throw std::runtime_error("json: not a string");
            return s;
        }
        long long get_int(const std::string& k, long long def) const
        {
            return has(k) ? at(k).as_int() : def;
        }
        std::string get_str(const std::string& k, const std::string& def) const
        {
            return has(k) ? at(k).as_str() : def;
        }
        std::vector<long long> as_ints() const
        {
            std::vector<long long> r;
            for (auto& e : a)
                r.push_back(e->as_int());
            return r;
        }
    };

    struct parser
    {
        const char* p;
        const char* end;
        explicit parser(const std::string& s)
            : p(s.data())
            , end(s.data() + s.size())
        {
        }
        void ws()
        {
            while (p < end && (*p == ' ' || *p == '\t' || *p == '\n' || *p == '\r'))
                ++p;
        }
        [[noreturn]] void fail(const char* m)
        {
            throw std::runtime_error(std::string("json parse: ") + m);
        }
        vptr parse()
        {
            ws();
            if (p >= end)
                fail("eof");
            auto v = std::make_shared<value>();
            char c = *p;
            if (c == '{')
            {
                v->kind = value::OBJ;
                ++p;
                ws();
                if (*p == '}')
                {
                    ++p;
                    return v;
                }
                while (true)
                {
                    ws();
                    auto k = parse();
                    if (k->kind != value::STR)
                        fail("key");
                    ws();
                    if (*p != ':')
                        fail(":");
                    ++p;
                    auto val = parse();
                    v->o.emplace_back(k->s, val);
                    ws();
                    if (*p == ',')
                    {
                        ++p;
                        continue;
                    }
                    if (*p == '}')
                    {
                        ++p;
                        break;
                    }
                    fail("obj sep");
                }
            }
            else if (c == '[')
            {
                v->kind = value::ARR;
                ++p;
                ws();
                if (*p == ']')
                {
                    ++p;
                    return v;
                }
                while (true)
                {
                    v->a.push_back(parse());
                    ws();
                    if (*p == ',')
                    {
                        ++p;
                        continue;
                    }
                    if (*p == ']')
                    {
                        ++p;
                        break;
                    }
                    fail("arr sep");
                }
            }
            else if (c == '"')
            {
                v->kind = value::STR;
                ++p;
                while (p < end && *p != '"')
                {
                    if (*p == '\\' && p + 1 < end)
                    {
                        ++p;
                        char e = *p;
                        v->s.push_back(e == 'n' ? '\n' : e == 't' ? '\t' : e);
                    }
                    else
                        v->s.push_back(*p);
                    ++p;
                }
                ++p;
            }
            else if (c == 't' && end - p >= 4 && !std::strncmp(p, "true", 4))
            {
                v->kind = value::BOOL;
                v->b = true;
                p += 4;
            }
            else if (c == 'f' && end - p >= 5 && !std::strncmp(p, "false", 5))
            {
                v->kind = value::BOOL;
                v->b = false;
                p += 5;
            }
            else if (c == 'n' && end - p >= 4 && !std::strncmp(p, "null", 4))
            {
                v->kind = value::NUL;
                p += 4;
            }
            else
            {
                v->kind = value::NUM;
                const char* q = p;
                bool isint = true;
                if (*q == '-' || *q == '+')
                    ++q;
                while (q < end
                       && ((*q >= '0' && *q <= '9') || *q == '.' || *q == 'e' || *q == 'E'
                           || *q == '-' || *q == '+'))
                {
                    if (*q == '.' || *q == 'e' || *q == 'E')
                        isint = false;
                    ++q;
                }
                if (q == p)
                    fail("value");
                std::string t(p, q);
                v->is_int = isint;
                if (isint)
                    v->i = std::strtoll(t.c_str(), nullptr, 10);
                v->d = std::strtod(t.c_str(), nullptr);
                p = q;
            }
            return v;
        }
    };

    inline vptr parse(const std::string& s)
    {
        parser ps(s);
        return ps.parse();
    }

    inline std::string dump(const value& v)
    {
        switch (v.kind)
        {
            case value::NUL:
                return "null";
            case value::BOOL:
                return v.b ? "true" : "false";
            case value::NUM:
                if (v.is_int)
                    return std::to_string(v.i);
                else
                {
                    char buf[64];
                    std::snprintf(buf, sizeof buf, "%.17g", v.d);
                    return buf;
                }
            case value::STR:
                return "\"" + v.s + "\"";
            case value::ARR:
            {
                std::string r = "[";
                for (size_t i = 0; i < v.a.size(); ++i)
                    r += (i ? "," : "") + dump(*v.a[i]);
                return r + "]";
            }
            default:
            {
                std::string r = "{";
                for (size_t i = 0; i < v.o.size(); ++i)
                    r += (i ? ",\"" : "\"") + v.o[i].first + "\":" + dump(*v.o[i].second);
                return r + "}";
            }
        }
    }

    // ---------------------------------------------------------------- writer
    // Builds one JSON object as text.  Values are appended in call order.
    struct obj
    {
        std::string s = "{";
        bool first = true;
        void key(const char* k)
        {
            if (!first)
                s += ",";
            first = false;
            s += "\"";
            s += k;
            s += "\":";
        }
        obj& str(const char* k, const std::string& v)
        {
            key(k);
            s += "\"" + v + "\"";
            return *this;
        }
        obj& num(const char* k, long long v)
        {
            key(k);
            s += std::to_string(v);
            return *this;
        }
        obj& raw(const char* k, const std::string& v)
        {
            key(k);
            s += v;
            return *this;
        }
        template <class V>
        obj& ints(const char* k, const V& v)
        {
            key(k);
            s += "[";
            bool f = true;
            for (auto x : v)
            {
                if (!f)
                    s += ",";
                f = false;
                s += std::to_string(static_cast<long long>(x));
            }
            s += "]";
            return *this;
        }
        template <class VV>
        obj& ints2(const char* k, const VV& vv)
        {
            key(k);
            s += "[";
            bool f = true;
            for (auto& v : vv)
            {
                if (!f)
                    s += ",";
                f = false;
                s += "[";
                bool g = true;
                for (auto x : v)
                {
                    if (!g)
                        s += ",";
                    g = false;
                    s += std::to_string(static_cast<long long>(x));
                }
                s += "]";
            }
            s += "]";
            return *this;
        }
        std::string done() const
        {
            return s + "}";
        }
    };
}
