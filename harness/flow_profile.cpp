#include "flow_extra.hpp"
namespace vh { std::string run_flow_profile(const vj::value& c) { flow_runner<profile_t> r; return r.run(c); } }
