// Worker-pool cases (C11, C10): runs a caller program against the real thread_pool
//   - under a controlled scheduler (one thread runs between two schedule points, the log order is
//     the order of the atomic operations; DESIGN.md 4.2), recording every granted step, or
//   - free-running (no hooks installed), recording only the results (used with the tsan flavour).
// case: {"kind":"pool","id":..,"size":2,"ctrl":1,"seed":7,"pct":2,
//        "prog":[["resume"],["resize",2],["run",0,5,0],["pause"],["stop"]],
//        "hold":[[slot,site,release_on_caller_site],...]}
#include <atomic>
#include <cassert>
#include <cstdio>
#include <cstdlib>
#include <condition_variable>
#include <mutex>
#include <thread>

#include "fastscapelib/utils/thread_pool.hpp"

#include "common.hpp"

#ifndef FASTSCAPELIB_VERIF_HOOKS
#error "the harness must be compiled with -DFASTSCAPELIB_VERIF_HOOKS"
#endif

namespace vh
{
    namespace fs = fastscapelib;
    namespace hk = fastscapelib::verif;

    namespace
    {
        enum st_t
        {
            ST_NONE,
            ST_RUNNING,     // granted, expected to reach its next point
            ST_PARKED,      // at a schedule point, waiting for a grant
            ST_ENTERWAIT,   // granted "cv.wait": running until the mutex is physically released
            ST_INWAIT,      // inside cv.wait, not notified
            ST_WAKING,      // notified, must re-acquire the mutex
            ST_ACQUIRING,   // granted a lock attempt
            ST_EXITING,     // worker granted its exit
            ST_INJOIN       // caller granted a join
        };

        struct thr
        {
            st_t st = ST_NONE;
            int site = 0;
            size_t idx = 0;
            const void* aux = nullptr;
            bool grant = false;
            long prio = 0;
            int last_site = 0;      // site of the previous grant
            bool idle = false;      // the previous iteration of its loop found nothing to do
        };

        struct sched_t
        {
            std::mutex m;
            std::condition_variable cv;
            const void* pool = nullptr;
            bool adopt = false;   // flow mode: the pool that spawns workers is adopted, released when joined
            std::vector<thr> th;  // slot 0 = caller, slot i+1 = worker i
            int mutex_owner = -1;  // mirror of m_cv_m: -1 free
            std::mutex* cvm = nullptr;
            std::string log;
            bool active = false;
            size_t join_target = 0;
            bool caller_done = false;
            bool spurious = false;
            long last_load = -1;
            bool caller_spinning = false;
            std::vector<std::array<long, 3>> holds;  // slot, site, release when caller granted site
            std::vector<bool> hold_active;
        } S;

        thread_local int my_slot = -1;
        constexpr int y_kernel = 60;  // harness-defined schedule point inside kernel functions

        bool is_lock_arrival(int site)
        {
            return site == hk::k_locked || site == hk::k_woken || site == hk::c_locked;
        }

        void logev(const char* e, int slot, int site, size_t idx)
        {
            S.log += "{\"e\":\"" + std::string(e) + "\",\"t\":" + std::to_string(slot)
                     + ",\"s\":" + std::to_string(site) + ",\"i\":" + std::to_string(idx) + "}\n";
        }

        // every schedule point of the library lands here
        void on_hook(int site, const void* obj, std::size_t idx, const void* aux)
        {
            std::unique_lock<std::mutex> lk(S.m);
            if (!S.active)
                return;
#ifdef FSL_VERIF_HAS_KNOBS
            const bool router_point = site == 41;   // verif::r_neighbor (trees that have it)
#else
            const bool router_point = false;
#endif
            if (site == hk::g_neighbors || site == y_kernel || router_point)
            {
                // interior points of the work items: schedule points for controlled workers only
                if (my_slot < 1)
                    return;
            }
            else
            {
                if (S.adopt && S.pool == nullptr && site == hk::c_spawn)
                    S.pool = obj;  // flow mode: this pool is about to start workers
                if (obj != S.pool)
                    return;  // another pool object (never started): not controlled
                if (my_slot < 0)
                    my_slot = (site < 20) ? 0 : static_cast<int>(idx) + 1;
            }
            if (static_cast<size_t>(my_slot) >= S.th.size())
                S.th.resize(static_cast<size_t>(my_slot) + 1);
            thr& t = S.th[static_cast<size_t>(my_slot)];
            if (site == hk::k_woken && t.st == ST_INWAIT)
            {
                // woken without any notify: a spurious wake-up (allowed by the C++ standard, not
                // handled by the library and outside the specification): the run is inconclusive
                S.log += "{\"e\":\"Spurious\"}\n";
                S.spurious = true;
            }
            if (is_lock_arrival(site))
            {
                // arrival at a point that can only be reached holding the mutex: acquisition event
                S.mutex_owner = my_slot;
                logev("a", my_slot, site, idx);
            }
            t.st = ST_PARKED;
            t.site = site;
            t.idx = idx;
            t.aux = aux;
            if (site == hk::k_prelock || site == hk::c_prelock || site == hk::c_notify)
                S.cvm = const_cast<std::mutex*>(static_cast<const std::mutex*>(aux));
            int me = my_slot;
            S.cv.notify_all();
            S.cv.wait(lk, [&] { return S.th[static_cast<size_t>(me)].grant; });
            S.th[static_cast<size_t>(me)].grant = false;
        }

        struct outcome
        {
            bool hang = false;
            std::string why;
        };

        // true when nobody is expected to move without a grant
        bool settled_locked(bool& progress_possible)
        {
            bool contenders = false, contender_arrived = false;
            for (size_t s = 0; s < S.th.size(); ++s)
            {
                thr& t = S.th[s];
                if (t.st == ST_RUNNING)
                    return false;
                if (t.st == ST_ENTERWAIT)
                {
                    if (S.mutex_owner != static_cast<int>(s) && S.mutex_owner != -1)
                        t.st = ST_INWAIT;  // somebody else already got the mutex: it was released
                    else if (S.cvm && S.cvm->try_lock())
                    {
                        S.cvm->unlock();
                        t.st = ST_INWAIT;
                        if (S.mutex_owner == static_cast<int>(s))
                            S.mutex_owner = -1;
                    }
                    else
                        return false;
                }
                if (t.st == ST_INJOIN)
                {
                    // the join returns once the target worker has physically exited
                    if (S.join_target + 1 < S.th.size() && S.th[S.join_target + 1].st == ST_EXITING)
                        return false;  // caller is (or will be) running again: wait for it
                }
                if (t.st == ST_WAKING || t.st == ST_ACQUIRING)
                    contenders = true;
            }
            (void) contender_arrived;
            if (contenders && S.mutex_owner == -1)
                return false;  // somebody is about to get the mutex: wait for its arrival
            progress_possible = true;
            return true;
        }

        // Runs body() in a new "caller" thread under the controlled scheduler.  adopt = FALSE: body
        // sets S.pool itself (pool cases); adopt = TRUE: any pool that starts workers is adopted until
        // its workers have been joined (flow cases: graphs are created and destroyed by body).
        std::string run_controlled_body(const vj::value& c, outcome& oc, const std::function<void()>& body, bool adopt)
        {
            size_t size = static_cast<size_t>(c.get_int("size", 2));
            rng_t rng(static_cast<uint64_t>(c.get_int("seed", 1)));
            S.adopt = adopt;
            S.pool = nullptr;
            int pct = static_cast<int>(c.get_int("pct", 2));
            long max_steps = c.get_int("max_steps", 6000);
            S.th.assign(1, thr());
            S.log.clear();
            S.mutex_owner = -1;
            S.caller_done = false;
            S.spurious = false;
            S.last_load = -1;
            S.caller_spinning = false;
            S.th[0].st = ST_RUNNING;  // the caller thread starts running on its own
            S.holds.clear();
            if (c.has("hold"))
                for (auto& h : c["hold"].a)
                    S.holds.push_back({ (*h)[0].as_int(), (*h)[1].as_int(), (*h)[2].as_int() });
            S.hold_active.assign(S.holds.size(), true);

            std::vector<long> change_points;
            for (int k = 0; k < pct; ++k)
                change_points.push_back(static_cast<long>(rng.below(static_cast<uint64_t>(c.get_int("cp_range", 400)))));
            long low_prio = -1;

            {
                std::lock_guard<std::mutex> lk(S.m);
                S.active = true;
            }
            std::thread caller(
                [&]
                {
                    body();
                    std::lock_guard<std::mutex> lk(S.m);
                    S.caller_done = true;
                    S.th[0].st = ST_NONE;
                    S.cv.notify_all();
                });

            long steps = 0;
            int idle_spins = 0;
            bool release_after_join = false;
            {
                std::unique_lock<std::mutex> lk(S.m);
                while (true)
                {
                    // wait until settled
                    // flow mode: the caller also runs long sequential stretches without any point
                    auto deadline = std::chrono::steady_clock::now() + std::chrono::milliseconds(adopt ? 120000 : 3000);
                    bool pp = false;
                    bool ok = false;
                    while (!(ok = (S.caller_done || settled_locked(pp))))
                    {
                        if (S.cv.wait_for(lk, std::chrono::milliseconds(1)) == std::cv_status::timeout
                            && std::chrono::steady_clock::now() > deadline)
                            break;
                    }
                    if (S.caller_done)
                        break;
                    if (release_after_join && S.th[0].st != ST_INJOIN)
                    {
                        // the adopted pool has been joined: forget it, the next pool that spawns is adopted
                        bool all_gone = true;
                        for (size_t w = 1; w < S.th.size(); ++w)
                            if (S.th[w].st != ST_EXITING && S.th[w].st != ST_NONE)
                                all_gone = false;
                        if (all_gone)
                        {
                            S.pool = nullptr;
                            S.th.resize(1);
                            S.mutex_owner = -1;
                            release_after_join = false;
                        }
                    }
                    if (S.spurious)
                    {
                        oc.hang = true;
                        oc.why = "inconclusive: spurious wake-up";
                        break;
                    }
                    if (!ok)
                    {
                        oc.hang = true;
                        oc.why = "stall: a granted thread neither parked nor blocked within 3 s";
                        break;
                    }
                    // grantable threads
                    std::vector<size_t> cand;
                    for (size_t s = 0; s < S.th.size(); ++s)
                    {
                        thr& t = S.th[s];
                        if (t.st != ST_PARKED)
                            continue;
                        bool held = false;
                        for (size_t h = 0; h < S.holds.size(); ++h)
                        {
                            if (!S.hold_active[h] || S.holds[h][1] != t.site)
                                continue;
                            if (S.holds[h][0] == static_cast<long>(s))
                                held = true;
                            if (S.holds[h][0] == 0 && s != 0)
                            {
                                // slot 0 in a hold rule: "the last worker", i.e. every other live
                                // worker is already inside cv.wait
                                bool last = true;
                                for (size_t o = 1; o < S.th.size(); ++o)
                                    if (o != s && S.th[o].st != ST_NONE && S.th[o].st != ST_EXITING
                                        && S.th[o].st != ST_INWAIT)
                                        last = false;
                                if (last)
                                    held = true;
                            }
                        }
                        if (!held)
                            cand.push_back(s);
                    }
                    if (cand.empty())
                    {
                        // release the holds before judging (a scripted step may be infeasible here)
                        bool any = false;
                        for (size_t h = 0; h < S.holds.size(); ++h)
                            if (S.hold_active[h])
                            {
                                S.hold_active[h] = false;
                                any = true;
                            }
                        if (any)
                        {
                            S.log += "{\"e\":\"note\",\"what\":\"holds released (nothing else could move)\"}\n";
                            continue;
                        }
                        oc.hang = true;
                        oc.why = "deadlock: no thread can move";
                        break;
                    }
                    // a step is a "spin" step when the thread only re-checks a condition:
                    // caller: pause spin, or a flag scan that restarted; worker: loop iterations
                    // that found no job
                    auto is_spin = [&](size_t sl)
                    {
                        thr& u = S.th[sl];
                        if (sl == 0)
                            return u.site == hk::c_spin_pause || (u.site == hk::c_load && S.caller_spinning);
                        return (u.site == hk::w_endloop && u.last_site == hk::w_loop)
                               || (u.site == hk::w_loop && u.idle);
                    };
                    bool only_spin = true;
                    for (size_t sl : cand)
                        if (!is_spin(sl))
                            only_spin = false;
                    if (only_spin)
                    {
                        if (++idle_spins > static_cast<int>(12 * (S.th.size() + 2) + 40))
                        {
                            bool any = false;
                            for (size_t h = 0; h < S.holds.size(); ++h)
                                if (S.hold_active[h])
                                {
                                    S.hold_active[h] = false;
                                    any = true;
                                }
                            if (any)
                            {
                                idle_spins = 0;
                                S.log += "{\"e\":\"note\",\"what\":\"holds released (every runnable thread is spinning)\"}\n";
                                continue;
                            }
                            oc.hang = true;
                            oc.why = "livelock: every runnable thread only spins, every other thread is blocked or gone";
                            break;
                        }
                    }
                    else
                        idle_spins = 0;
                    // PCT-style choice: highest priority among candidates, priorities drawn once,
                    // lowered at the change points; spinning caller steps are deprioritised
                    for (size_t s : cand)
                        if (S.th[s].prio == 0)
                            S.th[s].prio = 1000 + static_cast<long>(rng.below(1000));
                    size_t pick = cand[0];
                    if (pct < 0)
                        pick = cand[rng.below(cand.size())];
                    else
                    {
                        long best = -1000000;
                        for (size_t s : cand)
                        {
                            long p = S.th[s].prio;
                            if (is_spin(s))
                                p = -5000 - static_cast<long>(rng.below(1000));  // spinners yield
                            if (p > best)
                            {
                                best = p;
                                pick = s;
                            }
                        }
                    }
                    for (long cp : change_points)
                        if (cp == steps)
                            S.th[pick].prio = low_prio--;
                    if (++steps > max_steps)
                    {
                        oc.hang = true;
                        oc.why = "step budget exhausted";
                        break;
                    }
                    thr& t = S.th[pick];
                    logev("g", static_cast<int>(pick), t.site, t.idx);
                    if (pick != 0)
                    {
                        if (t.site == hk::w_endloop)
                            t.idle = (t.last_site == hk::w_loop);
                        t.last_site = t.site;
                    }
                    // bookkeeping of what the granted code is about to do
                    if (pick == 0)
                    {
                        if (t.site == hk::c_load)
                        {
                            // a load at an index not larger than the previous one: the scan restarted
                            S.caller_spinning = static_cast<long>(t.idx) <= S.last_load;
                            S.last_load = static_cast<long>(t.idx);
                        }
                        else
                        {
                            S.last_load = -1;
                            S.caller_spinning = false;
                        }
                        for (size_t h = 0; h < S.holds.size(); ++h)
                            if (S.hold_active[h] && S.holds[h][2] == t.site)
                                S.hold_active[h] = false;
                    }
                    t.st = ST_RUNNING;
                    if (t.site == hk::k_prewait)
                        t.st = ST_ENTERWAIT;
                    else if (t.site == hk::k_prelock || t.site == hk::c_prelock)
                        t.st = ST_ACQUIRING;
                    else if (t.site == hk::w_exit)
                        t.st = ST_EXITING;
                    else if (t.site == hk::c_joinall)
                    {
                        S.join_target = t.idx;
                        if (S.adopt && t.idx + 2 >= S.th.size())
                            release_after_join = true;  // last worker of the adopted pool
                        // blocked until that worker has been let out
                        t.st = (t.idx + 1 < S.th.size() && S.th[t.idx + 1].st == ST_EXITING)
                                   ? ST_RUNNING
                                   : ST_INJOIN;
                    }
                    else if (t.site == hk::c_notify)
                    {
                        for (auto& u : S.th)
                            if (u.st == ST_INWAIT)
                                u.st = ST_WAKING;
                    }
                    else if (t.site == hk::k_end || t.site == hk::c_locked)
                    {
                        // the code after this point releases the mutex
                        if (S.mutex_owner == static_cast<int>(pick))
                            S.mutex_owner = -1;
                    }
                    else if (t.site == hk::c_spawn)
                    {
                        size_t slot = t.idx + 1;
                        if (slot >= S.th.size())
                            S.th.resize(slot + 1);
                        S.th[slot] = thr();
                        S.th[slot].st = ST_RUNNING;  // the new thread runs to its first point
                    }
                    else if (t.site == hk::c_reinit)
                    {
                        for (size_t s = 1; s < S.th.size(); ++s)
                            S.th[s] = thr();
                    }
                    S.th[pick].grant = true;
                    S.cv.notify_all();
                }
                if (oc.hang && S.spurious)
                    S.log = "{\"e\":\"Inconclusive\",\"why\":\"spurious wake-up\"}\n";
                else if (oc.hang)
                {
                    S.log += "{\"e\":\"Hang\",\"why\":\"" + jesc(oc.why) + "\"}\n";
                    note("hang " + oc.why);
                }
            }
            if (oc.hang)
            {
                caller.detach();  // the caller thread is abandoned; the child process exits right away
                std::lock_guard<std::mutex> lk(S.m);
                return S.log;
            }
            caller.join();
            std::lock_guard<std::mutex> lk(S.m);
            S.active = false;
            return S.log;
        }

        std::string run_controlled(const vj::value& c, outcome& oc)
        {
            size_t size = static_cast<size_t>(c.get_int("size", 2));
            std::vector<int> out;
            auto body = [&]
            {
                    {
                        fs::thread_pool<std::size_t> pool(size);
                        {
                            std::lock_guard<std::mutex> lk(S.m);
                            S.pool = &pool;
                        }
                        for (auto& opp : c["prog"].a)
                        {
                            const auto& op = *opp;
                            const std::string name = op[0].as_str();
                            {
                                std::lock_guard<std::mutex> lk(S.m);
                                S.log += "{\"e\":\"op\",\"op\":" + vj::dump(op) + "}\n";
                            }
                            if (name == "resume")
                                pool.resume();
                            else if (name == "pause")
                                pool.pause();
                            else if (name == "stop")
                                pool.stop();
                            else if (name == "resize")
                                pool.resize(static_cast<size_t>(op[1].as_int()));
                            else if (name == "run")
                            {
                                size_t first = static_cast<size_t>(op[1].as_int());
                                size_t last = static_cast<size_t>(op[2].as_int());
                                out.assign(last + 1, 0);
                                pool.run_blocks(
                                    first,
                                    last,
                                    [&](std::size_t runner, std::size_t a, std::size_t b)
                                    {
                                        for (size_t i = a; i < b; ++i)
                                            out[i]++;
                                        std::lock_guard<std::mutex> lk(S.m);
                                        S.log += "{\"e\":\"cb\",\"r\":" + std::to_string(runner)
                                                 + ",\"a\":" + std::to_string(a)
                                                 + ",\"b\":" + std::to_string(b) + "}\n";
                                    },
                                    static_cast<size_t>(op[3].as_int()));
                                std::lock_guard<std::mutex> lk(S.m);
                                vj::obj o;
                                o.str("e", "ran").ints("out", out);
                                S.log += o.done() + "\n";
                            }
                            std::lock_guard<std::mutex> lk(S.m);
                            S.log += "{\"e\":\"ret\",\"op\":\"" + name + "\"}\n";
                        }
                        {
                            std::lock_guard<std::mutex> lk(S.m);
                            S.log += "{\"e\":\"op\",\"op\":[\"destroy\"]}\n";
                        }
                    }  // destructor: stop()
                    std::lock_guard<std::mutex> lk(S.m);
                    S.log += "{\"e\":\"ret\",\"op\":\"destroy\"}\n";
            };
            return run_controlled_body(c, oc, body, false);
        }

        std::string run_free(const vj::value& c)
        {
            size_t size = static_cast<size_t>(c.get_int("size", 2));
            std::string log;
            std::vector<int> out;
            {
                fs::thread_pool<std::size_t> pool(size);
                for (auto& opp : c["prog"].a)
                {
                    const auto& op = *opp;
                    const std::string name = op[0].as_str();
                    log += "{\"e\":\"op\",\"op\":" + vj::dump(op) + "}\n";
                    if (name == "resume")
                        pool.resume();
                    else if (name == "pause")
                        pool.pause();
                    else if (name == "stop")
                        pool.stop();
                    else if (name == "resize")
                        pool.resize(static_cast<size_t>(op[1].as_int()));
                    else if (name == "run")
                    {
                        size_t first = static_cast<size_t>(op[1].as_int());
                        size_t last = static_cast<size_t>(op[2].as_int());
                        out.assign(last + 1, 0);
                        std::mutex lm;
                        std::string cbs;
                        pool.run_blocks(
                            first,
                            last,
                            [&](std::size_t runner, std::size_t a, std::size_t b)
                            {
                                for (size_t i = a; i < b; ++i)
                                    out[i]++;
                                std::lock_guard<std::mutex> lk(lm);
                                cbs += "{\"e\":\"cb\",\"r\":" + std::to_string(runner) + ",\"a\":"
                                       + std::to_string(a) + ",\"b\":" + std::to_string(b) + "}\n";
                            },
                            static_cast<size_t>(op[3].as_int()));
                        log += cbs;
                        vj::obj o;
                        o.str("e", "ran").ints("out", out);
                        log += o.done() + "\n";
                    }
                    log += "{\"e\":\"ret\",\"op\":\"" + name + "\"}\n";
                    note("step");
                }
                log += "{\"e\":\"op\",\"op\":[\"destroy\"]}\n";
            }
            log += "{\"e\":\"ret\",\"op\":\"destroy\"}\n";
            return log;
        }
    }

    // A flow case executed under the controlled scheduler (case field "ctl": {seed, pct}): every pool
    // hook, every grid.neighbors() call made by a worker and every kernel call is a schedule point.
    std::string run_flow_controlled(const vj::value& c, const std::function<std::string()>& body)
    {
        fs::verif::hook().store(&on_hook);
        outcome oc;
        std::string result;
        vj::vptr ctl = vj::parse(vj::dump(c["ctl"]));
        std::string slog = run_controlled_body(*ctl, oc, [&] { result = body(); }, true);
        if (const char* sf = std::getenv("FSL_CTL_STATS"))
        {
            // how much of the execution was actually under schedule control (evidence, vacuity guard)
            size_t grants = 0, inner = 0, kern = 0, spawns = 0, pos = 0;
            while ((pos = slog.find("{\"e\":\"g\"", pos)) != std::string::npos)
            {
                ++grants;
                size_t e = slog.find('\n', pos);
                std::string ln = slog.substr(pos, e - pos);
                if (ln.find("\"s\":40,") != std::string::npos || ln.find("\"s\":60,") != std::string::npos
                    || ln.find("\"s\":41,") != std::string::npos)
                    ++inner;
                if (ln.find("\"s\":60,") != std::string::npos)
                    ++kern;
                if (ln.find("\"s\":" + std::to_string(hk::c_spawn) + ",") != std::string::npos)
                    ++spawns;
                pos = e;
            }
            if (FILE* f = std::fopen(sf, "a"))
            {
                std::fprintf(f, "{\"id\":\"%s\",\"grants\":%zu,\"inner\":%zu,\"kernel\":%zu,\"spawns\":%zu,\"hang\":%d}\n",
                             c.get_str("id", "?").c_str(), grants, inner, kern, spawns, oc.hang ? 1 : 0);
                std::fclose(f);
            }
        }
        if (oc.hang)
        {
            note("hang " + oc.why);
            _exit(3);  // blocked threads cannot be joined: the parent records the execution as NoReturn
        }
        fs::verif::hook().store(nullptr);
        {
            std::lock_guard<std::mutex> lk(S.m);
            S.active = false;
        }
        return result;
    }

    // schedule point inside harness-defined kernel functions (a no-op outside controlled runs)
    void sched_yield_point()
    {
        if (fs::verif::hook().load() == &on_hook)
            on_hook(y_kernel, nullptr, 0, nullptr);
    }

    // blocks cases: {"kind":"pool","blocks":[[first,last,n,min],...]}
    std::string run_blocks_cases(const vj::value& c)
    {
        std::string log;
        for (auto& tp : c["blocks"].a)
        {
            const auto& t = *tp;
            size_t first = static_cast<size_t>(t[0].as_int()), last = static_cast<size_t>(t[1].as_int());
            size_t n = static_cast<size_t>(t[2].as_int()), mn = static_cast<size_t>(t[3].as_int());
            fs::thread_pool<std::size_t>::blocks b(first, last, n, mn);
            std::vector<size_t> st, en;
            for (size_t k = 0; k < b.num_blocks() && k < 64; ++k)
            {
                st.push_back(b.start(k));
                en.push_back(b.end(k));
            }
            vj::obj o;
            o.str("e", "Blocks").num("first", static_cast<long long>(first)).num("last", static_cast<long long>(last));
            o.num("n", static_cast<long long>(n)).num("min", static_cast<long long>(mn));
            o.num("nb", static_cast<long long>(b.num_blocks())).ints("starts", st).ints("ends", en);
            log += o.done() + "\n";
        }
        return log;
    }

    std::string run_pool_case(const vj::value& c)
    {
        if (c.has("blocks"))
            return run_blocks_cases(c);
        std::string head;
        {
            vj::obj o;
            o.str("e", "PoolNew").num("size", c.get_int("size", 2)).num("ctrl", c.get_int("ctrl", 1));
            o.raw("prog", vj::dump(c["prog"]));
            head = o.done() + "\n";
        }
        if (c.get_int("ctrl", 1) == 0)
            return head + run_free(c);
        fs::verif::hook().store(&on_hook);
        outcome oc;
        std::string body = run_controlled(c, oc);
        if (oc.hang)
        {
            // write what we have and leave without joining blocked threads
            std::string all = head + body;
            if (child_fd() >= 0)
            {
                size_t off = 0;
                while (off < all.size())
                {
                    ssize_t w = write(child_fd(), all.data() + off, all.size() - off);
                    if (w <= 0)
                        break;
                    off += static_cast<size_t>(w);
                }
                _exit(0);
            }
            return all;
        }
        fs::verif::hook().store(nullptr);
        return head + body;
    }
}
