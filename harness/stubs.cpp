#include "common.hpp"
namespace vh {
}
