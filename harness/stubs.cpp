#include "common.hpp"
namespace vh {
std::string run_adi_case(const vj::value&) { throw std::runtime_error("adi: not built"); }
}
