// Union-find cases (the structure behind Kruskal's tree construction of the basin graph, C15).
// case: {"kind":"uf","id":..,"seqs":[{"n0":3,"ops":[["merge",0,1],["find",2,0],["clear",0,0],
//        ["resize",4,0],["push",1,0]]}, ...]}
// One "UF" line per sequence: the result of every find and, after every operation, the size and
// the representative of every element (asked from a COPY of the object, so that the observation
// does not compress the paths of the object under test).
#include "fastscapelib/utils/union_find.hpp"

#include "common.hpp"

namespace vh
{
    namespace
    {
        using uf_t = fastscapelib::detail::union_find<std::size_t>;

        std::string roots_of(uf_t& uf)
        {
            uf_t copy = uf;
            std::string s = "[";
            for (size_t x = 0; x < uf.size(); ++x)
                s += (x ? "," : "") + std::to_string(copy.find(x));
            return s + "]";
        }
    }

    std::string run_uf_case(const vj::value& c)
    {
        std::string out;
        for (auto& sp : c["seqs"].a)
        {
            const auto& sq = *sp;
            size_t n0 = static_cast<size_t>(sq["n0"].as_int());
            uf_t uf(n0);
            std::string res = "[", roots = "[", sizes = "[";
            std::string roots0 = roots_of(uf);
            bool first = true;
            for (auto& opp : sq["ops"].a)
            {
                const auto& op = *opp;
                const std::string name = op[0].as_str();
                size_t a = static_cast<size_t>(op[1].as_int());
                size_t b = static_cast<size_t>(op[2].as_int());
                long long r = -1;
                if (name == "find")
                    r = static_cast<long long>(uf.find(a));
                else if (name == "merge")
                    uf.merge(a, b);
                else if (name == "clear")
                    uf.clear();
                else if (name == "resize")
                    uf.resize(a);
                else if (name == "push")
                    uf.push_back(a);
                else
                    throw std::runtime_error("unknown union-find op " + name);
                res += (first ? "" : ",") + std::to_string(r);
                roots += (first ? "" : ",") + roots_of(uf);
                sizes += (first ? "" : ",") + std::to_string(uf.size());
                first = false;
            }
            vj::obj o;
            o.str("e", "UF").num("n0", static_cast<long long>(n0)).raw("ops", vj::dump(sq["ops"]));
            o.raw("roots0", roots0).raw("res", res + "]").raw("roots", roots + "]").raw("sizes", sizes + "]");
            out += o.done() + "\n";
        }
        return out;
    }
}
