// Grid cases (C07, C17, C18): construct grids from a descriptor (cached and cache-less instance of
// the same grid), log what the constructor did (accepted / refused, status array), then answer a
// history of neighbour queries through every accessor and iterate node indices by status.
// case: {"kind":"grid","id":..,"grid":{...},"queries":[["all",inst,node],["indices",inst,node],...],
//        "iter":[-1,0,1,2,3], "mesh":1}
#include "grids.hpp"

namespace vh
{
    namespace
    {
        template <class G>
        long long dq_of(const G&, double d, int dsc)
        {
            double d2 = std::ldexp(d * d, -2 * dsc);   // in units of 4^sc: small integers whatever the scale
            return (std::isfinite(d2) && d2 < 2.0e9) ? std::llround(d2) : -1;
        }

        template <class G>
        std::string status_list(const G& g)
        {
            std::string s = "[";
            for (size_t i = 0; i < g.size(); ++i)
                s += (i ? "," : "") + std::to_string(static_cast<int>(g.nodes_status(i)));
            return s + "]";
        }

        // answers of one accessor for one node, as JSON arrays
        template <class G>
        void answer(vj::obj& o, G& g, const std::string& acc, size_t i, int dsc)
        {
            auto ints = [](const auto& v)
            {
                std::string s = "[";
                bool f = true;
                for (auto x : v)
                {
                    s += (f ? "" : ",") + std::to_string(static_cast<long long>(x));
                    f = false;
                }
                return s + "]";
            };
            bool all = acc == "all";
            if (all || acc == "count")
                o.num("count", static_cast<long long>(g.neighbors_count(i)));
            if (all || acc == "indices")
                o.raw("indices", ints(g.neighbors_indices(i)));
            if (all || acc == "indices_buf")
            {
                typename G::neighbors_indices_type buf;
                g.neighbors_indices(i, buf);
                o.raw("indices_buf", ints(buf));
            }
            if (all || acc == "distances")
            {
                auto d = g.neighbors_distances(i);
                std::vector<long long> q;
                for (auto x : d)
                    q.push_back(dq_of(g, x, dsc));
                o.raw("distances", ints(q));
            }
            auto nbrs = [&](const auto& v)
            {
                std::string s = "[";
                bool f = true;
                for (const auto& nb : v)
                {
                    s += std::string(f ? "" : ",") + "[" + std::to_string(nb.idx) + ","
                         + std::to_string(dq_of(g, nb.distance, dsc)) + ","
                         + std::to_string(static_cast<int>(nb.status)) + "]";
                    f = false;
                }
                return s + "]";
            };
            if (all || acc == "neighbors")
                o.raw("neighbors", nbrs(g.neighbors(i)));
            if (all || acc == "neighbors_buf")
            {
                typename G::neighbors_type buf;
                g.neighbors(i, buf);
                o.raw("neighbors_buf", nbrs(buf));
            }
        }

        // (row, col) accessors exist on raster grids only
        template <class G>
        void answer_rc(vj::obj& o, G& g, const std::string& acc, size_t i, int dsc)
        {
            size_t nc = g.shape()[1];
            size_t r = i / nc, c = i % nc;
            bool all = acc == "all";
            if (all || acc == "rc_indices")
            {
                auto v = g.neighbors_indices(r, c);
                std::string s = "[";
                for (size_t k = 0; k < v.size(); ++k)
                    s += std::string(k ? "," : "") + "[" + std::to_string(v[k].first) + ","
                         + std::to_string(v[k].second) + "]";
                o.raw("rc_indices", s + "]");
            }
            if (all || acc == "rc_neighbors")
            {
                auto v = g.neighbors(r, c);
                std::string s = "[";
                for (size_t k = 0; k < v.size(); ++k)
                    s += std::string(k ? "," : "") + "[" + std::to_string(v[k].flatten_idx) + ","
                         + std::to_string(v[k].row) + "," + std::to_string(v[k].col) + ","
                         + std::to_string(dq_of(g, v[k].distance, dsc)) + ","
                         + std::to_string(static_cast<int>(v[k].status)) + "]";
                o.raw("rc_neighbors", s + "]");
            }
        }

        template <class G>
        void iterate(std::string& out, const G& g, const vj::value& c)
        {
            if (!c.has("iter"))
                return;
            for (auto& sp : c["iter"].a)
            {
                long long st = sp->as_int();
                std::vector<long long> fwd, rev;
                if (st < 0)
                {
                    auto ni = g.nodes_indices();
                    for (auto it = ni.begin(); it != ni.end(); ++it)
                        fwd.push_back(static_cast<long long>(*it));
                    for (auto it = ni.rbegin(); it != ni.rend(); ++it)
                        rev.push_back(static_cast<long long>(*it));
                }
                else
                {
                    auto ni = g.nodes_indices(to_status(st));
                    for (auto it = ni.begin(); it != ni.end(); ++it)
                        fwd.push_back(static_cast<long long>(*it));
                    for (auto it = ni.rbegin(); it != ni.rend(); ++it)
                        rev.push_back(static_cast<long long>(*it));
                }
                vj::obj o;
                o.str("e", "Iter").num("st", st).ints("fwd", fwd).ints("rev", rev);
                out += o.done() + "\n";
            }
        }

        template <class GC, class GN, bool RC>
        std::string run_structured(const vj::value& c)
        {
            const auto& gd = c["grid"];
            int dsc = static_cast<int>(gd.get_int("sc", 0));
            std::string out;
            std::unique_ptr<GC> g0;
            std::unique_ptr<GN> g1;
            std::string threw0, threw1;
            try
            {
                g0 = grid_maker<GC>::make(gd);
            }
            catch (const std::exception& e)
            {
                threw0 = "error";
            }
            try
            {
                g1 = grid_maker<GN>::make(gd);
            }
            catch (const std::exception& e)
            {
                threw1 = "error";
            }
            {
                vj::obj o;
                o.str("e", "GridNew").raw("d", vj::dump(gd)).str("threw", threw0).str("threw_nc", threw1);
                if (g0)
                {
                    o.num("n", static_cast<long long>(g0->size()));
                    o.raw("st", status_list(*g0));
                    o.raw("st_nc", g1 ? status_list(*g1) : "[]");
                    // node areas (cell area) in units of 4^sc
                    std::vector<long long> ar;
                    for (size_t i = 0; i < g0->size(); ++i)
                        ar.push_back(std::llround(std::ldexp(g0->nodes_areas(i), -2 * dsc)));
                    o.ints("area", ar);
                }
                out += o.done() + "\n";
            }
            if (!g0 || !g1)
                return out;
            // optional second cache-less grid of the same type but another geometry, alive at the
            // same time (instance 2)
            std::unique_ptr<GN> g2;
            int dsc2 = 0;
            if (c.has("grid2"))
            {
                g2 = grid_maker<GN>::make(c["grid2"]);
                dsc2 = static_cast<int>(c["grid2"].get_int("sc", 0));
                vj::obj o;
                o.str("e", "GridNew2").raw("d", vj::dump(c["grid2"]));
                out += o.done() + "\n";
            }
            iterate(out, *g0, c);
            if (c.has("queries"))
                for (auto& qp : c["queries"].a)
                {
                    const auto& q = *qp;
                    const std::string acc = q[0].as_str();
                    long long inst = q[1].as_int();
                    size_t i = static_cast<size_t>(q[2].as_int());
                    vj::obj o;
                    o.str("e", "Q").str("acc", acc).num("inst", inst).num("i", static_cast<long long>(i));
                    bool rc_acc = acc.rfind("rc_", 0) == 0;
                    if (inst == 0)
                    {
                        if (!rc_acc)
                            answer(o, *g0, acc, i, dsc);
                        if constexpr (RC)
                            if (rc_acc || acc == "all")
                                answer_rc(o, *g0, acc, i, dsc);
                    }
                    else if (inst == 2 && g2)
                    {
                        if (!rc_acc)
                            answer(o, *g2, acc, i, dsc2);
                        if constexpr (RC)
                            if (rc_acc || acc == "all")
                                answer_rc(o, *g2, acc, i, dsc2);
                    }
                    else
                    {
                        if (!rc_acc)
                            answer(o, *g1, acc, i, dsc);
                        if constexpr (RC)
                            if (rc_acc || acc == "all")
                                answer_rc(o, *g1, acc, i, dsc);
                    }
                    out += o.done() + "\n";
                    // buffer-reusing walk: the index argument is an element of the output buffer itself,
                    // grid.neighbors(buf[j].idx, buf) / grid.neighbors_indices(ibuf[j], ibuf); the answer is
                    // recorded as a query of the node that was asked for
                    if (acc == "all")
                    {
                        auto walk = [&](auto& g, int sc, long long in)
                        {
                            auto buf = g.neighbors(i);
                            if (buf.size() > 0)
                            {
                                size_t j = (i + buf.size() / 2) % buf.size();
                                size_t target = buf[j].idx;
                                g.neighbors(buf[j].idx, buf);
                                vj::obj o2;
                                o2.str("e", "Q").str("acc", "neighbors_buf").num("inst", in).num("i", static_cast<long long>(target));
                                std::string sb = "[";
                                for (size_t k = 0; k < buf.size(); ++k)
                                    sb += std::string(k ? "," : "") + "[" + std::to_string(buf[k].idx) + "," + std::to_string(dq_of(g, buf[k].distance, sc))
                                          + "," + std::to_string(static_cast<int>(buf[k].status)) + "]";
                                o2.raw("neighbors_buf", sb + "]");
                                out += o2.done() + "\n";
                            }
                            auto ibuf = g.neighbors_indices(i);
                            if (ibuf.size() > 0)
                            {
                                size_t j = (i + 1) % ibuf.size();
                                size_t target = ibuf[j];
                                g.neighbors_indices(ibuf[j], ibuf);
                                vj::obj o3;
                                o3.str("e", "Q").str("acc", "indices_buf").num("inst", in).num("i", static_cast<long long>(target));
                                std::string sb = "[";
                                for (size_t k = 0; k < ibuf.size(); ++k)
                                    sb += std::string(k ? "," : "") + std::to_string(static_cast<long long>(ibuf[k]));
                                o3.raw("indices_buf", sb + "]");
                                out += o3.done() + "\n";
                            }
                        };
                        if (inst == 0)
                            walk(*g0, dsc, inst);
                        else if (inst == 2 && g2)
                            walk(*g2, dsc2, inst);
                        else
                            walk(*g1, dsc, inst);
                    }
                }
            return out;
        }

        std::string run_mesh(const vj::value& c)
        {
            const auto& gd = c["grid"];
            int dsc = static_cast<int>(gd.get_int("sc", 0));
            std::string out;
            std::unique_ptr<mesh_t> g;
            std::string threw;
            try
            {
                g = grid_maker<mesh_t>::make(gd);
            }
            catch (const std::exception& e)
            {
                threw = "error";
            }
            vj::obj o;
            o.str("e", "GridNew").raw("d", vj::dump(gd)).str("threw", threw).str("threw_nc", threw);
            if (g)
            {
                o.num("n", static_cast<long long>(g->size()));
                o.raw("st", status_list(*g)).raw("st_nc", status_list(*g));
                // node areas in Q(12) (units of 4^sc) and their class
                std::vector<long long> aq, acls;
                for (size_t i = 0; i < g->size(); ++i)
                {
                    double a = std::ldexp(g->nodes_areas(i), -2 * dsc);
                    aq.push_back(qfix(a, 12));
                    acls.push_back(dclass(a));
                }
                o.ints("aq", aq).ints("acls", acls);
            }
            out += o.done() + "\n";
            if (!g)
                return out;
            iterate(out, *g, c);
            if (c.has("queries"))
                for (auto& qp : c["queries"].a)
                {
                    const auto& q = *qp;
                    const std::string acc = q[0].as_str();
                    size_t i = static_cast<size_t>(q[2].as_int());
                    vj::obj o2;
                    o2.str("e", "Q").str("acc", acc).num("inst", q[1].as_int()).num("i", static_cast<long long>(i));
                    answer(o2, *g, acc, i, dsc);
                    out += o2.done() + "\n";
                    if (acc == "all")
                    {
                        auto buf = g->neighbors(i);
                        if (buf.size() > 0)
                        {
                            size_t j = (i + buf.size() / 2) % buf.size();
                            size_t target = buf[j].idx;
                            g->neighbors(buf[j].idx, buf);
                            vj::obj o3;
                            o3.str("e", "Q").str("acc", "neighbors_buf").num("inst", q[1].as_int()).num("i", static_cast<long long>(target));
                            std::string sb = "[";
                            for (size_t k = 0; k < buf.size(); ++k)
                                sb += std::string(k ? "," : "") + "[" + std::to_string(buf[k].idx) + "," + std::to_string(dq_of(*g, buf[k].distance, dsc))
                                      + "," + std::to_string(static_cast<int>(buf[k].status)) + "]";
                            o3.raw("neighbors_buf", sb + "]");
                            out += o3.done() + "\n";
                        }
                    }
                }
            return out;
        }
    }

    std::string run_grid_case(const vj::value& c)
    {
        const auto& g = c["grid"];
        const std::string t = g["t"].as_str();
        if (t == "profile")
            return run_structured<profile_t, profile_nc_t, false>(c);
        if (t == "mesh")
            return run_mesh(c);
        const std::string conn = g.get_str("conn", "queen");
        if (conn == "rook")
            return run_structured<rook_t, rook_nc_t, true>(c);
        if (conn == "bishop")
            return run_structured<bishop_t, bishop_nc_t, true>(c);
        return run_structured<queen_t, queen_nc_t, true>(c);
    }
}
