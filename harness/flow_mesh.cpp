#include "flow_extra.hpp"
namespace vh { std::string run_flow_mesh(const vj::value& c) { flow_runner<mesh_t> r; return r.run(c); } }
