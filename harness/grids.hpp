// Grid construction from a JSON descriptor (the same descriptor the TLA+ module Grid interprets).
//   {"t":"profile","n":5,"dx":1,"bs":[l,r],"ov":[[idx,st],...],"cache":1}
//   {"t":"raster","conn":"queen|rook|bishop","nr":3,"nc":4,"dy":1,"dx":1,"bs":[l,r,t,b],
//    "ov":[[r,c,st],...],"cache":1}
//   {"t":"mesh","pts":[[x,y],...],"tri":[[a,b,c],...],"st":"default" | "map" | "array",
//    "stv":[[idx,st],...] (map)  or [st,...] (array)}
// Spacings/coordinates are integers times 2^"sc" (default 0) so that every distance squared is an
// exact integer multiple of 4^sc.
#pragma once
#include <array>
#include <map>
#include <memory>

#include "fastscapelib/grid/profile_grid.hpp"
#include "fastscapelib/grid/raster_grid.hpp"
#include "fastscapelib/grid/trimesh.hpp"

#include "common.hpp"

namespace vh
{
    namespace fs = fastscapelib;

    using profile_t = fs::profile_grid<>;
    using profile_nc_t = fs::profile_grid<fs::xt_selector, fs::neighbors_no_cache<2>>;
    using rook_t = fs::raster_grid<fs::xt_selector, fs::raster_connect::rook>;
    using queen_t = fs::raster_grid<fs::xt_selector, fs::raster_connect::queen>;
    using bishop_t = fs::raster_grid<fs::xt_selector, fs::raster_connect::bishop>;
    using rook_nc_t
        = fs::raster_grid<fs::xt_selector, fs::raster_connect::rook, fs::neighbors_no_cache<4>>;
    using queen_nc_t
        = fs::raster_grid<fs::xt_selector, fs::raster_connect::queen, fs::neighbors_no_cache<8>>;
    using bishop_nc_t
        = fs::raster_grid<fs::xt_selector, fs::raster_connect::bishop, fs::neighbors_no_cache<4>>;
    using mesh_t = fs::trimesh;

    inline fs::node_status to_status(long long s)
    {
        return static_cast<fs::node_status>(static_cast<std::uint8_t>(s));
    }

    template <class G>
    struct grid_maker;

    template <class S, class C>
    struct grid_maker<fs::profile_grid<S, C>>
    {
        using G = fs::profile_grid<S, C>;
        static std::unique_ptr<G> make(const vj::value& d)
        {
            double sc = std::ldexp(1.0, static_cast<int>(d.get_int("sc", 0)));
            auto bs = d["bs"].as_ints();
            fs::profile_boundary_status b(to_status(bs[0]), to_status(bs[1]));
            typename G::nodes_status_map_type ov;
            if (d.has("ov"))
                for (auto& e : d["ov"].a)
                {
                    // (an optional third component 1: the key is 2^63 + the first one)
                    size_t key = static_cast<size_t>((*e)[0].as_int());
                    if (e->size() > 2 && (*e)[2].as_int() == 1)
                        key += static_cast<size_t>(1) << 63;
                    ov[key] = to_status((*e)[1].as_int());
                }
            size_t n = static_cast<size_t>(d["n"].as_int());
            // "via": "from_length": the factory that takes the total length (exact here: small
            // integer spacings times a power of two)
            if (d.get_str("via", "") == "from_length" && n >= 2)
                return std::make_unique<G>(G::from_length(n, d["dx"].as_double() * sc * static_cast<double>(n - 1), b, ov));
            return std::make_unique<G>(n, d["dx"].as_double() * sc, b, ov);
        }
    };

    template <class S, fs::raster_connect RC, class C>
    struct grid_maker<fs::raster_grid<S, RC, C>>
    {
        using G = fs::raster_grid<S, RC, C>;
        static std::unique_ptr<G> make(const vj::value& d)
        {
            double sc = std::ldexp(1.0, static_cast<int>(d.get_int("sc", 0)));
            auto bs = d["bs"].as_ints();
            std::array<fs::node_status, 4> st{
                to_status(bs[0]), to_status(bs[1]), to_status(bs[2]), to_status(bs[3])
            };
            fs::raster_boundary_status b(st);
            typename G::nodes_status_map_type ov;
            if (d.has("ov"))
                for (auto& e : d["ov"].a)
                {
                    // (an optional fourth component 1: the row is 2^63 + the first one)
                    size_t row = static_cast<size_t>((*e)[0].as_int());
                    if (e->size() > 3 && (*e)[3].as_int() == 1)
                        row += static_cast<size_t>(1) << 63;
                    ov[{ row, static_cast<size_t>((*e)[1].as_int()) }] = to_status((*e)[2].as_int());
                }
            typename G::shape_type shape{ static_cast<size_t>(d["nr"].as_int()),
                                          static_cast<size_t>(d["nc"].as_int()) };
            if (d.get_str("via", "") == "from_length" && shape[0] >= 2 && shape[1] >= 2)
                return std::make_unique<G>(G::from_length(
                    shape,
                    typename G::length_type{ d["dy"].as_double() * sc * static_cast<double>(shape[0] - 1),
                                             d["dx"].as_double() * sc * static_cast<double>(shape[1] - 1) },
                    b,
                    ov));
            return std::make_unique<G>(
                shape,
                typename G::spacing_type{ d["dy"].as_double() * sc, d["dx"].as_double() * sc },
                b,
                ov);
        }
    };

    template <>
    struct grid_maker<mesh_t>
    {
        using G = mesh_t;
        static std::unique_ptr<G> make(const vj::value& d)
        {
            double sc = std::ldexp(1.0, static_cast<int>(d.get_int("sc", 0)));
            size_t np = d["pts"].size(), nt = d["tri"].size();
            typename G::points_type pts = xt::zeros<double>({ np, size_t(2) });
            typename G::triangles_type tri = xt::zeros<size_t>({ nt, size_t(3) });
            for (size_t i = 0; i < np; ++i)
                for (size_t j = 0; j < 2; ++j)
                    // "off": the mesh translated (projected coordinates far from the origin); the sum is exact
                    // for the offsets and scales generated, and nothing the properties speak of depends on it
                    pts(i, j) = d["pts"][i][j].as_double() * sc + (d.has("off") ? d["off"][j].as_double() : 0.0);
            for (size_t i = 0; i < nt; ++i)
                for (size_t j = 0; j < 3; ++j)
                    tri(i, j) = static_cast<size_t>(d["tri"][i][j].as_int());
            std::string st = d.get_str("st", "default");
            if (st == "array")
            {
                typename G::nodes_status_array_type arr = xt::zeros<fs::node_status>({ np });
                arr.resize({ d["stv"].size() });
                for (size_t i = 0; i < d["stv"].size(); ++i)
                    arr(i) = to_status(d["stv"][i].as_int());
                return std::make_unique<G>(pts, tri, arr);
            }
            typename G::nodes_status_map_type ov;
            if (st == "map")
                for (auto& e : d["stv"].a)
                    ov[static_cast<size_t>((*e)[0].as_int())] = to_status((*e)[1].as_int());
            return std::make_unique<G>(pts, tri, ov);
        }
    };

    // array of the grid's node-array shape
    template <class G, class T>
    xt::xarray<T> grid_array(const G& g, T fill)
    {
        auto sh = g.shape();
        std::vector<size_t> shape(sh.begin(), sh.end());
        xt::xarray<T> a = xt::xarray<T>::from_shape(shape);
        a.fill(fill);
        return a;
    }
}
