#include "flow_extra.hpp"
namespace vh { std::string run_flow_queen(const vj::value& c) { flow_runner<queen_t> r; return r.run(c); } }
