// Hillslope diffusion (ADI) cases, C14.  The half-step field is obtained through the guarded hook
// in diffusion_adi_eroder::erode; both half steps are logged in Q(S) and checked by TLC against
// the tridiagonal systems of the scheme (integer coefficients, residual form: no division).
// case: {"kind":"adi","grid":{raster},"Ks":k | "Ka":[k...],"dt":[p,q],"h":[ints],"S":16,
//        "lin":{"a":2,"b":-1,"x":[..],"y":[..]}, "bs2":[l,r,t,b]}
#include <cassert>

#include "fastscapelib/eroders/diffusion_adi.hpp"

#include "grids.hpp"

#ifndef FASTSCAPELIB_VERIF_HOOKS
#error "the harness must be compiled with -DFASTSCAPELIB_VERIF_HOOKS"
#endif

namespace vh
{
    namespace
    {
        thread_local std::vector<double>* half_sink = nullptr;
        // unit change by an exact power of two (case field "ksc"): diffusivities times 2^-ksc, time step
        // times 2^ksc - the same physical problem, every product K dt is bit-identical
        int k_scale_exp = 0;
        double kval(double k) { return std::ldexp(k, -k_scale_exp); }

        void adi_hook(int site, const void*, std::size_t, const void* aux)
        {
            if (site != fastscapelib::verif::adi_half_step || !half_sink)
                return;
            const auto& t = *static_cast<const xt::xtensor<double, 2>*>(aux);
            half_sink->assign(t.begin(), t.end());
        }

        using grid_t = queen_t;
        using eroder_t = fs::diffusion_adi_eroder<grid_t>;

        xt::xarray<double> field(const grid_t& g, const vj::value& v)
        {
            auto a = grid_array<grid_t, double>(g, 0.0);
            for (size_t i = 0; i < g.size(); ++i)
                a.flat(i) = v[i].as_double();
            return a;
        }

        std::vector<double> run_once(grid_t& g, const vj::value& c, const xt::xarray<double>& h, bool force_array,
                                     std::vector<double>* half)
        {
            double dt = std::ldexp(c["dt"][0].as_double() / c["dt"][1].as_double(), k_scale_exp);
            std::unique_ptr<eroder_t> er;
            if (c.has("Ka") || force_array)
            {
                auto k = grid_array<grid_t, double>(g, 0.0);
                for (size_t i = 0; i < g.size(); ++i)
                    k.flat(i) = kval(c.has("Ka") ? c["Ka"][i].as_double() : c["Ks"].as_double());
                xt::xtensor<double, 2> kt = k;
                er = std::make_unique<eroder_t>(g, kt);
            }
            else
                er = std::make_unique<eroder_t>(g, kval(c["Ks"].as_double()));
            half_sink = half;
            const auto& e = er->erode(h, dt);
            half_sink = nullptr;
            std::vector<double> out(g.size());
            for (size_t i = 0; i < g.size(); ++i)
                out[i] = e.flat(i);
            return out;
        }
    }

    std::string run_adi_case(const vj::value& c)
    {
        fs::verif::hook().store(&adi_hook);
        k_scale_exp = static_cast<int>(c.get_int("ksc", 0));
        auto g = grid_maker<grid_t>::make(c["grid"]);
        size_t n = g->size();
        int S = static_cast<int>(c.get_int("S", 16));
        auto h = field(*g, c["h"]);
        std::vector<double> half;
        auto e = run_once(*g, c, h, false, &half);
        std::string out;
        {
            vj::obj o;
            o.str("e", "Adi").raw("d", vj::dump(c["grid"]));
            o.raw("K", c.has("Ka") ? vj::dump(c["Ka"]) : "[]").num("Ks", c.has("Ks") ? c["Ks"].as_int() : 0);
            o.raw("dt", vj::dump(c["dt"])).raw("h", vj::dump(c["h"])).num("S", S);
            std::vector<long long> tq(n), nq(n), ez(n), cls(n);
            for (size_t i = 0; i < n; ++i)
            {
                tq[i] = half.size() == n ? qfix(half[i], S) : 0;
                nq[i] = qfix(h.flat(i) - e[i], S);
                ez[i] = same_bits(e[i], 0.0) ? 1 : 0;
                cls[i] = dclass(e[i]);
            }
            o.num("hashalf", half.size() == n ? 1 : 0);
            o.ints("tq", tq).ints("nq", nq).ints("ez", ez).ints("cls", cls);
            out += o.done() + "\n";
        }
        // one eroder object whose diffusivity is changed through its setters between steps
        if (c.has("hist"))
        {
            double dt = std::ldexp(c["dt"][0].as_double() / c["dt"][1].as_double(), k_scale_exp);
            // two objects: number 1 is a COPY of number 0 (copy constructor) made in the middle of the history;
            // from then on the two are independent values - a setter call on one must not show in the other
            std::unique_ptr<eroder_t> ers[2];
            for (auto& ep : c["hist"].a)
            {
                const auto& en = *ep;
                if (en.has("copy"))
                {
                    if (ers[0])
                        ers[1] = std::make_unique<eroder_t>(*ers[0]);
                    continue;
                }
                auto& er = ers[en.get_int("obj", 0)];
                if (en.get_int("obj", 0) == 1 && !er)
                    continue;
                if (en.has("bad"))
                {
                    // a call with an elevation array of another shape (one row too many): whatever it does
                    // (the library throws from its second sweep), the eroder must serve the next valid call
                    if (er)
                    {
                        xt::xarray<double> hb = xt::zeros<double>({ g->shape()[0] + 1, g->shape()[1] });
                        int threw = 0;
                        try
                        {
                            er->erode(hb, dt);
                        }
                        catch (const std::exception&)
                        {
                            threw = 1;
                        }
                        vj::obj ob;
                        ob.str("e", "AdiBad").num("threw", threw);
                        out += ob.done() + "\n";
                    }
                    continue;
                }
                xt::xtensor<double, 2> kt;
                if (en.has("Ka"))
                {
                    auto k = grid_array<grid_t, double>(*g, 0.0);
                    for (size_t i = 0; i < n; ++i)
                        k.flat(i) = kval(en["Ka"][i].as_double());
                    kt = k;
                }
                if (en.get_int("noset", 0) && er)
                {
                    // no setter call: the object must still hold the diffusivity it was last given
                }
                else if (!er)
                {
                    if (en.has("Ka"))
                        er = std::make_unique<eroder_t>(*g, kt);
                    else
                        er = std::make_unique<eroder_t>(*g, kval(en["Ks"].as_double()));
                }
                else if (en.has("Ka"))
                    er->set_k_coef(kt);
                else
                    er->set_k_coef(kval(en["Ks"].as_double()));
                std::vector<double> hf;
                half_sink = &hf;
                const auto& eh = er->erode(h, dt);
                half_sink = nullptr;
                vj::obj o;
                o.str("e", "Adi").raw("d", vj::dump(c["grid"]));
                o.raw("K", en.has("Ka") ? vj::dump(en["Ka"]) : "[]").num("Ks", en.has("Ks") ? en["Ks"].as_int() : 0);
                o.raw("dt", vj::dump(c["dt"])).raw("h", vj::dump(c["h"])).num("S", S);
                std::vector<long long> tq(n), nq(n), ez(n), cls(n);
                for (size_t i = 0; i < n; ++i)
                {
                    tq[i] = hf.size() == n ? qfix(hf[i], S) : 0;
                    nq[i] = qfix(h.flat(i) - eh.flat(i), S);
                    ez[i] = same_bits(eh.flat(i), 0.0) ? 1 : 0;
                    cls[i] = dclass(eh.flat(i));
                }
                o.num("hashalf", hf.size() == n ? 1 : 0);
                o.ints("tq", tq).ints("nq", nq).ints("ez", ez).ints("cls", cls);
                out += o.done() + "\n";
            }
        }
        // scalar diffusivity == uniform array (as enclosures: the two code paths round differently)
        if (!c.has("Ka"))
        {
            auto e2 = run_once(*g, c, h, true, nullptr);
            std::vector<long long> a(n), b(n);
            for (size_t i = 0; i < n; ++i)
            {
                a[i] = qfix(e[i], 20);
                b[i] = qfix(e2[i], 20);
            }
            vj::obj o;
            o.str("e", "AdiUniform").ints("scalar", a).ints("array", b);
            out += o.done() + "\n";
        }
        // linearity: E(a x + b y) = a E(x) + b E(y)
        if (c.has("lin"))
        {
            const auto& l = c["lin"];
            long long a = l["a"].as_int(), b = l["b"].as_int();
            auto x = field(*g, l["x"]), y = field(*g, l["y"]);
            xt::xarray<double> z = static_cast<double>(a) * x + static_cast<double>(b) * y;
            auto ex = run_once(*g, c, x, false, nullptr), ey = run_once(*g, c, y, false, nullptr),
                 ez = run_once(*g, c, z, false, nullptr);
            std::vector<long long> qx(n), qy(n), qz(n);
            for (size_t i = 0; i < n; ++i)
            {
                qx[i] = qfix(ex[i], 16);
                qy[i] = qfix(ey[i], 16);
                qz[i] = qfix(ez[i], 16);
            }
            vj::obj o;
            o.str("e", "AdiLinear").num("a", a).num("b", b).ints("ex", qx).ints("ey", qy).ints("ez", qz);
            out += o.done() + "\n";
        }
        // node statuses are ignored: the same field on a grid with other border statuses
        if (c.has("bs2"))
        {
            vj::vptr gd2 = vj::parse(vj::dump(c["grid"]));
            for (auto& kv : gd2->o)
                if (kv.first == "bs")
                    kv.second = vj::parse(vj::dump(c["bs2"]));
            auto g2 = grid_maker<grid_t>::make(*gd2);
            auto e2 = run_once(*g2, c, h, false, nullptr);
            std::vector<long long> same(n);
            for (size_t i = 0; i < n; ++i)
                same[i] = same_bits(e[i], e2[i]) ? 1 : 0;
            vj::obj o;
            o.str("e", "AdiStatus").ints("same", same);
            out += o.done() + "\n";
        }
        fs::verif::hook().store(nullptr);
        return out;
    }
}
