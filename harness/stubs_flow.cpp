// link-time stand-ins used by reduced harness builds (tsan flavour): weak definitions, overridden
// by the real translation units when they are part of the build
#include "common.hpp"
namespace vh {
__attribute__((weak)) std::string run_flow_profile(const vj::value&) { throw std::runtime_error("flow: not in this build"); }
__attribute__((weak)) std::string run_flow_rook(const vj::value&) { throw std::runtime_error("flow: not in this build"); }
__attribute__((weak)) std::string run_flow_queen(const vj::value&) { throw std::runtime_error("flow: not in this build"); }
__attribute__((weak)) std::string run_flow_bishop(const vj::value&) { throw std::runtime_error("flow: not in this build"); }
__attribute__((weak)) std::string run_flow_queen_nc(const vj::value&) { throw std::runtime_error("flow: not in this build"); }
__attribute__((weak)) std::string run_flow_mesh(const vj::value&) { throw std::runtime_error("flow: not in this build"); }
__attribute__((weak)) std::string run_adi_case(const vj::value&) { throw std::runtime_error("adi: not in this build"); }
__attribute__((weak)) std::string run_grid_case(const vj::value&) { throw std::runtime_error("grid: not in this build"); }
__attribute__((weak)) std::string run_big_case(const vj::value&) { throw std::runtime_error("big: not in this build"); }
__attribute__((weak)) std::string run_uf_case(const vj::value&) { throw std::runtime_error("uf: not in this build"); }
}
