// Shared pieces of the verification harness: double encodings (ulp-rank, Q(S)), child-process
// isolation with a watchdog, trace sink.  The harness never computes a verdict: it only executes
// cases against the real library and logs projections of the observable state (DESIGN.md 4.1).
#pragma once
#include <algorithm>
#include <chrono>
#include <cmath>
#include <csignal>
#include <cstdint>
#include <cstdio>
#include <cstring>
#include <functional>
#include <map>
#include <poll.h>
#include <random>
#include <string>
#include <sys/types.h>
#include <sys/wait.h>
#include <unistd.h>
#include <vector>

#include "json.hpp"

namespace vh
{
    // ------------------------------------------------------------------ double <-> ordered key
    inline int64_t dkey(double x)
    {
        int64_t b;
        std::memcpy(&b, &x, 8);
        return b >= 0 ? b : (INT64_MIN - b);  // monotone; -0.0 and +0.0 both map to 0
    }
    inline double from_key(int64_t k)
    {
        int64_t b = k >= 0 ? k : (INT64_MIN - k);
        double x;
        std::memcpy(&x, &b, 8);
        return x;
    }
    inline bool same_bits(double a, double b)
    {
        return std::memcmp(&a, &b, 8) == 0;
    }
    // value class: 0 finite, 1 NaN, 2 +inf, 3 -inf
    inline int dclass(double x)
    {
        if (std::isnan(x))
            return 1;
        if (std::isinf(x))
            return x > 0 ? 2 : 3;
        return 0;
    }

    // Q(S) fixed point: llround(x * 2^S) clipped so that it fits TLC's 32-bit integers.
    inline long long qfix(double x, int S)
    {
        if (!std::isfinite(x))
            return 0;
        double y = std::ldexp(x, S);
        if (y > 2.0e9)
            return 2000000000LL;
        if (y < -2.0e9)
            return -2000000000LL;
        return std::llround(y);
    }

    // ------------------------------------------------------------------ ulp-rank domain
    // All doubles of one trace segment are registered; lines refer to them through tokens which
    // are replaced by gap-compressed ranks when the segment is flushed.
    struct ranker
    {
        static constexpr int G = 1000;  // gaps larger than G keys are shrunk to G
        std::vector<double> pool;

        std::string ref(double x)
        {
            if (std::isnan(x))
                x = std::numeric_limits<double>::infinity();  // class is logged separately
            pool.push_back(x);
            return std::string("\x01") + std::to_string(pool.size() - 1) + "\x02";
        }
        template <class V>
        std::string refs(const V& v)
        {
            std::string s = "[";
            bool f = true;
            for (auto x : v)
            {
                if (!f)
                    s += ",";
                f = false;
                s += ref(static_cast<double>(x));
            }
            return s + "]";
        }
        // replace tokens by ranks
        std::string resolve(const std::string& text) const
        {
            std::vector<int64_t> keys;
            keys.reserve(pool.size());
            for (double x : pool)
                keys.push_back(dkey(x));
            std::vector<int64_t> sorted(keys);
            std::sort(sorted.begin(), sorted.end());
            sorted.erase(std::unique(sorted.begin(), sorted.end()), sorted.end());
            std::vector<long long> rk(sorted.size(), 0);
            for (size_t i = 1; i < sorted.size(); ++i)
            {
                __int128 d = static_cast<__int128>(sorted[i]) - sorted[i - 1];
                rk[i] = rk[i - 1] + (d > G ? G : static_cast<long long>(d));
            }
            std::string out;
            out.reserve(text.size());
            for (size_t p = 0; p < text.size(); ++p)
            {
                if (text[p] == '\x01')
                {
                    size_t q = text.find('\x02', p);
                    size_t idx = std::stoul(text.substr(p + 1, q - p - 1));
                    size_t pos = std::lower_bound(sorted.begin(), sorted.end(), keys[idx])
                                 - sorted.begin();
                    out += std::to_string(rk[pos]);
                    p = q;
                }
                else
                    out.push_back(text[p]);
            }
            return out;
        }
    };

    // ------------------------------------------------------------------ child isolation
    inline int& child_fd()
    {
        static int fd = -1;
        return fd;
    }
    // progress marker written immediately by the child (so that the parent can tell where a
    // hang or crash happened); lines starting with '#' never reach the trace
    inline void note(const std::string& what)
    {
        if (child_fd() >= 0)
        {
            std::string m = "#" + what + "\n";
            ssize_t w = write(child_fd(), m.data(), m.size());
            (void) w;
        }
    }
    struct child_result
    {
        int status = 0;  // 0 ok, 1 timeout, 2 signal, 3 non-zero exit
        int detail = 0;  // signal number or exit code
        std::string out;
    };

    // Runs fn in a forked child; fn writes its output through the given sink.  The parent must be
    // single-threaded.  Every library call that may hang or corrupt memory goes through here.
    inline child_result run_child(const std::function<void(std::string&)>& fn, int timeout_ms)
    {
        int fds[2];
        child_result res;
        if (pipe(fds) != 0)
        {
            res.status = 3;
            res.detail = -1;
            return res;
        }
        fflush(nullptr);
        pid_t pid = fork();
        if (pid == 0)
        {
            close(fds[0]);
            child_fd() = fds[1];
            std::string out;
            int code = 0;
            try
            {
                fn(out);
            }
            catch (const std::exception& e)
            {
                out = std::string("#exception ") + e.what() + "\n";
                code = 7;
            }
            catch (...)
            {
                out = "#exception unknown\n";
                code = 7;
            }
            size_t off = 0;
            while (off < out.size())
            {
                ssize_t w = write(fds[1], out.data() + off, out.size() - off);
                if (w <= 0)
                    break;
                off += static_cast<size_t>(w);
            }
            close(fds[1]);
            _exit(code);
        }
        close(fds[1]);
        auto t0 = std::chrono::steady_clock::now();
        char buf[65536];
        bool timed_out = false;
        while (true)
        {
            auto el = std::chrono::duration_cast<std::chrono::milliseconds>(
                          std::chrono::steady_clock::now() - t0)
                          .count();
            int left = timeout_ms - static_cast<int>(el);
            if (left <= 0)
            {
                timed_out = true;
                break;
            }
            struct pollfd pfd = { fds[0], POLLIN, 0 };
            int pr = poll(&pfd, 1, left);
            if (pr < 0)
            {
                if (errno == EINTR)
                    continue;
                break;
            }
            if (pr == 0)
            {
                timed_out = true;
                break;
            }
            ssize_t r = read(fds[0], buf, sizeof buf);
            if (r > 0)
                res.out.append(buf, static_cast<size_t>(r));
            else
                break;
        }
        close(fds[0]);
        int st = 0;
        if (timed_out)
        {
            kill(pid, SIGKILL);
            waitpid(pid, &st, 0);
            res.status = 1;
            return res;
        }
        waitpid(pid, &st, 0);
        if (WIFSIGNALED(st))
        {
            res.status = 2;
            res.detail = WTERMSIG(st);
        }
        else if (WIFEXITED(st) && WEXITSTATUS(st) != 0)
        {
            res.status = 3;
            res.detail = WEXITSTATUS(st);
        }
        return res;
    }

    // ------------------------------------------------------------------ misc
    inline std::string jesc(const std::string& s)
    {
        std::string r;
        for (char c : s)
        {
            if (c == '"' || c == '\\')
            {
                r.push_back('\\');
                r.push_back(c);
            }
            else if (c == '\n')
                r += "\\n";
            else if (static_cast<unsigned char>(c) < 0x20)
                r.push_back(' ');
            else
                r.push_back(c);
        }
        return r;
    }

    struct rng_t
    {
        std::mt19937_64 g;
        explicit rng_t(uint64_t seed)
            : g(seed)
        {
        }
        uint64_t operator()()
        {
            return g();
        }
        // uniform in [0, n)
        size_t below(size_t n)
        {
            return n ? static_cast<size_t>(g() % n) : 0;
        }
        long long range(long long lo, long long hi)
        {
            return lo + static_cast<long long>(g() % static_cast<uint64_t>(hi - lo + 1));
        }
        bool chance(int num, int den)
        {
            return static_cast<int>(g() % static_cast<uint64_t>(den)) < num;
        }
    };
}
