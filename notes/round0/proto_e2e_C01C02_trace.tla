---- MODULE C12 ----
EXTENDS Naturals, Integers, Sequences, FiniteSets, TLC, Json, IOUtils
VARIABLE l
ASSUME TLCSet(7, ndJsonDeserialize(IOEnv.TRACE))
TraceLog == TLCGet(7)
INF == 1000000000
Nodes(r) == 1..r.n
BL(r) == {r.bl[i] + 1 : i \in 1..Len(r.bl)}
Nb(r, n) == {r.nbrs[n][k] + 1 : k \in 1..Len(r.nbrs[n])}
Masked(r, n) == r.mask[n] = 1
SetMin(S) == CHOOSE x \in S : \A y \in S : x <= y
RECURSIVE Fix(_,_,_)
Step(r, S) == TLCEval([n \in Nodes(r) |->
     IF Masked(r, n) THEN INF
     ELSE IF n \in BL(r) THEN r.zin[n]
     ELSE LET cand == {S[m] : m \in {x \in Nb(r, n) : ~Masked(r, x)}}
              mn == IF cand = {} THEN INF ELSE SetMin(cand)
          IN IF mn = INF THEN INF ELSE IF mn > r.zin[n] THEN mn ELSE r.zin[n]])
Fix(r, S, k) == IF k = 0 THEN S ELSE LET T == Step(r, S) IN IF T = S THEN S ELSE Fix(r, T, k-1)
Spill(r) == Fix(r, [n \in Nodes(r) |-> IF n \in BL(r) /\ ~Masked(r, n) THEN r.zin[n] ELSE INF], r.n + 1)
\* C02
C02ok(r) == LET S == Spill(r) IN \A n \in Nodes(r) :
      /\ r.zout[n] >= r.zin[n]
      /\ (Masked(r, n) \/ n \in BL(r)) => (r.zout[n] = r.zin[n] /\ r.same[n] = 1)
      /\ (~Masked(r, n) /\ S[n] # INF) => (r.zout[n] >= S[n] /\ r.zout[n] <= S[n] + r.n)
\* C01 (single direction)
C01ok(r) == LET S == Spill(r) IN \A n \in Nodes(r) : LET rc == r.rec[n] + 1 IN
      /\ (Masked(r, n) \/ n \in BL(r)) => rc = n
      /\ (~Masked(r, n) /\ n \notin BL(r) /\ S[n] # INF) => (rc # n /\ ~Masked(r, rc) /\ r.zout[rc] < r.zout[n])
Init == l = 1
Next == /\ l <= Len(TraceLog)
        /\ LET r == TraceLog[l] IN (C02ok(r) = TRUE) /\ (C01ok(r) = TRUE)
        /\ l' = l + 1
Spec == Init /\ [][Next]_l
Accepted == IF TLCGet("stats").diameter - 1 = Len(TraceLog) THEN TRUE
            ELSE PrintT(<<"REJECTED at line", TLCGet("stats").diameter, "of", Len(TraceLog)>>) /\ FALSE
====
