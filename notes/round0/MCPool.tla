---- MODULE MCPool ----
EXTENDS PoolProto
MCProgram == <<<<"resume">>, <<"resize", 2>>, <<"run", 2>>, <<"pause">>, <<"resume">>, <<"resize", 2>>, <<"run", 1>>, <<"pause">>, <<"stop">>>>
====
