---- MODULE MCPool5 ----
EXTENDS PoolProto
MCProgram == <<<<"resume">>, <<"resize", 3>>, <<"run", 3>>, <<"run", 2>>, <<"pause">>, <<"resume">>, <<"resize", 2>>, <<"run", 2>>, <<"pause">>, <<"resume">>, <<"resize", 3>>, <<"run", 1>>, <<"pause">>, <<"stop">>>>
====
