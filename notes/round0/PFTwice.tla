---- MODULE PFTwice ----
EXTENDS Naturals, Sequences, FiniteSets, TLC
CONSTANTS NR, NC, Levels, BLSets, Masks
VARIABLES elevIn, bl, mask, elevA, closedA, openA, pitA, doneA, elevB, closedB, openB, pitB, doneB
A == INSTANCE PFloodProto WITH elev <- elevA, closed <- closedA, open <- openA, pit <- pitA, done <- doneA
B == INSTANCE PFloodProto WITH elev <- elevB, closed <- closedB, open <- openB, pit <- pitB, done <- doneB
varsA == <<elevA, closedA, openA, pitA, doneA>>
varsB == <<elevB, closedB, openB, pitB, doneB>>
Init == A!Init /\ B!Init
\* run A to completion first, then B (no need to interleave: they are independent)
Next == \/ (~doneA /\ A!Next /\ UNCHANGED varsB)
        \/ (doneA /\ B!Next /\ UNCHANGED varsA)
Spec == Init /\ [][Next]_<<elevIn, bl, mask, varsA, varsB>>
Deterministic == (doneA /\ doneB) => elevA = elevB
====
