CONSTANTS
  NR = 3
  NC = 3
  Levels = {0, 1, 2}
  BLSets = {{1}, {5}, {1,2,3,4,6,7,8,9}}
  Masks = {{}}
SPECIFICATION Spec
INVARIANT Contract
CHECK_DEADLOCK FALSE
