---- MODULE Gen ----
EXTENDS Naturals, Sequences, FiniteSets, TLC, Json, IOUtils, SequencesExt
Fields == [1..9 -> 0..2]
BLs == {{1}, {5}, {1,2,3,4,6,7,8,9}, {3,7}}
Cases == {[elev |-> [i \in 1..9 |-> f[i]], bl |-> SetToSeq(b)] : f \in Fields, b \in BLs}
ASSUME PrintT(<<"n", Cardinality(Cases)>>)
ASSUME ndJsonSerialize("/tmp/exp/tla/cases.ndjson", SetToSeq(Cases))
VARIABLE x
Init == x = 0
Next == UNCHANGED x
====
