CONSTANTS
  MaxW = 2
  InitSize = 2
  Program <- MCProgram
  RelPublish = FALSE
  AcqWorker = FALSE
  RelDone = FALSE
  AcqWait = FALSE
  LockedNotify = FALSE
SPECIFICATION FairSpec
INVARIANT NoRace
CHECK_DEADLOCK FALSE
