#define FASTSCAPELIB_VERIF_HOOKS
#include <atomic>
#include <cassert>
#include <chrono>
#include <cstdio>
#include <thread>
#include <vector>
#include <mutex>
#include <unistd.h>
#include <csignal>
#include "fastscapelib/utils/thread_pool.hpp"
namespace fs = fastscapelib;
// steering script for the TLC counterexample: hold worker 1 between ++count (site 22) and wait
// until the caller has executed notify_all (site 11).
static std::atomic<int> phase{0};   // 0: normal ; 1: armed (second pause) ; 
static std::atomic<bool> notified{false};
static std::atomic<int> spins{0};
static std::atomic<int> arrivals{0};
static void hook(int site, const void*, std::size_t idx, void* aux){ if (phase.load()==1 && site!=13 && site!=12) { std::fprintf(stderr,"site %d idx %zu\n",site,idx); }
  if (phase.load()==1){
    if (site==22 && arrivals.fetch_add(1)==1){ // worker 1 has incremented, holds the mutex, about to wait
      // wait until the caller has passed notify_all
      auto t0=std::chrono::steady_clock::now(); while(!notified.load() && std::chrono::steady_clock::now()-t0 < std::chrono::milliseconds(300)) std::this_thread::yield(); if(!notified.load()) std::fprintf(stderr,"schedule infeasible here: released held worker\n");
    }
    if (site==11){ notified.store(true); }
    if (site==13){ if (spins.fetch_add(1) > 2000000){ std::printf("HANG: caller spins in wait() after resume(); worker blocked in cv.wait with nobody to notify\n"); std::fflush(stdout); _exit(3);} }
  }
}
int main(){
  fs::verif::hook().store(&hook);
  fs::thread_pool<std::size_t> pool(2);
  std::vector<int> out(8,0);
  pool.resume();
  pool.run_blocks(0, 8, [&](std::size_t, std::size_t a, std::size_t b){ for(auto i=a;i<b;++i) out[i]++; });
  phase.store(1);
  pool.pause();      // returns once count==2; worker 1 is held before wait
  std::fprintf(stderr,"pause returned\n");
  pool.resume();     // notify_all is lost for worker 1
  std::printf("resume returned (no hang)\n");
  pool.stop();
  return 0;
}
