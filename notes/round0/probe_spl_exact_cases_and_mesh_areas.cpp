#include <iostream>
#include <iomanip>
#include <cmath>
#include "xtensor/xarray.hpp"
#include "xtensor/xio.hpp"
#include "fastscapelib/flow/flow_graph.hpp"
#include "fastscapelib/flow/flow_router.hpp"
#include "fastscapelib/grid/profile_grid.hpp"
#include "fastscapelib/grid/trimesh.hpp"
#include "fastscapelib/eroders/spl.hpp"
namespace fs = fastscapelib;
int main(){
  { // SPL exact cases: chain 0<-1<-2, want h' = {0, 4, 13}; n=0.5: node1: delta*=4, f=1 -> delta0 = 4+1*2=6 -> h1=6 ; node2: delta* = 13-4=9, f=2 -> delta0 = 9+2*3=15 -> h2 = 4+15 = 19
    using grid_t = fs::profile_grid<>;
    grid_t grid(3, 1.0, {fs::node_status::fixed_value, fs::node_status::core});
    fs::flow_graph<grid_t> g(grid, {fs::single_flow_router()});
    xt::xarray<double> z = {0., 6., 19.};
    g.update_routes(z);
    xt::xarray<double> area = {1.,1.,1.};
    xt::xarray<double> k = {0., 1., 2.};
    for (double tol : {1e-3, 1e-9}) {
      fs::spl_eroder<fs::flow_graph<grid_t>> er(g, k, 0.0, 0.5, tol);
      auto e = er.erode(z, area, 1.0);
      std::cout << std::setprecision(17) << "n=0.5 tol=" << tol << " new elev " << (z - e) << " (expected 0,4,13)" << std::endl;
    }
    // n=2: node1 delta*=2,f=1 -> delta0=2+4=6 -> h1=6; node2: delta*=3 (h'=5), f=2 -> delta0 = 3+18=21 -> h2 = 2+21=23
    xt::xarray<double> z2 = {0., 6., 23.};
    g.update_routes(z2);
    fs::spl_eroder<fs::flow_graph<grid_t>> er2(g, k, 0.0, 2.0, 1e-3);
    auto e2 = er2.erode(z2, area, 1.0);
    std::cout << "n=2 new elev " << (z2 - e2) << " (expected 0,2,5)" << std::endl;
  }
  { // mesh areas: unit square split by diagonal + an obtuse triangle
    xt::xtensor<double,2> pts = {{0,0},{4,0},{4,4},{0,4},{9,1}};
    xt::xtensor<size_t,2> tr = {{0,1,2},{0,2,3},{1,4,2}};
    fs::trimesh m(pts,tr);
    std::cout << "areas " << m.nodes_areas() << " sum " << xt::sum(m.nodes_areas())() << std::endl;
  }
}
