#include <iostream>
#include <cmath>
#include "xtensor/xarray.hpp"
#include "xtensor/xio.hpp"
#include "fastscapelib/flow/flow_graph.hpp"
#include "fastscapelib/flow/flow_router.hpp"
#include "fastscapelib/flow/sink_resolver.hpp"
#include "fastscapelib/flow/flow_snapshot.hpp"
#include "fastscapelib/grid/raster_grid.hpp"
#include "fastscapelib/grid/profile_grid.hpp"
namespace fs = fastscapelib;
int main(){
  // zero plateau next to base level
  using grid_t = fs::profile_grid<>;
  grid_t grid(5, 1.0, {fs::node_status::fixed_value, fs::node_status::core});
  fs::flow_graph<grid_t> g(grid, {fs::pflood_sink_resolver(), fs::single_flow_router()});
  xt::xarray<double> z = {0.,0.,0.,0.,0.};
  auto& out = g.update_routes(z);
  std::cout << "out " << out << "\n rec " << xt::col(g.impl().receivers(),0) << std::endl;
  xt::xarray<double> z1 = {1.,1.,1.,1.,1.};
  auto& out1 = g.update_routes(z1);
  std::cout << "out1 " << (out1-1.0) << "\n rec " << xt::col(g.impl().receivers(),0) << std::endl;
  // multi flow tiny slopes
  fs::flow_graph<grid_t> gm(grid, {fs::pflood_sink_resolver(), fs::multi_flow_router(2.0)});
  gm.update_routes(z);
  std::cout << "w " << gm.impl().receivers_weight() << "\n cnt " << gm.impl().receivers_count() << std::endl;
  return 0;
}
