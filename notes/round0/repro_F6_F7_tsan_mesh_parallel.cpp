#include <iostream>
#include <random>
#include "xtensor/xarray.hpp"
#include "fastscapelib/flow/flow_graph.hpp"
#include "fastscapelib/flow/flow_router.hpp"
#include "fastscapelib/grid/trimesh.hpp"
namespace fs = fastscapelib;
int main(int argc,char**argv){
    size_t n=atoi(argv[1]); int nt=atoi(argv[2]); xt::xtensor<double,2> pts({n*n,2}); std::vector<std::array<size_t,3>> tris;
    for(size_t r=0;r<n;++r)for(size_t c=0;c<n;++c){pts(r*n+c,0)=double(c);pts(r*n+c,1)=double(r);}
    for(size_t r=0;r+1<n;++r)for(size_t c=0;c+1<n;++c){size_t a=r*n+c,b=a+1,d=a+n,e=d+1; tris.push_back({a,b,d}); tris.push_back({b,e,d});}
    xt::xtensor<size_t,2> tr({tris.size(),3}); for(size_t i=0;i<tris.size();++i)for(int k=0;k<3;++k)tr(i,k)=tris[i][k];
    fs::trimesh mesh(pts,tr);
    std::mt19937 rng(2); xt::xarray<double> z = xt::zeros<double>({n*n}); for(size_t i=0;i<n*n;++i) z(i)=double(rng()%1000);
    fs::flow_graph<fs::trimesh> gs(mesh,{fs::single_flow_router()});
    gs.update_routes(z);
    int bad=0; size_t badnodes=0;
    for (int rep=0; rep<10; ++rep){
      fs::flow_graph<fs::trimesh> gp(mesh,{fs::single_flow_router(nt)});
      gp.update_routes(z);
      size_t b=0; for(size_t i=0;i<n*n;++i) if (gp.impl().receivers()(i,0)!=gs.impl().receivers()(i,0)) ++b;
      if (b) ++bad; badnodes+=b;
    }
    std::cout << "mismatch runs "<<bad<<"/10 nodes "<<badnodes<<std::endl;
}
