---------------------------- MODULE PoolProto ----------------------------
EXTENDS Naturals, Sequences, FiniteSets, TLC

CONSTANTS MaxW,        \* max pool size
          InitSize,    \* initial pool size
          Program,     \* sequence of caller ops: <<"resume">>, <<"resize",k>>, <<"run",nb>>, <<"pause">>, <<"stop">>
          RelPublish,  \* has_job store(1) is release
          AcqWorker,   \* worker load of has_job is acquire
          RelDone,     \* worker store(0) is release
          AcqWait,     \* caller load in was_empty is acquire
          LockedNotify \* resume() takes the mutex around notify_all

W == 1..MaxW

VARIABLES cpc, cstack, ci, prog, size, started, paused, stopped,
          hasJob, hjVer,        \* flag value and the result/job version carried by the last store (0 if relaxed)
          jobsKind, jobNonNull, jobVer,
          pcount, mutex, cvWait,
          wpc, nthreads,
          seenVer, resVer, callerSeen, execCount,
          race, dup

vars == <<cpc, cstack, ci, prog, size, started, paused, stopped, hasJob, hjVer, jobsKind, jobNonNull, jobVer,
          pcount, mutex, cvWait, wpc, nthreads, seenVer, resVer, callerSeen, execCount, race, dup>>

Init ==
  /\ cpc = "idle" /\ cstack = <<>> /\ ci = 1 /\ prog = Program
  /\ size = InitSize /\ started = FALSE /\ paused = FALSE /\ stopped = FALSE
  /\ hasJob = [i \in W |-> 0] /\ hjVer = [i \in W |-> 0]
  /\ jobsKind = "none" /\ jobNonNull = [i \in W |-> FALSE] /\ jobVer = 0
  /\ pcount = 0 /\ mutex = 0 /\ cvWait = {}
  /\ wpc = [i \in W |-> "none"] /\ nthreads = 0
  /\ seenVer = [i \in W |-> 0] /\ resVer = [i \in W |-> 0] /\ callerSeen = [i \in W |-> 0]
  /\ execCount = [i \in W |-> 0]
  /\ race = FALSE /\ dup = FALSE

Call(target, ret) == /\ cpc' = target /\ cstack' = <<ret>> \o cstack
Return == /\ cpc' = Head(cstack) /\ cstack' = Tail(cstack)

UNCH_W == UNCHANGED <<wpc, seenVer, resVer, execCount>>

\* ---------------- caller ----------------
Idle ==
  /\ cpc = "idle"
  /\ IF prog = <<>> THEN cpc' = "finished" /\ UNCHANGED <<cstack, prog>>
     ELSE LET op == Head(prog) IN
          /\ prog' = Tail(prog)
          /\ CASE op[1] = "resume" -> Call("R0", "idle")
               [] op[1] = "resize" -> Call("Z0", "idle")
               [] op[1] = "run"    -> Call("B0", "idle")
               [] op[1] = "pause"  -> Call("P0", "idle")
               [] op[1] = "stop"   -> Call("S0", "idle")
  /\ ci' = IF prog # <<>> /\ Head(prog)[1] \in {"resize","run"} THEN Head(prog)[2] ELSE ci
  /\ UNCHANGED <<size, started, paused, stopped, hasJob, hjVer, jobsKind, jobNonNull, jobVer, pcount, mutex, cvWait, nthreads, callerSeen, race, dup>>
  /\ UNCH_W

\* resume
R0 == /\ cpc = "R0"
      /\ IF paused THEN cpc' = (IF LockedNotify THEN "R1lock" ELSE "R1") /\ UNCHANGED cstack ELSE Return
      /\ UNCHANGED <<ci, prog, size, started, paused, stopped, hasJob, hjVer, jobsKind, jobNonNull, jobVer, pcount, mutex, cvWait, nthreads, callerSeen, race, dup>> /\ UNCH_W
R1lock == /\ cpc = "R1lock" /\ mutex = 0 /\ mutex' = 99 /\ cpc' = "R1"
          /\ UNCHANGED <<cstack, ci, prog, size, started, paused, stopped, hasJob, hjVer, jobsKind, jobNonNull, jobVer, pcount, cvWait, nthreads, callerSeen, race, dup>> /\ UNCH_W
R1 == /\ cpc = "R1"
      /\ wpc' = [i \in W |-> IF i \in cvWait THEN "K3" ELSE wpc[i]]
      /\ cvWait' = {}
      /\ mutex' = IF mutex = 99 THEN 0 ELSE mutex
      /\ cpc' = "R2"
      /\ UNCHANGED <<cstack, ci, prog, size, started, paused, stopped, hasJob, hjVer, jobsKind, jobNonNull, jobVer, pcount, nthreads, callerSeen, race, dup, seenVer, resVer, execCount>>
R2 == /\ cpc = "R2" /\ paused' = FALSE /\ Call("W0", "RET")
      /\ UNCHANGED <<ci, prog, size, started, stopped, hasJob, hjVer, jobsKind, jobNonNull, jobVer, pcount, mutex, cvWait, nthreads, callerSeen, race, dup>> /\ UNCH_W
RET == /\ cpc = "RET" /\ Return
       /\ UNCHANGED <<ci, prog, size, started, paused, stopped, hasJob, hjVer, jobsKind, jobNonNull, jobVer, pcount, mutex, cvWait, nthreads, callerSeen, race, dup>> /\ UNCH_W

\* wait(): W0 sets index, Wl loads
W0 == /\ cpc = "W0" /\ ci' = 1 /\ cpc' = "Wl"
      /\ UNCHANGED <<cstack, prog, size, started, paused, stopped, hasJob, hjVer, jobsKind, jobNonNull, jobVer, pcount, mutex, cvWait, nthreads, callerSeen, race, dup>> /\ UNCH_W
Wl == /\ cpc = "Wl"
      /\ IF ci > size THEN Return /\ UNCHANGED <<ci, callerSeen>>
         ELSE IF hasJob[ci] = 1 THEN ci' = 1 /\ UNCHANGED <<cpc, cstack, callerSeen>>
         ELSE /\ ci' = ci + 1 /\ UNCHANGED <<cpc, cstack>>
              /\ callerSeen' = IF AcqWait /\ hjVer[ci] > callerSeen[ci] THEN [callerSeen EXCEPT ![ci] = hjVer[ci]] ELSE callerSeen
      /\ UNCHANGED <<prog, size, started, paused, stopped, hasJob, hjVer, jobsKind, jobNonNull, jobVer, pcount, mutex, cvWait, nthreads, race, dup>> /\ UNCH_W

\* run_tasks
T0 == /\ cpc = "T0"
      /\ IF ~started
           THEN /\ started' = TRUE /\ nthreads' = size
                /\ wpc' = [i \in W |-> IF i <= size THEN "L0" ELSE "none"]
                /\ seenVer' = [i \in W |-> IF i <= size THEN jobVer ELSE seenVer[i]]
           ELSE UNCHANGED <<started, nthreads, wpc, seenVer>>
      /\ cpc' = "T1"
      /\ UNCHANGED <<cstack, ci, prog, size, paused, stopped, hasJob, hjVer, jobsKind, jobNonNull, jobVer, pcount, mutex, cvWait, callerSeen, race, dup, resVer, execCount>>
T1 == /\ cpc = "T1"
      /\ IF paused THEN Call("R0", "T2i") ELSE cpc' = "T2i" /\ UNCHANGED cstack
      /\ UNCHANGED <<ci, prog, size, started, paused, stopped, hasJob, hjVer, jobsKind, jobNonNull, jobVer, pcount, mutex, cvWait, nthreads, callerSeen, race, dup>> /\ UNCH_W
T2i == /\ cpc = "T2i" /\ ci' = 1 /\ cpc' = "T2"
       /\ UNCHANGED <<cstack, prog, size, started, paused, stopped, hasJob, hjVer, jobsKind, jobNonNull, jobVer, pcount, mutex, cvWait, nthreads, callerSeen, race, dup>> /\ UNCH_W
T2 == /\ cpc = "T2"
      /\ IF ci > size THEN Return /\ UNCHANGED <<ci, hasJob, hjVer>>
         ELSE /\ ci' = ci + 1 /\ UNCHANGED <<cpc, cstack>>
              /\ IF jobNonNull[ci]
                   THEN hasJob' = [hasJob EXCEPT ![ci] = 1] /\ hjVer' = [hjVer EXCEPT ![ci] = IF RelPublish THEN jobVer ELSE 0]
                   ELSE UNCHANGED <<hasJob, hjVer>>
      /\ UNCHANGED <<prog, size, started, paused, stopped, jobsKind, jobNonNull, jobVer, pcount, mutex, cvWait, nthreads, callerSeen, race, dup>> /\ UNCH_W

\* pause
P0 == /\ cpc = "P0"
      /\ IF ~paused THEN Call("W0", "P1") ELSE Return
      /\ UNCHANGED <<ci, prog, size, started, paused, stopped, hasJob, hjVer, jobsKind, jobNonNull, jobVer, pcount, mutex, cvWait, nthreads, callerSeen, race, dup>> /\ UNCH_W
P1 == /\ cpc = "P1" /\ jobsKind' = "pause" /\ jobNonNull' = [i \in W |-> i <= size] /\ jobVer' = jobVer + 1
      /\ Call("T0", "P2")
      /\ UNCHANGED <<ci, prog, size, started, paused, stopped, hasJob, hjVer, pcount, mutex, cvWait, nthreads, callerSeen, race, dup>> /\ UNCH_W
P2 == /\ cpc = "P2" /\ paused' = TRUE /\ cpc' = "P3"
      /\ UNCHANGED <<cstack, ci, prog, size, started, stopped, hasJob, hjVer, jobsKind, jobNonNull, jobVer, pcount, mutex, cvWait, nthreads, callerSeen, race, dup>> /\ UNCH_W
P3 == /\ cpc = "P3"
      /\ IF pcount = size THEN Return ELSE UNCHANGED <<cpc, cstack>>
      /\ UNCHANGED <<ci, prog, size, started, paused, stopped, hasJob, hjVer, jobsKind, jobNonNull, jobVer, pcount, mutex, cvWait, nthreads, callerSeen, race, dup>> /\ UNCH_W

\* run_blocks: ci holds number of blocks requested by op
B0 == /\ cpc = "B0" /\ jobsKind' = "user" /\ jobNonNull' = [i \in W |-> i <= size /\ i <= ci] /\ jobVer' = jobVer + 1
      /\ execCount' = [i \in W |-> 0]
      /\ Call("T0", "B1")
      /\ UNCHANGED <<ci, prog, size, started, paused, stopped, hasJob, hjVer, pcount, mutex, cvWait, nthreads, callerSeen, race, dup, wpc, seenVer, resVer>>
B1 == /\ cpc = "B1" /\ Call("W0", "B2")
      /\ UNCHANGED <<ci, prog, size, started, paused, stopped, hasJob, hjVer, jobsKind, jobNonNull, jobVer, pcount, mutex, cvWait, nthreads, callerSeen, race, dup>> /\ UNCH_W
B2 == /\ cpc = "B2"   \* caller reads results, destroys job vector
      /\ race' = (race \/ \E i \in W : jobNonNull[i] /\ callerSeen[i] < resVer[i])
      /\ dup' = (dup \/ \E i \in W : (jobNonNull[i] /\ execCount[i] # 1) \/ (~jobNonNull[i] /\ execCount[i] # 0))
      /\ jobsKind' = "none" /\ jobVer' = jobVer + 1
      /\ Return
      /\ UNCHANGED <<ci, prog, size, started, paused, stopped, hasJob, hjVer, jobNonNull, pcount, mutex, cvWait, nthreads, callerSeen>> /\ UNCH_W

\* stop
S0 == /\ cpc = "S0"
      /\ IF ~stopped THEN stopped' = TRUE /\ cpc' = "S1" /\ UNCHANGED cstack ELSE Return /\ UNCHANGED stopped
      /\ UNCHANGED <<ci, prog, size, started, paused, hasJob, hjVer, jobsKind, jobNonNull, jobVer, pcount, mutex, cvWait, nthreads, callerSeen, race, dup>> /\ UNCH_W
S1 == /\ cpc = "S1"
      /\ IF paused THEN Call("R0", "S2i") ELSE cpc' = "S2i" /\ UNCHANGED cstack
      /\ UNCHANGED <<ci, prog, size, started, paused, stopped, hasJob, hjVer, jobsKind, jobNonNull, jobVer, pcount, mutex, cvWait, nthreads, callerSeen, race, dup>> /\ UNCH_W
S2i == /\ cpc = "S2i" /\ ci' = 1 /\ cpc' = "S2"
       /\ UNCHANGED <<cstack, prog, size, started, paused, stopped, hasJob, hjVer, jobsKind, jobNonNull, jobVer, pcount, mutex, cvWait, nthreads, callerSeen, race, dup>> /\ UNCH_W
S2 == /\ cpc = "S2"
      /\ IF ci > nthreads THEN Return /\ UNCHANGED <<ci, callerSeen>>
         ELSE /\ wpc[ci] = "exited" /\ ci' = ci + 1 /\ callerSeen' = [callerSeen EXCEPT ![ci] = resVer[ci]] /\ UNCHANGED <<cpc, cstack>>
      /\ UNCHANGED <<prog, size, started, paused, stopped, hasJob, hjVer, jobsKind, jobNonNull, jobVer, pcount, mutex, cvWait, nthreads, race, dup>> /\ UNCH_W

\* resize: ci holds new size
Z0 == /\ cpc = "Z0"
      /\ IF ci # size THEN size' = ci /\ Call("S0", "Z1") ELSE Return /\ UNCHANGED size
      /\ UNCHANGED <<ci, prog, started, paused, stopped, hasJob, hjVer, jobsKind, jobNonNull, jobVer, pcount, mutex, cvWait, nthreads, callerSeen, race, dup>> /\ UNCH_W
Z1 == /\ cpc = "Z1" /\ stopped' = FALSE /\ started' = FALSE /\ nthreads' = 0
      /\ wpc' = [i \in W |-> "none"] /\ hasJob' = [i \in W |-> 0] /\ hjVer' = [i \in W |-> 0]
      /\ Return
      /\ UNCHANGED <<ci, prog, size, paused, jobsKind, jobNonNull, jobVer, pcount, mutex, cvWait, callerSeen, race, dup, seenVer, resVer, execCount>>

CallerNext == Idle \/ R0 \/ R1lock \/ R1 \/ R2 \/ RET \/ W0 \/ Wl \/ T0 \/ T1 \/ T2i \/ T2 \/ P0 \/ P1 \/ P2 \/ P3 \/ B0 \/ B1 \/ B2 \/ S0 \/ S1 \/ S2i \/ S2 \/ Z0 \/ Z1

\* ---------------- workers ----------------
UNCH_C == UNCHANGED <<cpc, cstack, ci, prog, size, started, paused, stopped, jobsKind, jobNonNull, jobVer, nthreads, callerSeen, dup>>

L0(i) == /\ wpc[i] = "L0"
         /\ wpc' = [wpc EXCEPT ![i] = IF stopped THEN "exited" ELSE "L1"]
         /\ UNCH_C /\ UNCHANGED <<hasJob, hjVer, pcount, mutex, cvWait, seenVer, resVer, execCount, race>>
L1(i) == /\ wpc[i] = "L1"
         /\ IF hasJob[i] = 1
              THEN /\ wpc' = [wpc EXCEPT ![i] = "L2"]
                   /\ seenVer' = IF AcqWorker /\ hjVer[i] > seenVer[i] THEN [seenVer EXCEPT ![i] = hjVer[i]] ELSE seenVer
              ELSE wpc' = [wpc EXCEPT ![i] = "L0"] /\ UNCHANGED seenVer
         /\ UNCH_C /\ UNCHANGED <<hasJob, hjVer, pcount, mutex, cvWait, resVer, execCount, race>>
L2(i) == /\ wpc[i] = "L2"
         /\ race' = (race \/ seenVer[i] < jobVer)   \* reads p_jobs / job object written by caller
         /\ IF jobsKind = "pause"
              THEN wpc' = [wpc EXCEPT ![i] = "K0"] /\ UNCHANGED <<execCount, resVer>>
              ELSE /\ wpc' = [wpc EXCEPT ![i] = "L3"]
                   /\ execCount' = [execCount EXCEPT ![i] = @ + 1]
                   /\ resVer' = [resVer EXCEPT ![i] = @ + 1]
         /\ UNCH_C /\ UNCHANGED <<hasJob, hjVer, pcount, mutex, cvWait, seenVer>>
L3(i) == /\ wpc[i] = "L3"
         /\ hasJob' = [hasJob EXCEPT ![i] = 0]
         /\ hjVer' = [hjVer EXCEPT ![i] = IF RelDone THEN resVer[i] ELSE 0]
         /\ wpc' = [wpc EXCEPT ![i] = "L0"]
         /\ UNCH_C /\ UNCHANGED <<pcount, mutex, cvWait, seenVer, resVer, execCount, race>>
K0(i) == /\ wpc[i] = "K0" /\ mutex = 0 /\ mutex' = i /\ wpc' = [wpc EXCEPT ![i] = "K1"]
         /\ UNCH_C /\ UNCHANGED <<hasJob, hjVer, pcount, cvWait, seenVer, resVer, execCount, race>>
K1(i) == /\ wpc[i] = "K1" /\ pcount' = pcount + 1 /\ wpc' = [wpc EXCEPT ![i] = "K2"]
         /\ UNCH_C /\ UNCHANGED <<hasJob, hjVer, mutex, cvWait, seenVer, resVer, execCount, race>>
K2(i) == /\ wpc[i] = "K2" /\ mutex' = 0 /\ cvWait' = cvWait \cup {i} /\ wpc' = [wpc EXCEPT ![i] = "blocked"]
         /\ UNCH_C /\ UNCHANGED <<hasJob, hjVer, pcount, seenVer, resVer, execCount, race>>
K3(i) == /\ wpc[i] = "K3" /\ mutex = 0 /\ mutex' = i /\ wpc' = [wpc EXCEPT ![i] = "K4"]
         /\ UNCH_C /\ UNCHANGED <<hasJob, hjVer, pcount, cvWait, seenVer, resVer, execCount, race>>
K4(i) == /\ wpc[i] = "K4" /\ pcount' = pcount - 1 /\ mutex' = 0 /\ wpc' = [wpc EXCEPT ![i] = "L3"]
         /\ UNCH_C /\ UNCHANGED <<hasJob, hjVer, cvWait, seenVer, resVer, execCount, race>>

WorkerNext(i) == L0(i) \/ L1(i) \/ L2(i) \/ L3(i) \/ K0(i) \/ K1(i) \/ K2(i) \/ K3(i) \/ K4(i)

Next == CallerNext \/ \E i \in W : WorkerNext(i)

Spec == Init /\ [][Next]_vars
FairSpec == Spec /\ WF_vars(CallerNext) /\ \A i \in W : WF_vars(WorkerNext(i))

NoRace == ~race
ExactlyOnce == ~dup
Termination == <>(cpc = "finished")
VerBound == jobVer <= 12
=============================================================================
