---- MODULE PFloodProto ----
EXTENDS Naturals, Sequences, FiniteSets, TLC
CONSTANTS NR, NC, Levels, BLSets, Masks
N == NR * NC
Nodes == 1..N
K == N + 1                       \* spacing between input levels, leaves room for N epsilon steps
Row(n) == (n - 1) \div NC
Col(n) == (n - 1) % NC
\* queen neighbours in row-major order (as the grid reports them)
NbSeq(n) == LET cand == << <<0-1,0-1>>, <<0-1,0>>, <<0-1,1>>, <<0,0-1>>, <<0,1>>, <<1,0-1>>, <<1,0>>, <<1,1>> >>
                ok(d) == Row(n) + d[1] \in 0..(NR-1) /\ Col(n) + d[2] \in 0..(NC-1)
            IN [i \in 1..8 |-> IF ok(cand[i]) THEN (Row(n) + cand[i][1]) * NC + Col(n) + cand[i][2] + 1 ELSE 0]
Nb(n) == {NbSeq(n)[i] : i \in 1..8} \ {0}

VARIABLES elevIn, bl, mask, elev, closed, open, pit, done
vars == <<elevIn, bl, mask, elev, closed, open, pit, done>>

Init == /\ elevIn \in [Nodes -> {l * K : l \in Levels}]
        /\ bl \in BLSets /\ mask \in Masks /\ bl \cap mask = {}
        /\ elev = elevIn /\ closed = bl /\ open = bl /\ pit = <<>> /\ done = FALSE

MinOpen == {n \in open : \A m \in open : elev[n] <= elev[m]}
\* process neighbours of i in grid order: fold
RECURSIVE Visit(_,_,_,_,_,_)
Visit(i, k, e, cl, op, pt) ==
  IF k > 8 THEN <<e, cl, op, pt>>
  ELSE LET n == NbSeq(i)[k] IN
       IF n = 0 \/ n \in mask \/ n \in cl THEN Visit(i, k+1, e, cl, op, pt)
       ELSE IF e[n] <= e[i] + 1
            THEN Visit(i, k+1, [e EXCEPT ![n] = e[i] + 1], cl \cup {n}, op, Append(pt, n))
            ELSE Visit(i, k+1, e, cl \cup {n}, op \cup {n}, pt)
Apply(i, op1, pt1) == LET r == Visit(i, 1, elev, closed, op1, pt1) IN
     /\ elev' = r[1] /\ closed' = r[2] /\ open' = r[3] /\ pit' = r[4]
Pop == /\ ~done
       /\ \/ open # {} \/ pit # <<>>
       /\ IF pit # <<>> /\ open # {} /\ (\E n \in MinOpen : elev[n] = elev[Head(pit)])
            THEN \E i \in MinOpen : Apply(i, open \ {i}, pit)          \* heap tie: any minimal element
            ELSE IF pit # <<>> THEN Apply(Head(pit), open, Tail(pit))
            ELSE \E i \in MinOpen : Apply(i, open \ {i}, pit)
       /\ UNCHANGED <<elevIn, bl, mask, done>>
Finish == /\ ~done /\ open = {} /\ pit = <<>> /\ done' = TRUE
          /\ UNCHANGED <<elevIn, bl, mask, elev, closed, open, pit>>
Next == Pop \/ Finish
Spec == Init /\ [][Next]_vars

\* ---- contract (C02 / C01 part) ----
INF == 1000000
RECURSIVE Fix(_,_)
Step(S) == TLCEval([n \in Nodes |-> IF n \in mask THEN INF ELSE IF n \in bl THEN elevIn[n]
             ELSE LET c == {S[m] : m \in Nb(n) \ mask} 
                      mn == IF c = {} THEN INF ELSE CHOOSE x \in c : \A y \in c : x <= y
                  IN IF mn = INF THEN INF ELSE IF mn > elevIn[n] THEN mn ELSE elevIn[n]])
Fix(S, k) == IF k = 0 THEN S ELSE LET T == Step(S) IN IF T = S THEN S ELSE Fix(T, k - 1)
Spill == Fix([n \in Nodes |-> IF n \in bl THEN elevIn[n] ELSE INF], N + 1)
Contract == done => LET S == Spill IN \A n \in Nodes :
      /\ elev[n] >= elevIn[n]
      /\ (n \in bl \/ n \in mask) => elev[n] = elevIn[n]
      /\ (n \notin mask /\ S[n] # INF) => /\ elev[n] >= S[n] /\ elev[n] <= S[n] + N
                                          /\ (n \notin bl => \E m \in Nb(n) \ mask : elev[m] < elev[n])
====
