#include <iostream>
#include <cmath>
#include <random>
#include "xtensor/xarray.hpp"
#include "xtensor/xio.hpp"
#include "fastscapelib/flow/flow_graph.hpp"
#include "fastscapelib/flow/flow_router.hpp"
#include "fastscapelib/flow/sink_resolver.hpp"
#include "fastscapelib/flow/flow_snapshot.hpp"
#include "fastscapelib/grid/raster_grid.hpp"
#include "fastscapelib/grid/trimesh.hpp"
namespace fs = fastscapelib;
int main(int argc, char** argv){
  int which = atoi(argv[1]);
  if (which==1){ // C09: history dependence through unordered_set order
    using grid_t = fs::raster_grid<fs::xt_selector, fs::raster_connect::queen>;
    std::mt19937 rng(1);
    int diffs=0, trials=0;
    for (int it=0; it<2000; ++it){
      size_t nr=4+rng()%3, nc=4+rng()%3;
      grid_t grid({nr,nc},{1.,1.},fs::node_status::fixed_value);
      xt::xarray<double> z = xt::zeros<double>({nr,nc});
      for (size_t i=0;i<nr*nc;++i) z.flat(i)=double(rng()%3);
      fs::flow_graph<grid_t> fresh(grid,{fs::pflood_sink_resolver(), fs::single_flow_router()});
      fs::flow_graph<grid_t> used(grid,{fs::pflood_sink_resolver(), fs::single_flow_router()});
      auto bl = fresh.base_levels();
      std::vector<size_t> other; for (size_t i=0;i<nr*nc;++i) if (rng()%2) other.push_back(i);
      used.set_base_levels(other); used.update_routes(z);
      std::vector<size_t> bl2(bl); std::shuffle(bl2.begin(), bl2.end(), rng);
      used.set_base_levels(bl2);
      std::sort(bl.begin(), bl.end()); fresh.set_base_levels(bl);
      xt::xarray<double> a = fresh.update_routes(z);
      xt::xarray<double> b = used.update_routes(z);
      ++trials;
      if (!(a==b) || !(fresh.impl().receivers()==used.impl().receivers())) { if(!diffs){ std::cout<<"z="<<z<<"\nfresh="<<a<<"\nused="<<b<<"\nrec fresh="<<xt::col(fresh.impl().receivers(),0)<<"\nrec used="<<xt::col(used.impl().receivers(),0)<<std::endl;} ++diffs; }
    }
    std::cout << "C09 diffs "<<diffs<<"/"<<trials<<std::endl;
  }
  if (which==2){ // C16 snapshot
    using grid_t = fs::raster_grid<fs::xt_selector, fs::raster_connect::queen>;
    grid_t grid({4,4},{1.,1.},fs::node_status::fixed_value);
    fs::flow_graph<grid_t> g(grid,{fs::single_flow_router(), fs::flow_snapshot("a"), fs::mst_sink_resolver()});
    fs::flow_graph<grid_t> ref(grid,{fs::single_flow_router()});
    xt::xarray<double> z = {{3,3,3,3},{3,1,2,3},{3,2,0,3},{3,3,3,0.5}};
    g.update_routes(z); ref.update_routes(z);
    auto& s = g.graph_snapshot("a");
    std::cout << "donors snap\n" << s.impl().donors() << "\ndonors ref\n" << ref.impl().donors() << "\ndcount snap " << s.impl().donors_count() << "\ndcount ref " << ref.impl().donors_count()<< std::endl;
    std::cout << "bfs snap " << s.impl().bfs_indices() << "\nbfs ref " << ref.impl().bfs_indices() << "\nlevels snap " << s.impl().bfs_levels() << " ref " << ref.impl().bfs_levels() << std::endl;
    std::cout << "snap bl size " << s.base_levels().size() << " ref " << ref.base_levels().size() << std::endl;
  }
  if (which==3){ // C10 trimesh parallel
    // regular triangulated grid n x n
    size_t n=150; xt::xtensor<double,2> pts({n*n,2}); std::vector<std::array<size_t,3>> tris;
    for(size_t r=0;r<n;++r)for(size_t c=0;c<n;++c){pts(r*n+c,0)=double(c);pts(r*n+c,1)=double(r);}
    for(size_t r=0;r+1<n;++r)for(size_t c=0;c+1<n;++c){size_t a=r*n+c,b=a+1,d=a+n,e=d+1; tris.push_back({a,b,d}); tris.push_back({b,e,d});}
    xt::xtensor<size_t,2> tr({tris.size(),3}); for(size_t i=0;i<tris.size();++i)for(int k=0;k<3;++k)tr(i,k)=tris[i][k];
    fs::trimesh mesh(pts,tr);
    std::mt19937 rng(2); xt::xarray<double> z = xt::zeros<double>({n*n}); for(size_t i=0;i<n*n;++i) z(i)=double(rng()%1000);
    fs::flow_graph<fs::trimesh> gs(mesh,{fs::single_flow_router()});
    gs.update_routes(z);
    int bad=0;
    for (int rep=0; rep<20; ++rep){
      fs::flow_graph<fs::trimesh> gp(mesh,{fs::single_flow_router(4)});
      gp.update_routes(z);
      if (!(gp.impl().receivers()==gs.impl().receivers())) ++bad;
    }
    std::cout << "C10 trimesh parallel mismatches "<<bad<<"/20"<<std::endl;
  }
}
