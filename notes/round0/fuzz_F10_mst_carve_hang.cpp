#include <iostream>
#include <cmath>
#include <random>
#include <csignal>
#include <unistd.h>
#include "xtensor/xarray.hpp"
#include "xtensor/xio.hpp"
#include "fastscapelib/flow/flow_graph.hpp"
#include "fastscapelib/flow/flow_router.hpp"
#include "fastscapelib/flow/sink_resolver.hpp"
#include "fastscapelib/grid/raster_grid.hpp"
namespace fs = fastscapelib;
static xt::xarray<double> Z; static xt::xarray<bool> M; static std::vector<size_t> BL; static int METH, RM;
void on_alarm(int){ std::cout << "HANG meth="<<METH<<" rm="<<RM<<"\nZ=" << Z << "\nM=" << M << "\nBL="; for(auto b:BL) std::cout<<b<<" "; std::cout<<std::endl; _exit(3);} 
int main(int argc, char** argv){
  signal(SIGALRM, on_alarm);
  std::mt19937 rng(atoi(argv[1]));
  using grid_t = fs::raster_grid<fs::xt_selector, fs::raster_connect::rook>;
  int nviol=0;
  for (int it=0; it<20000; ++it){
    size_t nr = 3 + rng()%3, nc = 3 + rng()%3;
    grid_t grid({nr,nc}, {1.0,1.0}, fs::node_status::core);
    METH = rng()%2; RM = rng()%2;
    fs::flow_graph<grid_t> g(grid, {fs::single_flow_router(), fs::mst_sink_resolver(METH?fs::mst_method::boruvka:fs::mst_method::kruskal, RM?fs::mst_route_method::carve:fs::mst_route_method::basic)});
    Z = xt::zeros<double>({nr,nc}); M = xt::zeros<bool>({nr,nc});
    int lev = 2 + rng()%4;
    for (size_t i=0;i<nr*nc;++i){ Z.flat(i) = double(rng()%lev); M.flat(i) = (rng()%5==0); }
    BL.clear(); for (size_t i=0;i<nr*nc;++i) if (!M.flat(i) && rng()%8==0) BL.push_back(i);
    if (BL.empty()) { size_t k=rng()%(nr*nc); M.flat(k)=false; BL.push_back(k);}
    g.set_mask(M); g.set_base_levels(BL);
    alarm(2);
    auto& out = g.update_routes(Z);
    alarm(0);
    // check: every unmasked node reaches a self-receiver in <= n steps
    auto& rec = g.impl().receivers();
    for (size_t i=0;i<nr*nc;++i){ size_t k=i; size_t steps=0; while (rec(k,0)!=k && steps<=nr*nc){k=rec(k,0);++steps;} if (steps>nr*nc){ std::cout<<"CYCLE from "<<i<<"\nZ="<<Z<<"\nM="<<M<<std::endl; nviol++; break;} }
  }
  std::cout << "done viol="<<nviol<<std::endl;
}
