// prototype harness: random small rasters, 5 resolver variants, ulp-rank encoded trace (ndjson)
#include <algorithm>
#include <cmath>
#include <cstdint>
#include <cstring>
#include <cstdio>
#include <map>
#include <random>
#include <string>
#include <vector>
#include <csignal>
#include <unistd.h>
#include "xtensor/xarray.hpp"
#include "fastscapelib/flow/flow_graph.hpp"
#include "fastscapelib/flow/flow_router.hpp"
#include "fastscapelib/flow/sink_resolver.hpp"
#include "fastscapelib/grid/raster_grid.hpp"
namespace fs = fastscapelib;
static int64_t key(double x){ int64_t b; std::memcpy(&b,&x,8); return b>=0 ? b : (INT64_MIN - b); }
struct Rank { std::vector<int64_t> keys; std::map<int64_t,int> r;
  void add(double x){ keys.push_back(key(x)); }
  void build(int G){ std::sort(keys.begin(),keys.end()); keys.erase(std::unique(keys.begin(),keys.end()),keys.end()); int cur=0; for(size_t i=0;i<keys.size();++i){ if(i){ __int128 d=(__int128)keys[i]-keys[i-1]; cur += (d>G? G : (int)d);} r[keys[i]]=cur; } }
  int of(double x){ return r.at(key(x)); } };
template<class V> static void arr(FILE*f,const char*name,const V&v,bool last=false){ std::fprintf(f,"\"%s\":[",name); for(size_t i=0;i<v.size();++i) std::fprintf(f,"%s%ld",i?",":"",(long)v[i]); std::fprintf(f,"]%s",last?"":","); }
static volatile int cur_case=-1;
static void on_alarm(int){ std::fprintf(stderr,"WATCHDOG case %d\n",cur_case); _exit(4);} 
int main(int argc,char**argv){
  std::signal(SIGALRM,on_alarm);
  std::mt19937 rng(atoi(argv[1])); int ncases=atoi(argv[2]); FILE*f=std::fopen(argv[3],"w");
  using grid_t = fs::raster_grid<fs::xt_selector, fs::raster_connect::queen>;
  for(int it=0;it<ncases;++it){ cur_case=it;
    size_t nr=3+rng()%3, nc=3+rng()%3, n=nr*nc;
    grid_t grid({nr,nc},{1.0,1.0},fs::node_status::core);
    xt::xarray<double> z=xt::zeros<double>({nr,nc}); xt::xarray<bool> m=xt::zeros<bool>({nr,nc});
    int fam=rng()%4; int lev=2+rng()%4; double scale = fam==2? std::ldexp(1.0,-1074) : (fam==3? -1.0 : 1.0);
    for(size_t i=0;i<n;++i){ z.flat(i)= (fam==1? double(rng()%1000) : double(rng()%lev))*scale + (fam==3? 7.0:0.0); m.flat(i)= (rng()%7==0); }
    std::vector<size_t> bl; for(size_t i=0;i<n;++i) if(!m.flat(i)&&rng()%9==0) bl.push_back(i);
    if(bl.empty()){ size_t k=rng()%n; m.flat(k)=false; bl.push_back(k);} 
    std::vector<std::vector<size_t>> nb(n); for(size_t i=0;i<n;++i){ for(auto x: grid.neighbors_indices(i)) nb[i].push_back(x);} 
    for(int variant=0; variant<5; ++variant){
      std::unique_ptr<fs::flow_graph<grid_t>> g;
      if(variant==0) g.reset(new fs::flow_graph<grid_t>(grid,{fs::pflood_sink_resolver(),fs::single_flow_router()}));
      else g.reset(new fs::flow_graph<grid_t>(grid,{fs::single_flow_router(),fs::mst_sink_resolver((variant-1)/2?fs::mst_method::boruvka:fs::mst_method::kruskal,(variant-1)%2?fs::mst_route_method::carve:fs::mst_route_method::basic)}));
      g->set_mask(m); g->set_base_levels(bl);
      alarm(5); const auto& out=g->update_routes(z); alarm(0);
      Rank R; for(size_t i=0;i<n;++i){R.add(z.flat(i));R.add(out.flat(i));} R.build(int(n)+2);
      std::vector<int> zi(n),zo(n),mk(n),rec(n); std::vector<int> same(n);
      for(size_t i=0;i<n;++i){ zi[i]=R.of(z.flat(i)); zo[i]=R.of(out.flat(i)); mk[i]=m.flat(i); rec[i]=int(g->impl().receivers()(i,0)); double a=z.flat(i),b=out.flat(i); same[i]=!std::memcmp(&a,&b,8);} 
      std::fprintf(f,"{\"e\":\"UpdateRoutes\",\"case\":%d,\"variant\":%d,\"n\":%zu,",it,variant,n);
      arr(f,"zin",zi); arr(f,"zout",zo); arr(f,"mask",mk); arr(f,"rec",rec); arr(f,"same",same); arr(f,"bl",bl);
      std::fprintf(f,"\"nbrs\":["); for(size_t i=0;i<n;++i){ std::fprintf(f,"%s[",i?",":""); for(size_t k=0;k<nb[i].size();++k) std::fprintf(f,"%s%zu",k?",":"",nb[i][k]); std::fprintf(f,"]"); } std::fprintf(f,"]}\n");
    }
  }
  std::fclose(f); return 0; }
