#include <iostream>
#include <cmath>
#include "xtensor/xarray.hpp"
#include "xtensor/xio.hpp"
#include "xtensor/xrandom.hpp"
#include "fastscapelib/flow/flow_graph.hpp"
#include "fastscapelib/flow/flow_router.hpp"
#include "fastscapelib/flow/sink_resolver.hpp"
#include "fastscapelib/flow/flow_snapshot.hpp"
#include "fastscapelib/grid/raster_grid.hpp"
#include "fastscapelib/grid/profile_grid.hpp"
#include "fastscapelib/eroders/spl.hpp"
namespace fs = fastscapelib;
int main(int argc, char** argv){
  int which = atoi(argv[1]);
  if (which==1){
    // component with no base level: profile grid, mask in middle, base level at left only
    using grid_t = fs::profile_grid<>;
    grid_t grid(12, 1.0, {fs::node_status::fixed_value, fs::node_status::core});
    for (int meth=0; meth<2; ++meth) for (int rm=0; rm<2; ++rm){
    fs::flow_graph<grid_t> g(grid, {fs::single_flow_router(), fs::mst_sink_resolver(meth?fs::mst_method::boruvka:fs::mst_method::kruskal, rm?fs::mst_route_method::carve:fs::mst_route_method::basic)});
    xt::xarray<bool> mask = xt::zeros<bool>({12}); mask(3)=true;
    g.set_mask(mask);
    //            0  1  2  3m 4  5  6  7  8  9 10 11
    xt::xarray<double> z = {0.,2.,1.,9.,5.,3.,6.,2.,7.,1.,8.,4.};
    auto& out = g.update_routes(z);
    std::cout << "meth " << meth << " rm " << rm << " out " << out << "\n rec " << xt::col(g.impl().receivers(),0) << std::endl;
    }
  }
  if (which==2){
    using grid_t = fs::profile_grid<>;
    grid_t grid(4, 1.0, {fs::node_status::fixed_value, fs::node_status::core});
    fs::flow_graph<grid_t> g(grid, {fs::single_flow_router()});
    xt::xarray<double> z = {0.,1.,2.,3.};
    g.update_routes(z);
    auto a = g.accumulate(1.0);
    for (double n : {0.5, 1.0, 2.0}) {
      fs::spl_eroder<fs::flow_graph<grid_t>> er(g, 1.0, 0.0, n, 1e-9);
      auto e = er.erode(z, a, 1.0);
      std::cout << "n=" << n << " erosion " << e << std::endl;
    }
    fs::spl_eroder<fs::flow_graph<grid_t>> er(g, 1e300, 1.0, 2.0, 1e-3);
    xt::xarray<double> big = a*1e300;
    std::cout << "extreme..." << std::endl;
    auto e = er.erode(z, big, 1e300);
    std::cout << "extreme erosion " << e << std::endl;
  }
  return 0;
}
