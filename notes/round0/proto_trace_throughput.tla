---- MODULE TV2 ----
EXTENDS Naturals, Sequences, FiniteSets, TLC, Json, IOUtils
VARIABLE l
ASSUME TLCSet(7, ndJsonDeserialize(IOEnv.TRACE))
TraceLog == TLCGet(7)
N(r) == Len(r.elev)
Nodes(r) == 1..N(r)
\* minimax spill level by fixpoint iteration
RECURSIVE Fix(_,_,_)
Step(r, S) == [n \in Nodes(r) |->
     IF r.mask[n] THEN S[n]
     ELSE IF n \in {b + 1 : b \in {r.bl[i] : i \in 1..Len(r.bl)}} THEN r.elev[n]
     ELSE LET nb == {r.nbrs[n][k] + 1 : k \in 1..Len(r.nbrs[n])}
              um == {m \in nb : ~r.mask[m]}
              cand == {S[m] : m \in um}
              mn == IF cand = {} THEN 1000000 ELSE CHOOSE x \in cand : \A y \in cand : x <= y
          IN IF mn > r.elev[n] THEN mn ELSE r.elev[n]]
Fix(r, S, k) == IF k = 0 THEN S ELSE LET T == Step(r, S) IN IF T = S THEN S ELSE Fix(r, T, k-1)
Spill(r) == Fix(r, [n \in Nodes(r) |-> IF n \in {r.bl[i] + 1 : i \in 1..Len(r.bl)} THEN r.elev[n] ELSE 1000000], N(r))
OK(r) == LET S == Spill(r) IN \A n \in Nodes(r) : r.mask[n] \/ S[n] = 1000000 \/ (r.out[n] >= S[n] /\ r.out[n] <= S[n] + N(r))
Init == l = 1
Next == /\ l <= Len(TraceLog) /\ (OK(TraceLog[l]) = TRUE) /\ l' = l + 1
Spec == Init /\ [][Next]_l
Accepted == TLCGet("stats").diameter - 1 = Len(TraceLog)
====
