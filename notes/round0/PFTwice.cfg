CONSTANTS
  NR = 2
  NC = 3
  Levels = {0, 1}
  BLSets = {{1}, {1, 6}}
  Masks = {{}}
SPECIFICATION Spec
INVARIANT Deterministic
CHECK_DEADLOCK FALSE
