CONSTANTS
  MaxW = 3
  InitSize = 2
  Program <- MCProgram
  RelPublish = TRUE
  AcqWorker = TRUE
  RelDone = TRUE
  AcqWait = TRUE
  LockedNotify = TRUE
SPECIFICATION FairSpec
INVARIANT NoRace
CHECK_DEADLOCK FALSE
INVARIANT ExactlyOnce
PROPERTY Termination
