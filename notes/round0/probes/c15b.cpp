#include <algorithm>
#include <cstdio>
#include <functional>
#include <random>
#include <vector>
#include "xtensor/xarray.hpp"
#include "fastscapelib/flow/flow_graph.hpp"
#include "fastscapelib/flow/flow_router.hpp"
#include "fastscapelib/flow/sink_resolver.hpp"
#include "fastscapelib/flow/basin_graph.hpp"
#include "fastscapelib/grid/raster_grid.hpp"
namespace fs = fastscapelib;
int main(){ using G=fs::raster_grid<fs::xt_selector,fs::raster_connect::rook>; std::mt19937 rng(5); long bad=0, maxdeg=0;
 for(int it=0;it<300;++it){ size_t nc=40+rng()%30, nr=3; G grid({nr,nc},{1.,1.},fs::node_status::core);
  xt::xarray<double> z=xt::zeros<double>({nr,nc}); int tie=rng()%2;
  for(size_t c=0;c<nc;++c){ z(1,c)=10.0*c+100; for(size_t r:{size_t(0),size_t(2)}){ z(r,c)= (c%2==0)? (tie? 10.0*c+99 - double(rng()%2) : 10.0*c+99-double(rng()%5)) : 100000.0; } }
  std::vector<size_t> bl={nc-1}; // (0,nc-1)
  fs::flow_graph<G> g(grid,{fs::single_flow_router()}); g.set_base_levels(bl); g.update_routes(z); g.basins();
  std::vector<double> w[2];
  for(int meth=0;meth<2;++meth){ fs::basin_graph<fs::flow_graph<G>::impl_type> bg(g.impl(),meth?fs::mst_method::boruvka:fs::mst_method::kruskal); bg.update_routes(z);
    std::vector<long> deg(bg.basins_count(),0); for(auto&e:bg.edges()){deg[e.link[0]]++;deg[e.link[1]]++;} maxdeg=std::max(maxdeg,*std::max_element(deg.begin(),deg.end()));
    size_t nb=bg.basins_count(); std::vector<size_t> par(nb); for(size_t i=0;i<nb;++i)par[i]=i; std::function<size_t(size_t)> fd=[&](size_t x){return par[x]==x?x:par[x]=fd(par[x]);};
    bool ok=bg.tree().size()==nb-1; for(auto t:bg.tree()){ auto&e=bg.edges()[t]; size_t a=fd(e.link[0]),b=fd(e.link[1]); if(a==b)ok=false; par[a]=b; w[meth].push_back(e.pass_elevation);} std::sort(w[meth].begin(),w[meth].end()); if(!ok){++bad; std::printf("not spanning tree meth %d it %d (tree %zu, basins %zu)\n",meth,it,bg.tree().size(),nb);} }
  if(w[0]!=w[1]){ ++bad; std::printf("weights differ it %d\n",it);} 
  for(int var=0;var<4;++var){ fs::flow_graph<G> h(grid,{fs::single_flow_router(),fs::mst_sink_resolver(var/2?fs::mst_method::boruvka:fs::mst_method::kruskal,var%2?fs::mst_route_method::carve:fs::mst_route_method::basic)}); h.set_base_levels(bl); auto& out=h.update_routes(z); auto& rec=h.impl().receivers(); for(size_t i=0;i<nr*nc;++i){ size_t k=i,s=0; while(rec(k,0)!=k&&s<=nr*nc){ if(!(out.flat(rec(k,0))<out.flat(k))){++bad; s=nr*nc+5; break;} k=rec(k,0);++s;} if(k!=bl[0]||s>nr*nc){ ++bad; if(bad<5) std::printf("node %zu does not reach BL var %d it %d\n",i,var,it); break; } } }
 }
 std::printf("max basin degree %ld, bad %ld\n",maxdeg,bad); }
