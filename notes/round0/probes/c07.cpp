#include <algorithm>
#include <cmath>
#include <cstdio>
#include <map>
#include <vector>
#include "fastscapelib/grid/raster_grid.hpp"
#include "fastscapelib/grid/profile_grid.hpp"
namespace fs = fastscapelib;
using NS = fs::node_status;
static long nbad=0, nchk=0;
template<fs::raster_connect RC, class C>
void probe(size_t nr,size_t nc,double sy,double sx,bool H,bool V){
  using grid_t = fs::raster_grid<fs::xt_selector,RC,C>;
  NS lr = H?NS::looped:NS::fixed_value, tb = V?NS::looped:NS::core;
  fs::raster_boundary_status bs(std::array<NS,4>{lr,lr,tb,tb});
  grid_t g({nr,nc},{sy,sx},bs);
  std::vector<std::pair<int,int>> offs;
  for(int dr=-1;dr<=1;++dr)for(int dc=-1;dc<=1;++dc){ if(!dr&&!dc)continue; bool diag=dr&&dc; if(RC==fs::raster_connect::rook&&diag)continue; if(RC==fs::raster_connect::bishop&&!diag)continue; offs.push_back({dr,dc}); }
  for(size_t r=0;r<nr;++r)for(size_t c=0;c<nc;++c){
    std::vector<std::pair<size_t,double>> exp;
    for(auto [dr,dc]:offs){ long r2=(long)r+dr,c2=(long)c+dc; if(r2<0||r2>=(long)nr){ if(!V)continue; r2=(r2+nr)%nr;} if(c2<0||c2>=(long)nc){ if(!H)continue; c2=(c2+nc)%nc;} exp.push_back({size_t(r2)*nc+c2,std::sqrt((dr*sy)*(dr*sy)+(dc*sx)*(dc*sx))}); }
    std::sort(exp.begin(),exp.end());
    size_t i=r*nc+c; auto nb=g.neighbors(i); std::vector<std::pair<size_t,double>> got; for(auto&n:nb) got.push_back({n.idx,n.distance}); std::sort(got.begin(),got.end());
    auto idx=g.neighbors_indices(i); auto dist=g.neighbors_distances(i); auto rn=g.neighbors(r,c); auto ri=g.neighbors_indices(r,c);
    bool ok = got.size()==exp.size() && g.neighbors_count(i)==exp.size() && idx.size()==exp.size() && dist.size()==exp.size() && rn.size()==exp.size() && ri.size()==exp.size();
    if(ok) for(size_t k=0;k<exp.size();++k){ if(got[k].first!=exp[k].first || std::fabs(got[k].second-exp[k].second)>1e-12) ok=false; }
    if(ok) for(size_t k=0;k<nb.size();++k){ if(idx[k]!=nb[k].idx||dist[k]!=nb[k].distance||rn[k].flatten_idx!=nb[k].idx||rn[k].row*nc+rn[k].col!=nb[k].idx||ri[k].first*nc+ri[k].second!=nb[k].idx||nb[k].status!=g.nodes_status()(nb[k].idx)) ok=false; }
    ++nchk; if(!ok){ if(nbad<8){ std::printf("MISMATCH rc=%d shape %zux%zu sp(%g,%g) H%d V%d node(%zu,%zu): got",(int)RC,nr,nc,sy,sx,H,V,r,c); for(auto&p:got)std::printf(" (%zu,%.3f)",p.first,p.second); std::printf(" exp"); for(auto&p:exp)std::printf(" (%zu,%.3f)",p.first,p.second); std::printf(" count=%zu\n",(size_t)g.neighbors_count(i)); } ++nbad; }
  }
}
template<fs::raster_connect RC> void all(){
  for(size_t nr=2;nr<=5;++nr)for(size_t nc=2;nc<=5;++nc)for(int sp=0;sp<3;++sp)for(int H=0;H<2;++H)for(int V=0;V<2;++V){ double sy=sp==0?1:sp==1?1:3, sx=sp==0?1:sp==1?2:4;
    probe<RC,fs::neighbors_cache<fs::raster_neighbors<RC>::_n_neighbors_max>>(nr,nc,sy,sx,H,V);
    probe<RC,fs::neighbors_no_cache<fs::raster_neighbors<RC>::_n_neighbors_max>>(nr,nc,sy,sx,H,V); }
}
int main(){ all<fs::raster_connect::rook>(); all<fs::raster_connect::queen>(); all<fs::raster_connect::bishop>();
  // profile
  for(size_t n=2;n<=6;++n)for(int L=0;L<2;++L){ fs::profile_grid<> g(n,2.5,L?fs::profile_boundary_status(NS::looped):fs::profile_boundary_status(NS::fixed_value));
    for(size_t i=0;i<n;++i){ std::vector<size_t> exp; for(int d:{-1,1}){ long j=(long)i+d; if(j<0||j>=(long)n){ if(!L)continue; j=(j+n)%n;} exp.push_back(j);} std::sort(exp.begin(),exp.end()); auto nb=g.neighbors(i); std::vector<size_t> got; for(auto&x:nb){got.push_back(x.idx); if(x.distance!=2.5) got.push_back(999);} std::sort(got.begin(),got.end()); ++nchk; if(got!=exp||g.neighbors_count(i)!=exp.size()){ ++nbad; std::printf("PROFILE MISMATCH n=%zu L=%d i=%zu got",n,L,i); for(auto x:got)std::printf(" %zu",x); std::printf("\n"); } } }
  std::printf("checked %ld nodes, bad %ld\n",nchk,nbad); }
