#include <algorithm>
#include <cmath>
#include <cstdio>
#include <map>
#include <random>
#include <set>
#include <vector>
#include <csignal>
#include <unistd.h>
#include "xtensor/xarray.hpp"
#include "fastscapelib/flow/flow_graph.hpp"
#include "fastscapelib/flow/flow_router.hpp"
#include "fastscapelib/flow/sink_resolver.hpp"
#include "fastscapelib/flow/basin_graph.hpp"
#include "fastscapelib/grid/raster_grid.hpp"
namespace fs = fastscapelib;
static long cnt[32]={0}, badc[32]={0};
static void rep(int p,const char*msg,int it,int var){ if(badc[p]<4) std::printf("C%02d BAD %s case %d variant %d\n",p,msg,it,var); ++badc[p]; }
static void on_alarm(int){ std::printf("WATCHDOG\n"); fflush(stdout); _exit(4);} 
template<class G> void run(int seed,int ncases){
  std::mt19937 rng(seed);
  for(int it=0;it<ncases;++it){
    size_t nr=3+rng()%4, nc=3+rng()%4, n=nr*nc; bool H=rng()%4==0;
    fs::raster_boundary_status bs(std::array<fs::node_status,4>{H?fs::node_status::looped:fs::node_status::core,H?fs::node_status::looped:fs::node_status::core,fs::node_status::core,fs::node_status::core});
    G grid({nr,nc},{1.0,2.0},bs);
    xt::xarray<double> z=xt::zeros<double>({nr,nc}); xt::xarray<bool> m=xt::zeros<bool>({nr,nc});
    int lev=2+rng()%5; for(size_t i=0;i<n;++i){ z.flat(i)=double(rng()%lev); m.flat(i)=(rng()%8==0);} 
    std::vector<size_t> bl; for(size_t i=0;i<n;++i) if(!m.flat(i)&&rng()%9==0) bl.push_back(i); if(bl.empty()){size_t k=rng()%n;m.flat(k)=false;bl.push_back(k);} 
    std::set<size_t> BL(bl.begin(),bl.end());
    for(int var=0;var<8;++var){
      std::unique_ptr<fs::flow_graph<G>> g; bool single=true;
      auto mm=[&](int v){return (v/2)?fs::mst_method::boruvka:fs::mst_method::kruskal;}; auto rr=[&](int v){return (v%2)?fs::mst_route_method::carve:fs::mst_route_method::basic;};
      if(var==0) g.reset(new fs::flow_graph<G>(grid,{fs::single_flow_router()}));
      else if(var<=4) g.reset(new fs::flow_graph<G>(grid,{fs::single_flow_router(),fs::mst_sink_resolver(mm(var-1),rr(var-1))}));
      else if(var==5) g.reset(new fs::flow_graph<G>(grid,{fs::pflood_sink_resolver(),fs::single_flow_router()}));
      else if(var==6){ g.reset(new fs::flow_graph<G>(grid,{fs::multi_flow_router(1.0)})); single=false;}
      else { g.reset(new fs::flow_graph<G>(grid,{fs::pflood_sink_resolver(),fs::multi_flow_router(0.0)})); single=false;}
      g->set_mask(m); g->set_base_levels(bl);
      alarm(5); const auto& out=g->update_routes(z); alarm(0);
      auto& I=g->impl(); auto& rec=I.receivers(); auto& nrec=I.receivers_count(); auto& don=I.donors(); auto& ndon=I.donors_count(); auto& w=I.receivers_weight();
      // C06 donors inverse
      { ++cnt[6]; std::multiset<std::pair<size_t,size_t>> a,b; bool ok=true;
        for(size_t j=0;j<n;++j){ if(nrec(j)<1||nrec(j)>rec.shape()[1]) ok=false; for(size_t r=0;r<nrec(j);++r) if(rec(j,r)!=j) a.insert({rec(j,r),j}); }
        for(size_t i=0;i<n;++i){ if(ndon(i)>don.shape()[1]) ok=false; for(size_t k=0;k<ndon(i);++k) if(don(i,k)!=i) b.insert({i,don(i,k)}); }
        if(!ok||a!=b) rep(6,"donors-inverse",it,var);
        // dfs
        auto& dfs=I.dfs_indices(); std::vector<long> pos(n,-1); for(size_t k=0;k<n;++k){ if(dfs(k)>=n||pos[dfs(k)]!=-1){ok=false;break;} pos[dfs(k)]=k; }
        if(ok) for(size_t j=0;j<n;++j) for(size_t r=0;r<nrec(j);++r) if(rec(j,r)!=j && pos[rec(j,r)]>=pos[j]) ok=false;
        if(!ok) rep(6,"dfs-order",it,var);
        auto& bfs=I.bfs_indices(); auto& lv=I.bfs_levels(); std::vector<long> level(n,-1); bool ok2=true; std::vector<int> seen(n,0);
        if(lv.size()<2||lv(0)!=0||lv(lv.size()-1)!=n) ok2=false; else { for(size_t L=0;L+1<lv.size();++L){ if(lv(L+1)<=lv(L)){ok2=false;break;} for(size_t k=lv(L);k<lv(L+1);++k){ if(bfs(k)>=n||seen[bfs(k)]){ok2=false;break;} seen[bfs(k)]=1; level[bfs(k)]=L; } } }
        if(ok2) for(size_t j=0;j<n;++j) for(size_t r=0;r<nrec(j);++r) if(rec(j,r)!=j && level[rec(j,r)]>=level[j]) ok2=false;
        if(!ok2) rep(6,"bfs-levels",it,var);
      }
      // C03 exact integer accumulate
      { ++cnt[3]; xt::xarray<double> src=xt::zeros<double>({nr,nc}); for(size_t i=0;i<n;++i) src.flat(i)=double(rng()%5);
        auto acc=g->accumulate(src); bool ok=true; double area=2.0;
        // local balance (exact for single flow; tolerance for multi)
        std::vector<double> exp(n,0.0); for(size_t i=0;i<n;++i) exp[i]=area*src.flat(i);
        auto& dfs=I.dfs_indices(); for(long k=n-1;k>=0;--k){ size_t j=dfs(k); for(size_t r=0;r<nrec(j);++r) if(rec(j,r)!=j) exp[rec(j,r)]+=exp[j]*w(j,r); }
        double tot=0,term=0; for(size_t i=0;i<n;++i){ tot+=area*src.flat(i); bool terminal = nrec(i)==1&&rec(i,0)==i; if(terminal) term+=acc.flat(i); if(single? acc.flat(i)!=exp[i] : std::fabs(acc.flat(i)-exp[i])>1e-9) ok=false; }
        if(std::fabs(tot-term)>1e-9) ok=false; auto acc2=g->accumulate(1.0); xt::xarray<double> acc3=xt::zeros<double>({nr,nc}); g->accumulate(acc3,1.0); if(!(acc2==acc3)) ok=false;
        if(!ok) rep(3,"accumulate",it,var); }
      if(single){ // C19
        ++cnt[19]; auto bas=g->basins(); bool ok=true; std::set<size_t> labels; size_t nout=0; auto& dfs=I.dfs_indices(); long last=-1;
        for(size_t k=0;k<n;++k){ size_t i=dfs(k); if(m.flat(i)){ if(bas.flat(i)!=std::numeric_limits<size_t>::max()) ok=false; continue;} if(rec(i,0)==i){ ++nout; if((long)bas.flat(i)!=last+1) ok=false; last=bas.flat(i);} if(bas.flat(i)!=bas.flat(rec(i,0))) ok=false; labels.insert(bas.flat(i)); }
        if(labels.size()!=nout||I.outlets().size()!=nout) ok=false; std::set<size_t> pits; for(auto o:I.outlets()) if(!BL.count(o)) pits.insert(o); auto& P=const_cast<typename fs::flow_graph<G>::impl_type&>(I).pits(); if(std::set<size_t>(P.begin(),P.end())!=pits) ok=false;
        if(!ok) rep(19,"basins",it,var); }
      if(var==0){ // C15 on unresolved single graph
        for(int meth=0;meth<2;++meth){ ++cnt[15]; g->basins(); fs::basin_graph<typename fs::flow_graph<G>::impl_type> bg(I, meth?fs::mst_method::boruvka:fs::mst_method::kruskal);
          if(const_cast<typename fs::flow_graph<G>::impl_type&>(I).pits().empty()) continue;
          alarm(5); bg.update_routes(z); alarm(0); auto bas=I.basins(); size_t nb=bg.basins_count(); auto& E=bg.edges(); auto& T=bg.tree(); bool ok=true;
          // expected lowest pass per adjacent pair (inner-any)
          std::map<std::pair<size_t,size_t>,double> low; auto inner=[&](size_t b){return !BL.count(bg.outlets()[b]);};
          for(size_t i=0;i<n;++i){ if(m.flat(i))continue; for(auto nn:grid.neighbors(i)){ if(m.flat(nn.idx))continue; size_t a=bas(i),b=bas(nn.idx); if(a==b)continue; if(!inner(a)&&!inner(b))continue; auto key=std::make_pair(std::min(a,b),std::max(a,b)); double pe=std::max(z.flat(i),z.flat(nn.idx)); auto itx=low.find(key); if(itx==low.end()||pe<itx->second) low[key]=pe; } }
          std::map<std::pair<size_t,size_t>,int> seenE; size_t nvirtual=0;
          for(auto&e:E){ if(e.pass[0]==size_t(-1)||e.pass[1]==size_t(-1)){ ++nvirtual; continue;} auto key=std::make_pair(std::min(e.link[0],e.link[1]),std::max(e.link[0],e.link[1])); seenE[key]++; auto itx=low.find(key); if(itx==low.end()||itx->second!=e.pass_elevation) ok=false; if(std::max(z.flat(e.pass[0]),z.flat(e.pass[1]))!=e.pass_elevation) ok=false; }
          for(auto&kv:seenE) if(kv.second!=1) ok=false; if(seenE.size()!=low.size()) ok=false;
          if(!ok) rep(15,"edges",it,meth);
          // tree: acyclic & MST weight equals own Kruskal over E (components count)
          std::vector<size_t> par(nb); for(size_t i=0;i<nb;++i)par[i]=i; std::function<size_t(size_t)> fd=[&](size_t x){return par[x]==x?x:par[x]=fd(par[x]);};
          bool ok2=true; std::vector<double> tw; for(auto t:T){ auto&e=E[t]; size_t a=fd(e.link[0]),b=fd(e.link[1]); if(a==b) ok2=false; par[a]=b; tw.push_back(e.pass_elevation);} 
          std::vector<size_t> ord(E.size()); for(size_t i=0;i<E.size();++i)ord[i]=i; std::sort(ord.begin(),ord.end(),[&](size_t a,size_t b){return E[a].pass_elevation<E[b].pass_elevation;}); for(size_t i=0;i<nb;++i)par[i]=i; std::vector<double> kw; for(auto t:ord){ size_t a=fd(E[t].link[0]),b=fd(E[t].link[1]); if(a!=b){par[a]=b;kw.push_back(E[t].pass_elevation);} }
          std::sort(tw.begin(),tw.end()); std::sort(kw.begin(),kw.end()); if(tw!=kw) ok2=false; if(!ok2) rep(15,"tree-not-mst",it,meth);
        } }
    }
  }
}
int main(int argc,char**argv){ std::signal(SIGALRM,on_alarm); run<fs::raster_grid<fs::xt_selector,fs::raster_connect::queen>>(atoi(argv[1]),atoi(argv[2])); run<fs::raster_grid<fs::xt_selector,fs::raster_connect::rook>>(atoi(argv[1])+1,atoi(argv[2]));
  for(int p:{3,6,15,19}) std::printf("C%02d checks %ld bad %ld\n",p,cnt[p],badc[p]); }
