#include <cstdio>
#include <string>
#include <vector>
#include "xtensor/xarray.hpp"
#include "fastscapelib/flow/flow_graph.hpp"
#include "fastscapelib/flow/flow_router.hpp"
#include "fastscapelib/flow/sink_resolver.hpp"
#include "fastscapelib/flow/flow_snapshot.hpp"
#include "fastscapelib/grid/raster_grid.hpp"
namespace fs = fastscapelib;
enum Kind { SINGLE, SINGLEPAR, MULTI, PFLOOD, MST, GSNAP, ESNAP, BSNAP, NK };
struct Desc { Kind k; std::string name; };
namespace fastscapelib {
  template <class FG, class OPs>
  flow_operator_sequence<FG> make_flow_operator_sequence(OPs&& ops){
    flow_operator_sequence<FG> seq;
    for (const auto& d : ops){
      switch(d.k){
        case SINGLE: seq.add_operator(std::make_shared<single_flow_router>()); break;
        case SINGLEPAR: seq.add_operator(std::make_shared<single_flow_router>(2)); break;
        case MULTI: seq.add_operator(std::make_shared<multi_flow_router>(1.0)); break;
        case PFLOOD: seq.add_operator(std::make_shared<pflood_sink_resolver>()); break;
        case MST: seq.add_operator(std::make_shared<mst_sink_resolver>()); break;
        case GSNAP: seq.add_operator(std::make_shared<flow_snapshot>(d.name,true,false)); break;
        case ESNAP: seq.add_operator(std::make_shared<flow_snapshot>(d.name,false,true)); break;
        case BSNAP: seq.add_operator(std::make_shared<flow_snapshot>(d.name,true,true)); break;
        default: break; }
    }
    return seq;
  }
}
int main(){
  using grid_t = fs::raster_grid<>; using fg_t = fs::flow_graph<grid_t>; using impl_t = fg_t::impl_type;
  grid_t grid({3,3},{1.,1.},fs::node_status::fixed_value);
  long n=0,bad=0,valid=0;
  for(int len=1;len<=4;++len){ long tot=1; for(int i=0;i<len;++i) tot*=NK;
    for(long code=0;code<tot;++code){ std::vector<Desc> seq; long c=code; for(int i=0;i<len;++i){ seq.push_back({Kind(c%NK),"s"+std::to_string(i)}); c/=NK; }
      // oracle
      int dir=0; /*0 undef 1 single 2 multi*/ bool ok=true, gupd=false, eupd=false, allsingle=true; std::vector<std::string> gk,ek;
      for(auto&d:seq){ if(d.k==GSNAP||d.k==BSNAP){ if(dir==0){ok=false;break;} gk.push_back(d.name);} if(d.k==ESNAP||d.k==BSNAP) ek.push_back(d.name);
        if(d.k==MST && dir!=1){ok=false;break;}
        if(d.k==PFLOOD||d.k==MST) eupd=true;
        if(d.k==SINGLE||d.k==SINGLEPAR||d.k==MST){gupd=true;dir=1;} if(d.k==MULTI){gupd=true;dir=2;allsingle=false;} }
      if(ok && (!gupd||dir==0)) ok=false;
      bool threw=false; ++n;
      try{ fg_t g(grid, fs::make_flow_operator_sequence<impl_t>(seq));
        if(ok){ ++valid; bool good = g.single_flow()==(dir==1) && g.graph_snapshot_keys()==gk && g.elevation_snapshot_keys()==ek && g.operators().size()==seq.size() && (g.impl().receivers().shape()[1]==1)==allsingle;
          xt::xarray<double> z={{3,3,3},{3,1,3},{3,3,0}}; const auto& out=g.update_routes(z); good = good && ((&out==&z)==!eupd);
          if(!good){ ++bad; if(bad<10){ std::printf("ATTR MISMATCH:"); for(auto&d:seq)std::printf(" %d",d.k); std::printf("\n"); } } }
      } catch(std::invalid_argument&){ threw=true; }
      if(threw==ok){ ++bad; if(bad<10){ std::printf("ACCEPTANCE MISMATCH (threw=%d):",threw); for(auto&d:seq)std::printf(" %d",d.k); std::printf("\n"); } }
    } }
  std::printf("sequences %ld valid %ld bad %ld\n",n,valid,bad); }
