#include <algorithm>
#include <cstdio>
#include <map>
#include <vector>
#include "fastscapelib/grid/raster_grid.hpp"
#include "fastscapelib/grid/profile_grid.hpp"
#include "fastscapelib/flow/flow_graph.hpp"
#include "fastscapelib/flow/flow_router.hpp"
namespace fs = fastscapelib;
using NS = fs::node_status;
static int prio(NS s){ switch(s){case NS::core:return 0;case NS::looped:return 1;case NS::fixed_gradient:return 2;default:return 3;} }
static long nchk=0,nbad=0;
static void bad(const char*what,int l,int r,int t,int b,size_t nr,size_t nc){ if(nbad<10) std::printf("BAD %s borders l%d r%d t%d b%d shape %zux%zu\n",what,l,r,t,b,nr,nc); ++nbad; }
int main(){
  using grid_t = fs::raster_grid<fs::xt_selector, fs::raster_connect::rook>;
  NS S[4]={NS::core,NS::fixed_value,NS::fixed_gradient,NS::looped};
  for(size_t nr=2;nr<=4;++nr)for(size_t nc=2;nc<=4;++nc)
  for(int l=0;l<4;++l)for(int r=0;r<4;++r)for(int t=0;t<4;++t)for(int b=0;b<4;++b){
    bool sym = ((S[l]==NS::looped)==(S[r]==NS::looped)) && ((S[t]==NS::looped)==(S[b]==NS::looped));
    // override variants: none, each node x each status (single override), one out-of-range
    for(int ov=-1; ov<(int)(nr*nc*4)+1; ++ov){
      std::map<std::pair<size_t,size_t>,NS> m; bool oor=false; size_t orow=0,ocol=0; NS ost=NS::core;
      if(ov>=0 && ov<(int)(nr*nc*4)){ orow=(ov/4)/nc; ocol=(ov/4)%nc; ost=S[ov%4]; m[{orow,ocol}]=ost; }
      else if(ov==(int)(nr*nc*4)){ m[{nr,0}]=NS::fixed_value; oor=true; }
      // expected
      std::vector<NS> e(nr*nc,NS::core);
      for(size_t i=0;i<nr;++i){ e[i*nc]=S[l]; } for(size_t i=0;i<nr;++i){ e[i*nc+nc-1]=S[r]; }
      for(size_t j=0;j<nc;++j){ e[j]=S[t]; } for(size_t j=0;j<nc;++j){ e[(nr-1)*nc+j]=S[b]; }
      auto mx=[&](NS a,NS b2){return prio(a)>=prio(b2)?a:b2;};
      e[0]=mx(S[t],S[l]); e[nc-1]=mx(S[t],S[r]); e[(nr-1)*nc]=mx(S[b],S[l]); e[(nr-1)*nc+nc-1]=mx(S[b],S[r]);
      bool expect_err = !sym;
      if(!expect_err && ov>=0){ if(oor) expect_err=true; else if(ost==NS::looped) expect_err=true; else if(e[orow*nc+ocol]==NS::looped) expect_err=true; else e[orow*nc+ocol]=ost; }
      bool got_err=false; std::vector<NS> got;
      try{ fs::raster_boundary_status bs(std::array<NS,4>{S[l],S[r],S[t],S[b]}); grid_t g({nr,nc},{1.,1.},bs,m);
        for(size_t i=0;i<nr*nc;++i) got.push_back(g.nodes_status(i));
        if(!expect_err){ // filtered iteration
          for(int f=0;f<4;++f){ std::vector<size_t> ex; for(size_t i=0;i<nr*nc;++i) if(e[i]==S[f]) ex.push_back(i);
            std::vector<size_t> fw; auto ni=g.nodes_indices(S[f]); for(auto i:ni) fw.push_back(i);
            std::vector<size_t> rv; for(auto it=ni.rbegin(); it!=ni.rend(); ++it) rv.push_back(*it);
            std::vector<size_t> exr(ex.rbegin(),ex.rend()); ++nchk; if(fw!=ex) bad("fwd-iter",l,r,t,b,nr,nc); if(rv!=exr) { bad("rev-iter",l,r,t,b,nr,nc); if(nbad<10){ std::printf("  filter %d exp",f); for(auto x:exr)std::printf(" %zu",x); std::printf(" got"); for(auto x:rv)std::printf(" %zu",x); std::printf("\n"); } } }
          { std::vector<size_t> all; for(auto i:g.nodes_indices()) all.push_back(i); std::vector<size_t> rall; auto ni=g.nodes_indices(); for(auto it=ni.rbegin(); it!=ni.rend(); ++it) rall.push_back(*it); bool ok=all.size()==nr*nc&&rall.size()==nr*nc; for(size_t i=0;ok&&i<nr*nc;++i) ok = all[i]==i && rall[i]==nr*nc-1-i; if(!ok) bad("unfiltered-iter",l,r,t,b,nr,nc); }
          if(ov==-1){ fs::flow_graph<grid_t> fg(g,{fs::single_flow_router()}); auto bl=fg.base_levels(); std::sort(bl.begin(),bl.end()); std::vector<size_t> ex; for(size_t i=0;i<nr*nc;++i) if(e[i]==NS::fixed_value) ex.push_back(i); if(bl!=ex) bad("default-base-levels",l,r,t,b,nr,nc); }
        }
      } catch(std::exception&){ got_err=true; }
      ++nchk;
      if(got_err!=expect_err) bad(expect_err?"expected-error-missing":"unexpected-error",l,r,t,b,nr,nc);
      else if(!got_err && got!=e) bad("status-array",l,r,t,b,nr,nc);
    }
  }
  // profile
  for(size_t n=2;n<=5;++n)for(int l=0;l<4;++l)for(int r=0;r<4;++r){ bool sym=(S[l]==NS::looped)==(S[r]==NS::looped); bool err=false; try{ fs::profile_grid<> g(n,1.0,fs::profile_boundary_status(S[l],S[r])); std::vector<NS> e(n,NS::core); e[0]=S[l]; e[n-1]=S[r]; for(size_t i=0;i<n;++i) if(g.nodes_status(i)!=e[i]) { bad("profile-status",l,r,0,0,n,1); break;} } catch(std::exception&){err=true;} ++nchk; if(err==sym) bad("profile-accept",l,r,0,0,n,1); }
  std::printf("checked %ld, bad %ld\n",nchk,nbad); }
