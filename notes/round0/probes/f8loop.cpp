#include <cstdio>
#include "xtensor/xarray.hpp"
#include "fastscapelib/flow/flow_graph.hpp"
#include "fastscapelib/flow/flow_router.hpp"
#include "fastscapelib/grid/raster_grid.hpp"
namespace fs = fastscapelib;
int main(){ using grid_t = fs::raster_grid<>; grid_t grid({3,3},{1.,1.},fs::node_status::fixed_value);
  xt::xarray<double> z={{3,3,3},{3,1,3},{3,3,0}};
  for(int i=0;i<100000;++i){ { fs::flow_graph<grid_t> g(grid,{fs::single_flow_router(2)}); g.update_routes(z); } if(i%100==0){ std::fprintf(stderr,"iter %d\n",i);} }
  std::fprintf(stderr,"done\n"); }
