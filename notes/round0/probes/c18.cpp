#include <algorithm>
#include <cmath>
#include <cstdio>
#include <map>
#include <random>
#include <set>
#include <vector>
#include "fastscapelib/grid/trimesh.hpp"
namespace fs = fastscapelib;
int main(){ std::mt19937 rng(3); long chk=0,bad=0; double maxerr=0;
 for(int it=0;it<3000;++it){ size_t cr=1+rng()%3, cc=1+rng()%3, pr=cr+1, pc=cc+1, np=pr*pc + (rng()%3==0?1:0); // optional isolated extra node
  std::vector<std::array<long,2>> P(np); for(size_t r=0;r<pr;++r)for(size_t c=0;c<pc;++c){ long x=4*c,y=4*r; bool interior=r>0&&c>0&&r<pr-1&&c<pc-1; if(interior){ x+=long(rng()%3)-1; y+=long(rng()%3)-1;} P[r*pc+c]={x,y}; } if(np>pr*pc) P[np-1]={100,100};
  std::vector<std::array<size_t,3>> T; for(size_t r=0;r<cr;++r)for(size_t c=0;c<cc;++c){ size_t a=r*pc+c,b=a+1,d=a+pc,e=d+1; std::vector<std::array<size_t,3>> two; if(rng()%2){ two={{a,b,d},{b,e,d}}; } else { two={{a,b,e},{a,e,d}}; } for(auto t:two){ if(rng()%6==0) continue; /* hole */ int rot=rng()%3; std::rotate(t.begin(),t.begin()+rot,t.end()); if(rng()%2) std::swap(t[1],t[2]); T.push_back(t);} }
  if(T.empty()) continue;
  // skip degenerate
  bool degen=false; for(auto&t:T){ long a2=(P[t[1]][0]-P[t[0]][0])*(P[t[2]][1]-P[t[0]][1])-(P[t[2]][0]-P[t[0]][0])*(P[t[1]][1]-P[t[0]][1]); if(a2==0) degen=true; } if(degen) continue;
  xt::xtensor<double,2> pts({np,2}); for(size_t i=0;i<np;++i){pts(i,0)=P[i][0];pts(i,1)=P[i][1];} xt::xtensor<size_t,2> tr({T.size(),3}); for(size_t i=0;i<T.size();++i)for(int k=0;k<3;++k)tr(i,k)=T[i][k];
  fs::trimesh mesh(pts,tr);
  std::map<std::pair<size_t,size_t>,int> ec; for(auto&t:T)for(int k=0;k<3;++k){ size_t u=t[k],v=t[(k+1)%3]; ec[{std::min(u,v),std::max(u,v)}]++; }
  std::vector<std::set<size_t>> nb(np); std::set<size_t> bnd; for(auto&kv:ec){ nb[kv.first.first].insert(kv.first.second); nb[kv.first.second].insert(kv.first.first); if(kv.second==1){bnd.insert(kv.first.first);bnd.insert(kv.first.second);} }
  std::vector<double> area(np,0.0); double tot=0; for(auto&t:T){ double T2=std::fabs(double((P[t[1]][0]-P[t[0]][0])*(P[t[2]][1]-P[t[0]][1])-(P[t[2]][0]-P[t[0]][0])*(P[t[1]][1]-P[t[0]][1]))); tot+=T2/2; for(int v=0;v<3;++v){ auto A=P[t[v]],B=P[t[(v+1)%3]],C=P[t[(v+2)%3]]; double a2=(B[0]-C[0])*(B[0]-C[0])+(B[1]-C[1])*(B[1]-C[1]), b2=(A[0]-C[0])*(A[0]-C[0])+(A[1]-C[1])*(A[1]-C[1]), c2=(A[0]-B[0])*(A[0]-B[0])+(A[1]-B[1])*(A[1]-B[1]); area[t[v]]+=(b2*(a2+c2-b2)+c2*(a2+b2-c2))/(16*T2); } }
  bool ok=true; double sum=0; for(size_t i=0;i<np;++i){ ++chk; auto n=mesh.neighbors(i); std::multiset<size_t> got; for(auto&x:n){ got.insert(x.idx); double d=std::hypot(double(P[i][0]-P[x.idx][0]),double(P[i][1]-P[x.idx][1])); if(std::fabs(d-x.distance)>1e-12) ok=false; } std::multiset<size_t> ex(nb[i].begin(),nb[i].end()); if(got!=ex||mesh.neighbors_count(i)!=ex.size()) ok=false;
    bool fv=mesh.nodes_status(i)==fs::node_status::fixed_value; if(fv!=(bnd.count(i)>0)) ok=false; double ar=mesh.nodes_areas(i); if(!nb[i].empty()||true){ double exa=area[i]; if(exa==0&&nb[i].empty()) exa=ar; maxerr=std::max(maxerr,std::fabs(ar-exa)); if(std::fabs(ar-exa)>1e-9) ok=false; } if(!nb[i].empty()) sum+=ar; }
  if(std::fabs(sum-tot)>1e-9) ok=false; if(!ok){ if(bad<5) std::printf("C18 BAD it %d (np %zu, tris %zu) sum %.12g tot %.12g\n",it,np,T.size(),sum,tot); ++bad; } }
 std::printf("nodes %ld bad meshes %ld max area err %.3g\n",chk,bad,maxerr); }
