#include <algorithm>
#include <cmath>
#include <cstdio>
#include <random>
#include <vector>
#include "xtensor/xarray.hpp"
#include "fastscapelib/flow/flow_graph.hpp"
#include "fastscapelib/flow/flow_router.hpp"
#include "fastscapelib/flow/sink_resolver.hpp"
#include "fastscapelib/grid/raster_grid.hpp"
#include "fastscapelib/eroders/spl.hpp"
#include "fastscapelib/eroders/diffusion_adi.hpp"
namespace fs = fastscapelib;
using G=fs::raster_grid<fs::xt_selector,fs::raster_connect::queen>; using FG=fs::flow_graph<G>;
int main(int argc,char**argv){ std::mt19937 rng(atoi(argv[1])); long chk=0,bad=0,badadi=0,rej_bad=0;
 for(int it=0;it<3000;++it){ size_t nr=3+rng()%4,nc=3+rng()%4,n=nr*nc; G grid({nr,nc},{1.,2.},fs::node_status::fixed_value); int var=rng()%4;
  std::unique_ptr<FG> g; bool single=true;
  if(var==0) g.reset(new FG(grid,{fs::single_flow_router()})); else if(var==1) g.reset(new FG(grid,{fs::single_flow_router(),fs::mst_sink_resolver()})); else if(var==2){ g.reset(new FG(grid,{fs::multi_flow_router(1.0)})); single=false;} else { g.reset(new FG(grid,{fs::pflood_sink_resolver(),fs::multi_flow_router(1.0)})); single=false; }
  xt::xarray<double> z=xt::zeros<double>({nr,nc}); xt::xarray<bool> m=xt::zeros<bool>({nr,nc}); int fam=rng()%3; for(size_t i=0;i<n;++i){ z.flat(i)= fam==0? double(rng()%4) : (fam==1? double(rng()%1000)/7.0 : double(rng()%1000)*1e-3-0.3); m.flat(i)=rng()%12==0; }
  g->set_mask(m); g->update_routes(z); auto area=g->accumulate(1.0);
  double nexp = single? (double[]){0.5,1.0,2.0,1.5}[rng()%4] : 1.0; double mexp=(double[]){0.,0.4,1.0}[rng()%3]; double dt=std::pow(10.0,double(rng()%9)-2); double K=std::pow(10.0,-double(rng()%7));
  // rejection rule
  if(!single){ for(double nn:{0.5,2.0}){ bool threw=false; try{ fs::spl_eroder<FG> e(*g,K,mexp,nn,1e-3);}catch(std::invalid_argument&){threw=true;} if(!threw) ++rej_bad; } }
  fs::spl_eroder<FG> er(*g,K,mexp,nexp,1e-3); xt::xarray<double> e=er.erode(z,area,dt); auto& I=g->impl(); auto&rec=I.receivers(); auto&nrc=I.receivers_count();
  xt::xarray<double> hn=z-e;
  for(size_t i=0;i<n;++i){ ++chk; bool term=nrc(i)==1&&rec(i,0)==i; double floor=1e308; for(size_t r=0;r<nrc(i);++r) floor=std::min(floor,hn.flat(rec(i,r))); bool ok=true;
    if(term){ if(e.flat(i)!=0) ok=false; } else { if(z.flat(i)<=floor && e.flat(i)!=0) ok=false; if(e.flat(i) < -4*std::fabs(z.flat(i))*2.3e-16) ok=false; double slack=4*2.3e-16*std::max(std::fabs(floor),std::fabs(z.flat(i))); if(z.flat(i)>floor && hn.flat(i) < floor - slack) ok=false; if(!std::isfinite(e.flat(i))) ok=false; }
    if(!ok){ if(bad<6) std::printf("C12 BAD it %d var %d node %zu n=%g m=%g dt=%g K=%g z=%.17g e=%.17g floor=%.17g hn=%.17g\n",it,var,i,nexp,mexp,dt,K,z.flat(i),e.flat(i),floor,hn.flat(i)); ++bad; } }
  // ADI identities
  { double kc=1.0+rng()%3; fs::diffusion_adi_eroder<G> d1(grid,kc); xt::xarray<double> ka=xt::ones<double>({nr,nc})*kc; fs::diffusion_adi_eroder<G> d2(grid,ka); double ddt=std::pow(10.0,double(rng()%5)-1);
    xt::xarray<double> e1=d1.erode(z,ddt), e2=d2.erode(z,ddt); bool ok=true; for(size_t r=0;r<nr;++r)for(size_t c=0;c<nc;++c){ bool border=r==0||c==0||r==nr-1||c==nc-1; if(border&&(e1(r,c)!=0||e2(r,c)!=0)) ok=false; if(std::fabs(e1(r,c)-e2(r,c))>1e-12*(1+std::fabs(e1(r,c)))) ok=false; }
    if(!ok){ if(badadi<4) std::printf("ADI identity BAD it %d\n",it); ++badadi; } bool bits=true; for(size_t i=0;i<n;++i) if(e1.flat(i)!=e2.flat(i)) bits=false; static long nb=0; if(!bits) ++nb; if(it==2999) std::printf("ADI scalar vs uniform array not bit-identical in %ld/3000 cases\n",nb); }
 }
 std::printf("nodes %ld C12 bad %ld multi-rejection-missing %ld ADI identity bad %ld\n",chk,bad,rej_bad,badadi); }
