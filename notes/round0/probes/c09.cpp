#include <algorithm>
#include <cstdio>
#include <cstring>
#include <random>
#include <vector>
#include "xtensor/xarray.hpp"
#include "fastscapelib/flow/flow_graph.hpp"
#include "fastscapelib/flow/flow_router.hpp"
#include "fastscapelib/flow/sink_resolver.hpp"
#include "fastscapelib/flow/flow_snapshot.hpp"
#include "fastscapelib/grid/raster_grid.hpp"
namespace fs = fastscapelib;
using G=fs::raster_grid<fs::xt_selector,fs::raster_connect::queen>; using FG=fs::flow_graph<G>;
static std::unique_ptr<FG> mk(G& grid,int var,std::shared_ptr<fs::multi_flow_router> mr){
  auto mm=[&](int v){return (v/2)?fs::mst_method::boruvka:fs::mst_method::kruskal;}; auto rr=[&](int v){return (v%2)?fs::mst_route_method::carve:fs::mst_route_method::basic;};
  if(var<4) return std::unique_ptr<FG>(new FG(grid,{fs::single_flow_router(),fs::mst_sink_resolver(mm(var),rr(var))}));
  if(var==4) return std::unique_ptr<FG>(new FG(grid,{fs::pflood_sink_resolver(),fs::single_flow_router()}));
  if(var==5) return std::unique_ptr<FG>(new FG(grid,{fs::single_flow_router(),fs::flow_snapshot("a"),fs::mst_sink_resolver(),fs::flow_snapshot("b",true,true),mr}));
  return std::unique_ptr<FG>(new FG(grid,{fs::pflood_sink_resolver(),mr})); }
template<class A,class B> static bool eq(const A&a,const B&b){ return a.size()==b.size() && !std::memcmp(a.data(),b.data(),a.size()*sizeof(typename A::value_type)); }
static bool same(FG&a,FG&b,const xt::xarray<double>&oa,const xt::xarray<double>&ob){ auto&x=a.impl();auto&y=b.impl(); bool ok=eq(oa,ob)&&eq(x.receivers_count(),y.receivers_count())&&eq(x.dfs_indices(),y.dfs_indices())&&eq(x.bfs_indices(),y.bfs_indices())&&x.bfs_levels()==y.bfs_levels();
  size_t n=x.size(); for(size_t i=0;ok&&i<n;++i) for(size_t r=0;r<x.receivers_count()(i);++r) if(x.receivers()(i,r)!=y.receivers()(i,r)||std::memcmp(&x.receivers_weight()(i,r),&y.receivers_weight()(i,r),8)||std::memcmp(&x.receivers_distance()(i,r),&y.receivers_distance()(i,r),8)) ok=false;
  auto aa=a.accumulate(1.0), bb=b.accumulate(1.0); return ok&&eq(aa,bb); }
int main(int argc,char**argv){ std::mt19937 rng(atoi(argv[1])); long chk=0,bad=0,badsnap=0,modified=0;
 for(int it=0;it<1500;++it){ size_t nr=3+rng()%4,nc=3+rng()%4,n=nr*nc; G grid({nr,nc},{1.,1.},fs::node_status::fixed_value); int var=rng()%7;
  auto mr=std::make_shared<fs::multi_flow_router>(1.0); auto used=mk(grid,var,mr);
  for(int step=0;step<6;++step){ xt::xarray<double> z=xt::zeros<double>({nr,nc}); xt::xarray<bool> m=xt::zeros<bool>({nr,nc}); int lev=2+rng()%3; for(size_t i=0;i<n;++i){z.flat(i)=double(rng()%lev); m.flat(i)=rng()%10==0;}
   std::vector<size_t> bl; for(size_t i=0;i<n;++i) if(!m.flat(i)&&rng()%6==0) bl.push_back(i); if(bl.empty()){size_t q=rng()%n;m.flat(q)=false;bl.push_back(q);} 
   // every unmasked component must hold a base level to stay in the domain that terminates on the patched tree anyway
   std::shuffle(bl.begin(),bl.end(),rng); double p=(double[]){0.,1.,2.}[rng()%3]; mr->m_slope_exp=p;
   used->set_mask(m); used->set_base_levels(bl); xt::xarray<double> zc=z; xt::xarray<double> ou=used->update_routes(z); if(!eq(z,zc)) ++modified;
   auto mr2=std::make_shared<fs::multi_flow_router>(p); auto fresh=mk(grid,var,mr2); std::vector<size_t> bls(bl); std::sort(bls.begin(),bls.end()); fresh->set_mask(m); fresh->set_base_levels(bls); xt::xarray<double> of=fresh->update_routes(z);
   ++chk; if(!same(*used,*fresh,ou,of)){ if(bad<5) std::printf("C09 DIFF it %d step %d var %d\n",it,step,var); ++bad; }
   if(var==5){ // snapshot a == prefix [single]; compare receivers & donors bags & basins via prefix graph
     FG pre(grid,{fs::single_flow_router()}); pre.set_mask(m); pre.set_base_levels(bls); pre.update_routes(z); auto& s=used->graph_snapshot("a"); auto&x=s.impl(); auto&y=pre.impl(); bool ok=eq(x.receivers_count(),y.receivers_count())&&eq(x.dfs_indices(),y.dfs_indices())&&eq(x.bfs_indices(),y.bfs_indices())&&x.bfs_levels()==y.bfs_levels()&&eq(x.donors_count(),y.donors_count());
     for(size_t i=0;ok&&i<n;++i){ if(x.receivers()(i,0)!=y.receivers()(i,0)) ok=false; for(size_t k=0;k<x.donors_count()(i);++k) if(x.donors()(i,k)!=y.donors()(i,k)) ok=false; }
     auto b1=s.basins(), b2=pre.basins(); if(!eq(b1,b2)) ok=false; if(!eq(used->elevation_snapshot("b"),ou) && false) ok=false; if(!ok){ if(badsnap<5) std::printf("C16 DIFF it %d step %d\n",it,step); ++badsnap; } }
  } }
 std::printf("checks %ld C09 diffs %ld C16 diffs %ld input-modified %ld\n",chk,bad,badsnap,modified); }
