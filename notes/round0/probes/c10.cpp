#include <cstdio>
#include <cstring>
#include <random>
#include "xtensor/xarray.hpp"
#include "fastscapelib/flow/flow_graph.hpp"
#include "fastscapelib/flow/flow_router.hpp"
#include "fastscapelib/grid/raster_grid.hpp"
namespace fs = fastscapelib;
template<class G> void run(const char*name,int iters,size_t N){ std::mt19937 rng(7); long bad=0,badnodes=0;
 for(int it=0;it<iters;++it){ size_t nr=N,nc=N,n=nr*nc; G grid({nr,nc},{1.,1.},fs::node_status::fixed_value); xt::xarray<double> z=xt::zeros<double>({nr,nc}); for(size_t i=0;i<n;++i) z.flat(i)=double(rng()%50);
  fs::flow_graph<G> gs(grid,{fs::single_flow_router()}); gs.update_routes(z); int nt=2+rng()%7; fs::flow_graph<G> gp(grid,{fs::single_flow_router(nt)}); gp.update_routes(z); gp.update_routes(z);
  size_t b=0; for(size_t i=0;i<n;++i) if(gs.impl().receivers()(i,0)!=gp.impl().receivers()(i,0)||gs.impl().dfs_indices()(i)!=gp.impl().dfs_indices()(i)||gs.impl().bfs_indices()(i)!=gp.impl().bfs_indices()(i)) ++b; if(b){++bad;badnodes+=b;} }
 std::printf("%s: mismatching runs %ld/%d (nodes %ld)\n",name,bad,iters,badnodes); }
int main(){ run<fs::raster_grid<>>("cached queen raster",300,40); run<fs::raster_grid<fs::xt_selector,fs::raster_connect::queen,fs::neighbors_no_cache<8>>>("cache-less queen raster",300,40); }
