#include <cmath>
#include <cstdio>
#include <random>
#include "xtensor/xarray.hpp"
#include "fastscapelib/grid/raster_grid.hpp"
#include "fastscapelib/eroders/diffusion_adi.hpp"
namespace fs = fastscapelib; using G=fs::raster_grid<>;
int main(){ std::mt19937 rng(1); long nb=0; double maxrel=0; for(int it=0;it<2000;++it){ size_t nr=3+rng()%4,nc=3+rng()%4; double dy=(double[]){3.,1.7,0.1,7.}[rng()%4], dx=(double[]){3.,1.3,0.3,11.}[rng()%4]; G grid({nr,nc},{dy,dx},fs::node_status::fixed_value);
  xt::xarray<double> z=xt::zeros<double>({nr,nc}); for(size_t i=0;i<nr*nc;++i) z.flat(i)=double(rng()%1000)/7.0; double kc=0.3+rng()%3; fs::diffusion_adi_eroder<G> d1(grid,kc); xt::xarray<double> ka=xt::ones<double>({nr,nc})*kc; fs::diffusion_adi_eroder<G> d2(grid,ka); double dt=std::pow(10.0,double(rng()%5)-1);
  xt::xarray<double> e1=d1.erode(z,dt), e2=d2.erode(z,dt); bool bits=true; for(size_t i=0;i<nr*nc;++i){ if(e1.flat(i)!=e2.flat(i)) bits=false; double den=std::max(std::fabs(z.flat(i)),1.0); maxrel=std::max(maxrel,std::fabs(e1.flat(i)-e2.flat(i))/den);} if(!bits)++nb; }
 std::printf("not bit-identical %ld/2000, max |diff|/max(|h|,1) = %.3g\n",nb,maxrel); }
