#include <atomic>
#include <cstdio>
#include <random>
#include <vector>
#include <csignal>
#include <unistd.h>
#include "xtensor/xarray.hpp"
#include "fastscapelib/flow/flow_graph.hpp"
#include "fastscapelib/flow/flow_router.hpp"
#include "fastscapelib/flow/sink_resolver.hpp"
#include "fastscapelib/grid/raster_grid.hpp"
namespace fs = fastscapelib;
using G=fs::raster_grid<>; using FG=fs::flow_graph<G>;
struct KData { FG* g; std::vector<long> begin_seq, end_seq, calls; std::vector<double> val; std::atomic<long> seq{0}; };
struct NData { std::size_t idx; KData* kd; };
static void on_alarm(int){ std::printf("WATCHDOG\n"); fflush(stdout); _exit(4);} 
int main(int argc,char**argv){ std::signal(SIGALRM,on_alarm); std::mt19937 rng(atoi(argv[1])); long bad=0, runs=0;
 for(int it=0;it<400;++it){ size_t nr=4+rng()%12,nc=4+rng()%12,n=nr*nc; G grid({nr,nc},{1.,1.},fs::node_status::fixed_value); bool multi=rng()%2;
  std::unique_ptr<FG> g; if(multi) g.reset(new FG(grid,{fs::pflood_sink_resolver(),fs::multi_flow_router(1.0)})); else g.reset(new FG(grid,{fs::single_flow_router(),fs::mst_sink_resolver()}));
  xt::xarray<double> z=xt::zeros<double>({nr,nc}); for(size_t i=0;i<n;++i) z.flat(i)=double(rng()%20); g->update_routes(z);
  for(int rep=0;rep<2;++rep){ int nt = rep==0? 1 : 2+rng()%6; KData kd; kd.g=g.get(); kd.begin_seq.assign(n,-1); kd.end_seq.assign(n,-1); kd.calls.assign(n,0); kd.val.assign(n,0.0);
   fs::detail::flow_kernel k; fs::detail::flow_kernel_data d; d.data=&kd;
   k.node_data_create=[]()->void*{ return new NData; }; k.node_data_free=[](void*p){ delete static_cast<NData*>(p); }; k.node_data_init=[](void*p,void*dd){ static_cast<NData*>(p)->kd=static_cast<KData*>(dd); };
   k.node_data_getter=[](std::size_t i,void*,void*p)->int{ static_cast<NData*>(p)->idx=i; return 0; }; k.node_data_setter=[](std::size_t,void*,void*)->int{ return 0; };
   k.func=[](void*p)->int{ auto* nd=static_cast<NData*>(p); auto& kd=*nd->kd; std::size_t i=nd->idx; kd.begin_seq[i]=kd.seq.fetch_add(1); auto& I=kd.g->impl(); double v=1.0; // value = 1 + max over receivers' values (longest path): needs receivers done first
     for(std::size_t r=0;r<I.receivers_count()(i);++r){ auto rc=I.receivers()(i,r); if(rc!=i) v=std::max(v,kd.val[rc]+1.0); } kd.val[i]=v; kd.calls[i]++; kd.end_seq[i]=kd.seq.fetch_add(1); return 0; };
   k.n_threads=nt; k.min_block_size=rng()%4; k.min_level_size=rng()%6; k.apply_dir=fs::flow_graph_traversal_dir::breadth_upstream;
   alarm(10); g->apply_kernel(k,d); alarm(0); ++runs; bool ok=true; auto& I=g->impl();
   for(size_t i=0;i<n;++i){ if(kd.calls[i]!=1) ok=false; for(size_t r=0;r<I.receivers_count()(i);++r){ auto rc=I.receivers()(i,r); if(rc!=i && !(kd.end_seq[rc]<kd.begin_seq[i])) ok=false; } }
   static std::vector<double> ref; if(rep==0) ref=kd.val; else if(ref!=kd.val) ok=false;
   if(!ok){ if(bad<5) std::printf("KERNEL BAD it %d threads %d multi %d\n",it,nt,multi); ++bad; } } }
 std::printf("kernel runs %ld bad %ld\n",runs,bad); }
