#include <algorithm>
#include <cmath>
#include <cstdio>
#include <random>
#include <vector>
#include "xtensor/xarray.hpp"
#include "fastscapelib/flow/flow_graph.hpp"
#include "fastscapelib/flow/flow_router.hpp"
#include "fastscapelib/grid/raster_grid.hpp"
namespace fs = fastscapelib;
int main(int argc,char**argv){ using G=fs::raster_grid<fs::xt_selector,fs::raster_connect::queen>; std::mt19937 rng(atoi(argv[1])); long chk=0,bad4=0,bad5=0;
 for(int it=0;it<4000;++it){ size_t nr=2+rng()%5,nc=2+rng()%5,n=nr*nc; int sy=1+rng()%4,sx=1+rng()%4; bool H=rng()%3==0,V=rng()%3==0;
  using NS=fs::node_status; fs::raster_boundary_status bs(std::array<NS,4>{H?NS::looped:NS::core,H?NS::looped:NS::core,V?NS::looped:NS::core,V?NS::looped:NS::core});
  G grid({nr,nc},{double(sy),double(sx)},bs); int k = (rng()%3==0)? -1074 : (rng()%2? -500: 0);
  std::vector<long> mz(n); xt::xarray<double> z=xt::zeros<double>({nr,nc}); xt::xarray<bool> m=xt::zeros<bool>({nr,nc}); int lev= rng()%2? 3 : 3000;
  for(size_t i=0;i<n;++i){ mz[i]=rng()%lev; z.flat(i)=std::ldexp(double(mz[i]),k); m.flat(i)=rng()%9==0; }
  std::vector<size_t> bl; for(size_t i=0;i<n;++i) if(!m.flat(i)&&rng()%10==0) bl.push_back(i); if(bl.empty()){size_t q=rng()%n;m.flat(q)=false;bl.push_back(q);} 
  int nt = rng()%3==0 ? 3 : 0;
  fs::flow_graph<G> g(grid,{fs::single_flow_router(nt)}); g.set_mask(m); g.set_base_levels(bl); g.update_routes(z);
  double p = (double[]){0.,1.,2.}[rng()%3];
  fs::flow_graph<G> gm(grid,{fs::multi_flow_router(p)}); gm.set_mask(m); gm.set_base_levels(bl); gm.update_routes(z);
  auto& rec=g.impl().receivers(); auto& dist=g.impl().receivers_distance(); auto& wt=g.impl().receivers_weight();
  for(size_t i=0;i<n;++i){ ++chk; bool term = m.flat(i)||std::count(bl.begin(),bl.end(),i);
    auto nb=grid.neighbors(i); std::vector<size_t> L; for(size_t q=0;q<nb.size();++q) if(!m.flat(nb[q].idx)&&mz[nb[q].idx]<mz[i]) L.push_back(q);
    bool ok=true; if(g.impl().receivers_count()(i)!=1||wt(i,0)!=1.0) ok=false;
    if(term||L.empty()){ if(rec(i,0)!=i) ok=false; }
    else { long best=-1; bool found=false; for(auto q:L){ if(nb[q].idx==rec(i,0)&&nb[q].distance==dist(i,0)){ found=true; long dr=mz[i]-mz[nb[q].idx]; long dsq=std::lround(nb[q].distance*nb[q].distance); // exact compare dr^2/dsq >= d2^2/dsq2
          bool maxi=true; for(auto q2:L){ long d2=mz[i]-mz[nb[q2].idx]; long dsq2=std::lround(nb[q2].distance*nb[q2].distance); if((__int128)dr*dr*dsq2 < (__int128)d2*d2*dsq) maxi=false; } if(k>=-900 && !maxi) ok=false; (void)best; } }
      if(!found) ok=false; }
    if(!ok){ if(bad4<5) std::printf("C04 BAD it %d node %zu k=%d rec %zu\n",it,i,k,(size_t)rec(i,0)); ++bad4; }
    // C05
    auto& mrec=gm.impl().receivers(); auto& mw=gm.impl().receivers_weight(); auto& mc=gm.impl().receivers_count(); auto& md=gm.impl().receivers_distance(); bool ok5=true;
    if(term||L.empty()){ if(mc(i)!=1||mrec(i,0)!=i) ok5=false; }
    else { if(mc(i)!=L.size()) ok5=false; else { std::vector<std::pair<size_t,double>> a,b; double s=0; for(size_t r=0;r<mc(i);++r){ a.push_back({mrec(i,r),md(i,r)}); s+=mw(i,r); if(!std::isfinite(mw(i,r))) ok5=false; } for(auto q:L) b.push_back({nb[q].idx,nb[q].distance}); std::sort(a.begin(),a.end()); std::sort(b.begin(),b.end()); if(a!=b) ok5=false; if(std::fabs(s-1)>1e-9) ok5=false;
        if(ok5 && k>=-900) for(size_t r=0;r<mc(i);++r) for(size_t r2=0;r2<mc(i);++r2){ // proportionality w_r * s_r2^p == w_r2 * s_r^p
            double sr=(mz[i]-mz[mrec(i,r)])/md(i,r), sr2=(mz[i]-mz[mrec(i,r2)])/md(i,r2); if(std::fabs(mw(i,r)*std::pow(sr2,p)-mw(i,r2)*std::pow(sr,p))>1e-9*std::pow(std::max(sr,sr2),p)) ok5=false; } } }
    if(!ok5){ if(bad5<5) std::printf("C05 BAD it %d node %zu k=%d p=%g cnt %zu L %zu\n",it,i,k,p,(size_t)mc(i),L.size()); ++bad5; }
  } }
 std::printf("nodes %ld C04 bad %ld C05 bad %ld\n",chk,bad4,bad5); }
